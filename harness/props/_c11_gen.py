"""C11 — function-level translator: Python `ast` -> Lean definitions (lean/GlotaranModel/Generated/C11Fns.lean).

The functions of glotaran/parameter/parameter.py, parameters.py and parameter_history.py that property C11 is about are
transcribed statement by statement into Lean definitions over the types of the hand-written model
(lean/GlotaranModel/C11.lean): a Python float is `Ext α` (finite or one of the three non-finite doubles), refined to `α`
where an `np.isfinite` test has established finiteness; `np.log`/`np.exp`/`np.abs`/`+`/`-`/`*`/`==`/`<` on finite values
are the abstract operations of `Num α`; a `Parameter` is `Parameter α`, a `Parameters` object is the insertion-ordered
`List (Parameter α)`; a loop is a `List.foldl` over an auxiliary step function, the mutated names are its state; an exception
is an extra state component.  The meaning of the few Python library constructs used is fixed by hand in
lean/GlotaranModel/C11Py.lean.  `Parameters.update_parameter_expression` is external (property C12): `updateExpr ev`.

Subset: Assign / AugAssign(+,-,*) / If / IfExp / Return / Raise / For over a list or `zip` / Expr(call) statements;
names, attribute reads of the parameter, numeric / bool / None constants, `not`/`and`/`or`, comparisons, tuples,
`len`, `zip`, `np.asarray`, `x.append(e)`, `self.all()`, `self.get(l).m(..)`, slices `[1:]`, calls of translated functions.
Anything else raises `Untranslatable`; the function (and every function that calls it) is then emitted as
`def f : Py.Untranslatable := ⟨reason⟩`, the file still compiles and the `generated_eq_model_*` theorems about it do not.
"""
from __future__ import annotations

import ast
import hashlib
import re
from fractions import Fraction
from pathlib import Path

SOURCES = ["glotaran/parameter/parameter.py", "glotaran/parameter/parameters.py", "glotaran/parameter/parameter_history.py"]


class Untranslatable(Exception):
    pass


# ------------------------------------------------------------------------------------------------------------------
# types
# ------------------------------------------------------------------------------------------------------------------
class T:
    def __init__(self, k, *args):
        self.k, self.args = k, args

    def __eq__(self, o):
        return isinstance(o, T) and self.k == o.k and self.args == o.args

    def __hash__(self):
        return hash((self.k, self.args))

    def __repr__(self):
        return self.k + (repr(list(self.args)) if self.args else "")

    def lean(self):
        k = self.k
        if k == "double":
            return "Ext α"
        if k == "fin":
            return "α"
        if k == "bool":
            return "Bool"
        if k == "str":
            return "String"
        if k == "optstr":
            return "Option String"
        if k == "nat":
            return "Nat"
        if k == "int":
            return "Int"
        if k == "param":
            return "Parameter α"
        if k in ("params", "pdict"):
            return "List (Parameter α)"
        if k == "history":
            return "History α"
        if k == "list":
            if self.args[0] is None:
                raise Untranslatable("a list whose element type is never determined")
            return f"List ({self.args[0].lean()})"
        if k == "tuple":
            return " × ".join(f"({a.lean()})" if a.k == "tuple" else a.lean() for a in self.args)
        if k == "exc":
            return "Option Py.Exc"
        if k == "unit":
            return "Unit"
        raise Untranslatable(f"no Lean type for {self!r}")


DOUBLE, FIN, BOOL, STR, OPTSTR, NAT, INT = T("double"), T("fin"), T("bool"), T("str"), T("optstr"), T("nat"), T("int")
PARAM, PARAMS, PDICT, HISTORY, NONE, EXC = T("param"), T("params"), T("pdict"), T("history"), T("none"), T("exc")


class Lit:
    """a numeric literal: becomes `Num.ofRat` where a finite number is needed"""

    def __init__(self, q):
        self.q = Fraction(q)


class ListCell(T):
    """list type whose element type is fixed by the first `.append`"""

    def __init__(self):
        super().__init__("list", None)

    def set(self, t):
        if self.args[0] is None:
            self.args = (t,)
        elif self.args[0] != t:
            raise Untranslatable(f"list holds {self.args[0]!r} and {t!r}")


def rat_text(q: Fraction) -> str:
    return f"({q.numerator} : Rat)" if q.denominator == 1 else f"({q.numerator} / {q.denominator} : Rat)"


# attributes of `Parameter` (python name -> Lean field, type); presence is checked against the class body
PARAM_FIELDS = {
    "label": ("label", STR), "value": ("value", DOUBLE), "minimum": ("min", DOUBLE), "maximum": ("max", DOUBLE),
    "non_negative": ("nonNeg", BOOL), "vary": ("vary", BOOL), "expression": ("expr", OPTSTR),
    "standard_error": ("stderr", DOUBLE),
}
ANNOT = {
    "float": DOUBLE, "bool": BOOL, "str": STR, "int": INT, "list[str]": T("list", STR), "np.ndarray": T("list", DOUBLE),
    "ParameterHistory": HISTORY, "Parameters": PARAMS, "str | None": OPTSTR, "Parameter": PARAM, "Attribute": T("unit"),
}
# attributes of a Parameter that belong to another property's model (C12: the rewritten expression text); an assignment to
# them is not part of the C11 transcription and is recorded in the generated file as a comment
FOREIGN_ATTRS = {"transformed_expression"}
EXTERNAL_MUTATORS = {"update_parameter_expression"}     # modelled by hand: `updateExpr ev` (property C12)


def q(s: str) -> str:
    return '"' + s.replace("\\", "\\\\").replace('"', '\\"') + '"'


def ind(lines, n=2):
    return [" " * n + l for l in lines]


def paren(lines):
    if len(lines) == 1:
        return lines
    return ["(" + lines[0]] + [" " + l for l in lines[1:-1]] + [" " + lines[-1] + ")"]


# ------------------------------------------------------------------------------------------------------------------
# one function
# ------------------------------------------------------------------------------------------------------------------
class Fn:
    def __init__(self, name, lean_name, node, self_t, source, registry):
        self.name, self.lean_name, self.node, self.self_t, self.source = name, lean_name, node, self_t, source
        self.registry = registry          # lean_name-keyed results of functions translated before
        self.uses_ev = False
        self.aux: list[str] = []          # auxiliary (loop step) definitions
        self.nloops = 0
        self.ret_t = None
        self.mutates = self.raises = False
        self.lines: list[str] = []
        self.params: list[tuple[str, T]] = []

    # -- effects ------------------------------------------------------------------------------------------------
    def scan_effects(self):
        for n in ast.walk(self.node):
            if isinstance(n, ast.Raise):
                self.raises = True
            if isinstance(n, (ast.Assign, ast.AugAssign)):
                for t in (n.targets if isinstance(n, ast.Assign) else [n.target]):
                    if isinstance(t, ast.Attribute) and isinstance(t.value, ast.Name) and t.value.id == "self":
                        self.mutates = True
            if isinstance(n, ast.Call) and isinstance(n.func, ast.Attribute):
                f = n.func
                if isinstance(f.value, ast.Name) and f.value.id == "self":
                    if f.attr in EXTERNAL_MUTATORS:
                        self.mutates = True
                    elif f.attr in self.registry_methods():
                        callee = self.registry_methods()[f.attr]
                        self.mutates |= callee.mutates
                        self.raises |= callee.raises
                        self.uses_ev |= callee.uses_ev
                if isinstance(f.value, ast.Call) and self.is_self_get(f.value):
                    self.raises = True
                    self.mutates = True

    def registry_methods(self):
        return {f.name: f for f in self.registry.values() if isinstance(f, Fn) and f.self_t == self.self_t}

    @staticmethod
    def is_self_get(call):
        return (isinstance(call, ast.Call) and isinstance(call.func, ast.Attribute) and call.func.attr == "get"
                and isinstance(call.func.value, ast.Name) and call.func.value.id == "self" and len(call.args) == 1)

    # -- result conventions ---------------------------------------------------------------------------------------
    def finish(self, env, value=None, exc=None):
        """Lean text of the function's result: `value` (text,type) of a `return`, `exc` text of a raise, None = fall off"""
        if self.self_t is None or not (self.mutates or self.raises):
            if exc is not None:
                raise Untranslatable("raise in a function that is translated as pure")
            if value is None:
                raise Untranslatable("function without effect falls off its end")
            self.note_ret(value[1])
            return value[0]
        parts = ["self"] if self.mutates else []
        if self.raises:
            if value is not None and value[1] != NONE:
                raise Untranslatable("a function that may raise and returns a value")
            parts.append(exc if exc is not None else "(none : Option Py.Exc)")
            self.note_ret(T("tuple", self.self_t, EXC) if self.mutates else EXC)
        elif value is not None and value[1] != NONE:
            parts.append(value[0])
            self.note_ret(T("tuple", self.self_t, value[1]))
        else:
            self.note_ret(self.self_t)
        return parts[0] if len(parts) == 1 else "(" + ", ".join(parts) + ")"

    def note_ret(self, t):
        if self.ret_t is None:
            self.ret_t = t
        elif self.ret_t != t:
            raise Untranslatable(f"returns of different types: {self.ret_t!r} and {t!r}")

    # -- expressions ------------------------------------------------------------------------------------------------
    def coerce(self, e, want):
        """(text, type-or-Lit) -> text of type `want`"""
        text, t = e
        if isinstance(t, Lit):
            if want == FIN:
                return f"(Num.ofRat {rat_text(t.q)})"
            if want == DOUBLE:
                return f"(.fin (Num.ofRat {rat_text(t.q)}))"
            if want == INT and t.q.denominator == 1:
                return f"({t.q.numerator} : Int)"
            raise Untranslatable(f"numeric literal where {want!r} is needed")
        if t == want:
            return text
        if t == FIN and want == DOUBLE:
            return f"(.fin {text})"
        if {t.k, want.k} <= {"params", "pdict"}:
            return text
        if t.k == "list" and want.k == "list" and t.args == want.args:
            return text
        raise Untranslatable(f"a value of type {t!r} where {want!r} is needed")

    def num2(self, a, b):
        """both operands as finite numbers"""
        for x in (a, b):
            if not (isinstance(x[1], Lit) or x[1] == FIN):
                raise Untranslatable("arithmetic / comparison on a value that is not known to be finite")
        return self.coerce(a, FIN), self.coerce(b, FIN)

    def expr(self, n, env):
        """-> (text, type);  type may be Lit, or ('sym', op, a, b) for a comparison of finite numbers"""
        if isinstance(n, ast.Constant):
            v = n.value
            if isinstance(v, bool):
                return ("true" if v else "false"), BOOL
            if isinstance(v, (int, float)):
                if v != v or v in (float("inf"), float("-inf")):
                    raise Untranslatable("non-finite literal")
                return "", Lit(Fraction(repr(v)) if isinstance(v, float) else v)
            if isinstance(v, str):
                return q(v), STR
            if v is None:
                return "()", NONE
            raise Untranslatable(f"constant {v!r}")
        if isinstance(n, ast.JoinedStr):
            return q("<f-string>"), STR
        if isinstance(n, ast.Name):
            if n.id not in env:
                raise Untranslatable(f"unknown name {n.id}")
            return n.id, env[n.id]
        if isinstance(n, ast.Attribute):
            if isinstance(n.value, ast.Name) and n.value.id == "np":
                if n.attr == "inf":
                    return "(.pinf : Ext α)", DOUBLE
                if n.attr == "nan":
                    return "(.nan : Ext α)", DOUBLE
                raise Untranslatable(f"np.{n.attr}")
            obj, t = self.expr(n.value, env)
            if t == PARAM:
                if n.attr not in PARAM_FIELDS:
                    raise Untranslatable(f"attribute {n.attr} of a Parameter")
                f, ft = PARAM_FIELDS[n.attr]
                return f"{obj}.{f}", ft
            if t == PARAMS and n.attr == "_parameters":
                return obj, PDICT
            if t == HISTORY and n.attr in ("parameter_labels", "_parameter_labels"):
                return f"{obj}.labels", T("list", STR)
            if t == HISTORY and n.attr in ("parameters", "_parameters"):
                return f"{obj}.rows", T("list", T("list", DOUBLE))
            raise Untranslatable(f"attribute {n.attr} of {t!r}")
        if isinstance(n, ast.UnaryOp):
            if isinstance(n.op, ast.Not):
                a, t = self.expr(n.operand, env)
                if t != BOOL:
                    raise Untranslatable("`not` of a non-boolean (truthiness)")
                return f"(!{a})", BOOL
            if isinstance(n.op, ast.USub):
                a = self.expr(n.operand, env)
                if isinstance(a[1], Lit):
                    return "", Lit(-a[1].q)
                if a == ("(.pinf : Ext α)", DOUBLE):
                    return "(.ninf : Ext α)", DOUBLE
                if a[1] == FIN:
                    return f"(Num.sub (Num.ofRat (0 : Rat)) {a[0]})", FIN
            raise Untranslatable("unary operator " + type(n.op).__name__)
        if isinstance(n, ast.BoolOp):
            parts = [self.expr(v, env) for v in n.values]
            if any(t != BOOL for _, t in parts):
                raise Untranslatable("and/or of non-booleans (truthiness)")
            op = " || " if isinstance(n.op, ast.Or) else " && "
            return "(" + op.join(p for p, _ in parts) + ")", BOOL
        if isinstance(n, ast.BinOp):
            ops = {ast.Add: "Num.add", ast.Sub: "Num.sub", ast.Mult: "Num.mul"}
            if type(n.op) not in ops:
                raise Untranslatable("operator " + type(n.op).__name__)
            a, b = self.expr(n.left, env), self.expr(n.right, env)
            if isinstance(a[1], Lit) and isinstance(b[1], Lit):
                raise Untranslatable("constant folding")
            if a[1].k == "list" if isinstance(a[1], T) else False:
                raise Untranslatable("list arithmetic")
            x, y = self.num2(a, b)
            return f"({ops[type(n.op)]} {x} {y})", FIN
        if isinstance(n, ast.Compare):
            if len(n.ops) != 1:
                raise Untranslatable("chained comparison")
            op = n.ops[0]
            a, b = self.expr(n.left, env), self.expr(n.comparators[0], env)
            if isinstance(op, ast.In) and b[1] == PDICT and a[1] == STR:
                return f"(Py.has {b[0]} {a[0]})", BOOL
            ta, tb = a[1], b[1]
            if isinstance(ta, T) and isinstance(tb, T) and ta == tb and ta.k in ("nat", "str", "bool", "int") or \
                    (isinstance(ta, T) and isinstance(tb, T) and ta.k == "list" and tb.k == "list" and ta.args == tb.args
                     and ta.args[0] in (STR, NAT)):
                if isinstance(op, ast.Eq):
                    return f"(decide ({a[0]} = {b[0]}))", BOOL
                if isinstance(op, ast.NotEq):
                    return f"(decide ({a[0]} ≠ {b[0]}))", BOOL
                if ta.k in ("nat", "int") and isinstance(op, (ast.Lt, ast.LtE, ast.Gt, ast.GtE)):
                    sym = {ast.Lt: "<", ast.LtE: "≤", ast.Gt: ">", ast.GtE: "≥"}[type(op)]
                    return f"(decide ({a[0]} {sym} {b[0]}))", BOOL
                raise Untranslatable("comparison " + type(op).__name__)
            if isinstance(ta, T) and ta == NAT and isinstance(tb, Lit) and tb.q.denominator == 1 and tb.q >= 0 \
                    and isinstance(op, (ast.Eq, ast.NotEq)):
                return f"(decide ({a[0]} {'=' if isinstance(op, ast.Eq) else '≠'} {tb.q.numerator}))", BOOL
            x, y = self.num2(a, b)
            # finite doubles: a > b  <=>  b < a;  a >= b  <=>  not a < b;  a != b  <=>  not a == b
            table = {ast.Eq: ("ifEq", x, y, False), ast.NotEq: ("ifEq", x, y, True), ast.Lt: ("ifLt", x, y, False),
                     ast.Gt: ("ifLt", y, x, False), ast.GtE: ("ifLt", x, y, True), ast.LtE: ("ifLt", y, x, True)}
            if type(op) not in table:
                raise Untranslatable("comparison " + type(op).__name__)
            return "", ("sym",) + table[type(op)]
        if isinstance(n, ast.IfExp):
            c = self.expr(n.test, env)
            a, b = self.expr(n.body, env), self.expr(n.orelse, env)
            if isinstance(c[1], tuple):
                _, f, x, y, neg = c[1]
                if neg:
                    a, b = b, a
                return f"(Num.{f} {x} {y} {self.coerce(a, FIN)} {self.coerce(b, FIN)})", FIN
            if c[1] != BOOL:
                raise Untranslatable("condition of a conditional expression is not a boolean (truthiness)")
            t = self.join(a[1], b[1])
            return f"(if {c[0]} then {self.coerce(a, t)} else {self.coerce(b, t)})", t
        if isinstance(n, ast.Tuple):
            parts = [self.expr(e, env) for e in n.elts]
            ts = [DOUBLE if isinstance(t, Lit) else t for _, t in parts]
            return "(" + ", ".join(self.coerce(p, t) for p, t in zip(parts, ts)) + ")", T("tuple", *ts)
        if isinstance(n, ast.List):
            if n.elts:
                raise Untranslatable("non-empty list display")
            return "[]", ListCell()
        if isinstance(n, ast.Subscript):
            obj = self.expr(n.value, env)
            s = n.slice
            if isinstance(s, ast.Slice) and s.upper is None and s.step is None and isinstance(s.lower, ast.Constant) \
                    and s.lower.value == 1 and isinstance(obj[1], T) and obj[1].k == "list":
                return f"(Py.from1 {obj[0]})", obj[1]
            raise Untranslatable("subscript")
        if isinstance(n, ast.Call):
            return self.call(n, env)
        raise Untranslatable("expression " + type(n).__name__)

    def join(self, a, b):
        if isinstance(a, Lit) and isinstance(b, Lit):
            return FIN
        if isinstance(a, Lit):
            a = b if b in (FIN, DOUBLE) else None
        if isinstance(b, Lit):
            b = a if a in (FIN, DOUBLE) else None
        if a is None or b is None or isinstance(a, tuple) or isinstance(b, tuple):
            raise Untranslatable("branches of different types")
        if a == b:
            return a
        if {a, b} == {FIN, DOUBLE}:
            return DOUBLE
        raise Untranslatable(f"branches of types {a!r} and {b!r}")

    def call(self, n, env):
        f = n.func
        if n.keywords:
            raise Untranslatable("keyword arguments")
        args = [self.expr(a, env) for a in n.args]
        if isinstance(f, ast.Attribute) and isinstance(f.value, ast.Name) and f.value.id == "np":
            if len(args) != 1:
                raise Untranslatable(f"np.{f.attr} with {len(args)} arguments")
            a = args[0]
            if f.attr == "log":
                if a[1] != FIN:
                    raise Untranslatable("np.log of a value that is not known to be finite")
                return f"(Num.log {a[0]})", FIN
            if f.attr == "exp":
                if a[1] == FIN:
                    return f"(Num.exp {a[0]})", FIN
                if a[1] == DOUBLE:
                    return f"(expE {a[0]})", DOUBLE
                raise Untranslatable("np.exp of a non-number")
            if f.attr == "abs":
                if a[1] != FIN:
                    raise Untranslatable("np.abs of a value that is not known to be finite")
                return f"(Num.abs {a[0]})", FIN
            if f.attr in ("asarray", "array"):
                if isinstance(a[1], T) and a[1].k == "list":
                    if a[1].args[0] is None:
                        a[1].set(DOUBLE)
                    if a[1].args[0] == DOUBLE:
                        return f"(Py.asarray {a[0]})", a[1]
                raise Untranslatable(f"np.{f.attr} of something that is not a list of floats")
            raise Untranslatable(f"np.{f.attr}")
        if isinstance(f, ast.Name):
            if f.id == "len" and len(args) == 1 and isinstance(args[0][1], T) and args[0][1].k in ("list", "params", "pdict"):
                return f"{args[0][0]}.length", NAT
            if f.id == "zip" and len(args) == 2 and all(isinstance(a[1], T) and a[1].k == "list" for a in args):
                return f"(List.zip {args[0][0]} {args[1][0]})", T("list", T("tuple", args[0][1].args[0], args[1][1].args[0]))
            callee = self.registry.get(f.id.lstrip("_"))
            if callee is not None and callee.self_t is None:
                return self.apply(callee, None, args)
            raise Untranslatable(f"call of {f.id}")
        if isinstance(f, ast.Attribute):
            obj = self.expr(f.value, env)
            if obj[1] == PARAMS and f.attr == "all" and not args:
                return obj[0], T("list", PARAM)
            callee = next((c for c in self.registry.values() if isinstance(c, Fn) and c.name == f.attr
                           and c.self_t is not None and c.self_t == obj[1]), None)
            if callee is not None and not callee.mutates and not callee.raises:
                return self.apply(callee, obj, args)
            raise Untranslatable(f"method call .{f.attr} in expression position")
        raise Untranslatable("call")

    def apply(self, callee, obj, args):
        if isinstance(callee, Broken):
            raise Untranslatable(f"calls {callee.name}, which is untranslatable")
        want = [t for _, t in callee.params if _ not in ("self", "ev")]
        if len(want) != len(args):
            raise Untranslatable(f"{callee.name} called with {len(args)} arguments")
        texts = [self.coerce(a, t) for a, t in zip(args, want)]
        self.uses_ev |= callee.uses_ev
        head = [f"{callee.lean_name}"] + (["ev"] if callee.uses_ev else []) + ([obj[0]] if obj is not None else [])
        return "(" + " ".join(head + texts) + ")", callee.ret_t

    # -- statements -----------------------------------------------------------------------------------------------------
    def block(self, stmts, env, fall):
        """Lean lines for `stmts` followed by whatever `fall(env)` produces (the continuation: lines)"""
        if not stmts:
            return fall(env)
        s, rest = stmts[0], stmts[1:]
        env = dict(env)
        go = lambda e: self.block(rest, e, fall)            # noqa: E731
        if isinstance(s, ast.Expr) and isinstance(s.value, ast.Constant) and isinstance(s.value.value, str):
            return go(env)
        if isinstance(s, ast.Pass):
            return go(env)
        if isinstance(s, ast.Return):
            v = self.expr(s.value, env) if s.value is not None else ("()", NONE)
            if self.in_loop:
                raise Untranslatable("return inside a loop")
            if isinstance(v[1], Lit):
                v = (self.coerce(v, DOUBLE), DOUBLE)
            if v[1] == FIN and self.ret_hint == DOUBLE:
                v = (self.coerce(v, DOUBLE), DOUBLE)
            return [self.finish(env, value=v)]
        if isinstance(s, ast.Raise):
            return [self.raise_(s, env)]
        if isinstance(s, ast.Assign):
            if len(s.targets) != 1:
                raise Untranslatable("chained assignment")
            t0 = s.targets[0]
            if isinstance(t0, ast.Attribute) and isinstance(t0.value, ast.Name) and t0.value.id == "self" \
                    and env.get("self") == PARAM and t0.attr in FOREIGN_ATTRS:
                return [f"-- self.{t0.attr} := …   (not part of the C11 model: property C12)"] + go(env)
            return self.assign(s.targets[0], self.expr(s.value, env), env, go)
        if isinstance(s, ast.AnnAssign) and s.value is not None:
            return self.assign(s.target, self.expr(s.value, env), env, go)
        if isinstance(s, ast.AugAssign):
            cur = self.expr(s.target, env) if isinstance(s.target, ast.Name) else None
            if cur is None:
                raise Untranslatable("augmented assignment to a non-name")
            val = self.expr(ast.BinOp(left=s.target, op=s.op, right=s.value), env)
            return self.assign(s.target, val, env, go)
        if isinstance(s, ast.If):
            return self.if_(s, env, rest, fall)
        if isinstance(s, ast.For):
            return self.for_(s, env, go)
        if isinstance(s, ast.Expr) and isinstance(s.value, ast.Call):
            return self.call_stmt(s.value, env, go)
        raise Untranslatable("statement " + type(s).__name__)

    def raise_(self, s, env):
        if s.exc is None or not isinstance(s.exc, ast.Call) or not isinstance(s.exc.func, ast.Name):
            raise Untranslatable("raise of something that is not `Class(args)`")
        args = []
        for a in s.exc.args:
            t, ty = self.expr(a, env)
            if ty != STR:
                raise Untranslatable("exception argument that is not a string")
            args.append(t)
        exc = f"(some ⟨{q(s.exc.func.id)}, [{', '.join(args)}]⟩ : Option Py.Exc)"
        if self.in_loop:
            return self.loop_state_text(env, exc)
        return self.finish(env, exc=exc)

    def assign(self, target, val, env, go):
        if isinstance(target, ast.Name):
            text, t = val
            if isinstance(t, tuple):
                raise Untranslatable("a comparison of floats stored in a variable")
            if isinstance(t, Lit):
                text, t = self.coerce(val, FIN), FIN
            old = env.get(target.id)
            if target.id in self.loop_state_names and old is not None and old != t:
                text, t = self.coerce((text, t), old), old
            env[target.id] = t
            if isinstance(t, ListCell):
                self.cells.append((target.id, t))
                return [f"let {target.id} : LISTCELL{len(self.cells) - 1} := {text}"] + go(env)
            return [f"let {target.id} := {text}"] + go(env)
        if isinstance(target, ast.Tuple) and all(isinstance(e, ast.Name) for e in target.elts):
            text, t = val
            if not (isinstance(t, T) and t.k == "tuple" and len(t.args) == len(target.elts)):
                raise Untranslatable("tuple assignment from a non-tuple")
            for e, et in zip(target.elts, t.args):
                env[e.id] = et
            return [f"let ({', '.join(e.id for e in target.elts)}) := {text}"] + go(env)
        if isinstance(target, ast.Attribute) and isinstance(target.value, ast.Name) and target.value.id == "self" \
                and env.get("self") == PARAM:
            if target.attr in FOREIGN_ATTRS:
                return [f"-- self.{target.attr} := …   (not part of the C11 model: property C12)"] + go(env)
            if target.attr not in PARAM_FIELDS:
                raise Untranslatable(f"assignment to attribute {target.attr}")
            f, ft = PARAM_FIELDS[target.attr]
            return [f"let self := {{ self with {f} := {self.coerce(val, ft)} }}"] + go(env)
        raise Untranslatable("assignment target " + ast.dump(target)[:60])

    def call_stmt(self, c, env, go):
        f = c.func
        if isinstance(f, ast.Attribute):
            # x.append(e)
            if f.attr == "append" and isinstance(f.value, ast.Name) and len(c.args) == 1 and not c.keywords:
                name = f.value.id
                t = env.get(name)
                if not (isinstance(t, T) and t.k == "list"):
                    raise Untranslatable(".append on a non-list")
                v = self.expr(c.args[0], env)
                vt = DOUBLE if isinstance(v[1], Lit) else v[1]
                if isinstance(t, ListCell) or t.args[0] is None:
                    t.set(vt)
                return [f"let {name} := {name} ++ [{self.coerce(v, t.args[0])}]"] + go(env)
            # self.update_parameter_expression()
            if isinstance(f.value, ast.Name) and f.value.id == "self" and env.get("self") == PARAMS and not c.args:
                if f.attr in EXTERNAL_MUTATORS:
                    self.uses_ev = True
                    return ["let self := updateExpr ev self"] + go(env)
            # self.get(label).method(args)
            if self.is_self_get(f.value) and env.get("self") == PARAMS:
                getter = self.registry.get("Parameters_get")
                if getter is None or isinstance(getter, Broken):
                    raise Untranslatable("self.get(...) but Parameters.get is untranslatable")
                label = self.coerce(self.expr(f.value.args[0], env), STR)
                callee = next((x for x in self.registry.values() if isinstance(x, Fn) and x.name == f.attr
                               and x.self_t == PARAM), None)
                if callee is None:
                    broken = next((x for x in self.registry.values() if isinstance(x, Broken) and x.name == f.attr), None)
                    raise Untranslatable(f"calls {f.attr}, which is " + ("untranslatable" if broken else "not translated"))
                if not callee.mutates or callee.raises or callee.ret_t != PARAM:
                    raise Untranslatable(f"self.get(..).{f.attr}: not a plain mutator of the parameter")
                args = [self.expr(a, env) for a in c.args]
                want = [t for nme, t in callee.params if nme not in ("self", "ev")]
                if len(want) != len(args) or c.keywords:
                    raise Untranslatable(f"{f.attr} called with other arguments than declared")
                texts = [self.coerce(a, t) for a, t in zip(args, want)]
                exc = f"(some ⟨{q(getter.exc_cls)}, [{label}]⟩ : Option Py.Exc)"
                raised = self.loop_state_text(env, exc) if self.in_loop else self.finish(env, exc=exc)
                upd = f"let self := Py.update self {label} (fun obj => {' '.join([callee.lean_name, 'obj'] + texts)})"
                return [f"if Py.has self {label} then"] + ind(paren([upd] + go(env))) + ["else"] + ind([raised])
            # self.other_translated_method(args) as a statement
            if isinstance(f.value, ast.Name) and f.value.id == "self":
                callee = self.registry_methods().get(f.attr)
                if callee is not None and callee.mutates and not c.keywords:
                    args = [self.expr(a, env) for a in c.args]
                    want = [t for nme, t in callee.params if nme not in ("self", "ev")]
                    if len(want) != len(args):
                        raise Untranslatable(f"{f.attr} called with other arguments than declared")
                    texts = [self.coerce(a, t) for a, t in zip(args, want)]
                    self.uses_ev |= callee.uses_ev
                    head = " ".join([callee.lean_name] + (["ev"] if callee.uses_ev else []) + ["self"] + texts)
                    if callee.raises and callee.ret_t == T("tuple", self.self_t, EXC):
                        raised = (lambda e: self.loop_state_text(env, e)) if self.in_loop else (lambda e: self.finish(env, exc=e))
                        return [f"let (self, exc) := {head}", "match exc with",
                                f"| some e => {raised('(some e)')}", "| none =>"] + ind(paren(go(env)))
                    if not callee.raises and callee.ret_t == self.self_t:
                        return [f"let self := {head}"] + go(env)
        raise Untranslatable("call statement " + ast.unparse(c)[:60])

    def if_(self, s, env, rest, fall):
        test = s.test
        neg = False
        if isinstance(test, ast.UnaryOp) and isinstance(test.op, ast.Not):
            inner = test.operand
            if self.is_isfinite(inner):
                test, neg = inner, True
        if self.is_isfinite(test):
            name = test.args[0].id
            if env.get(name) != DOUBLE:
                raise Untranslatable("np.isfinite of something that is not a float variable")
            fin_body, other_body = (s.orelse, s.body) if neg else (s.body, s.orelse)
            env_fin = dict(env)
            env_fin[name] = FIN
            a = self.block(list(fin_body) + rest, env_fin, fall)
            b = self.block(list(other_body) + rest, env, fall)
            return [f"match {name} with", f"| .fin {name} =>"] + ind(paren(a)) + [f"| {name} =>"] + ind(paren(b))
        c = self.expr(test, env)
        if isinstance(c[1], tuple):
            # comparison of finite numbers: no Lean `if` exists for it — if-conversion over the assigned names
            _, f, x, y, negc = c[1]
            then_v, else_v = self.straight(s.body, env), self.straight(s.orelse, env)
            lines = []
            for name in dict.fromkeys(list(then_v) + list(else_v)):
                if env.get(name) != FIN:
                    raise Untranslatable("a float comparison guards an assignment to a value not known to be finite")
                a, b = then_v.get(name, name), else_v.get(name, name)
                if negc:
                    a, b = b, a
                lines.append(f"let {name} := Num.{f} {x} {y} {a} {b}")
            return lines + self.block(rest, env, fall)
        if c[1] == OPTSTR:
            c = (f"(Py.truthy {c[0]})", BOOL)
        if c[1] != BOOL:
            raise Untranslatable("condition is not a boolean (truthiness)")
        a = self.block(list(s.body) + rest, env, fall)
        b = self.block(list(s.orelse) + rest, env, fall)
        return [f"if {c[0]} then"] + ind(paren(a)) + ["else"] + ind(paren(b))

    @staticmethod
    def is_isfinite(n):
        return (isinstance(n, ast.Call) and isinstance(n.func, ast.Attribute) and n.func.attr == "isfinite"
                and isinstance(n.func.value, ast.Name) and n.func.value.id == "np" and len(n.args) == 1
                and isinstance(n.args[0], ast.Name))

    def straight(self, stmts, env):
        """name -> Lean text of its new (finite) value, for a branch made of independent assignments only"""
        out = {}
        for s in stmts:
            if isinstance(s, ast.AugAssign) and isinstance(s.target, ast.Name):
                tgt, val = s.target.id, ast.BinOp(left=s.target, op=s.op, right=s.value)
            elif isinstance(s, ast.Assign) and len(s.targets) == 1 and isinstance(s.targets[0], ast.Name):
                tgt, val = s.targets[0].id, s.value
            else:
                raise Untranslatable("a float comparison guards something other than plain assignments")
            for nn in ast.walk(val):
                if isinstance(nn, ast.Name) and nn.id in out:
                    raise Untranslatable("dependent assignments under a float comparison")
            if tgt in out:
                raise Untranslatable("a name assigned twice under a float comparison")
            out[tgt] = self.coerce(self.expr(val, env), FIN)
        return out

    # -- loops --------------------------------------------------------------------------------------------------------------
    def for_(self, s, env, go):
        if s.orelse or self.in_loop:
            raise Untranslatable("for-else / nested loop")
        it = self.expr(s.iter, env)
        if not (isinstance(it[1], T) and it[1].k == "list"):
            raise Untranslatable("loop over something that is not a list")
        elem = it[1].args[0]
        if isinstance(s.target, ast.Name):
            targets, pat = {s.target.id: elem}, s.target.id
        elif isinstance(s.target, ast.Tuple) and all(isinstance(e, ast.Name) for e in s.target.elts) \
                and elem.k == "tuple" and len(elem.args) == len(s.target.elts):
            targets = {e.id: t for e, t in zip(s.target.elts, elem.args)}
            pat = "(" + ", ".join(targets) + ")"
        else:
            raise Untranslatable("loop target")
        modified, raising = self.modified(s.body)
        for n in ast.walk(ast.Module(body=s.body, type_ignores=[])):
            if isinstance(n, (ast.Break, ast.Continue, ast.Return, ast.While, ast.Try, ast.With)):
                raise Untranslatable(type(n).__name__ + " inside a loop")
        state = [v for v in env if v in modified and v not in targets]
        if not state:
            raise Untranslatable("loop without effect on any name defined before it")
        read = {n.id for n in ast.walk(ast.Module(body=s.body, type_ignores=[])) if isinstance(n, ast.Name)}
        captured = [v for v in env if v in read and v not in state and v not in targets]
        self.nloops += 1
        aux_name = f"{self.lean_name}_loop{self.nloops}"
        slots = state + (["exc"] if raising else [])
        stup = "(" + ", ".join(slots) + ")" if len(slots) > 1 else slots[0]
        # body
        self.in_loop, self.loop_slots, self.loop_state_names = True, slots, set(state)
        benv = {**env, **targets}
        uses_ev_before = self.uses_ev
        self.uses_ev = False
        body = self.block(list(s.body), benv, lambda e: [self.loop_state_text(e, "(none : Option Py.Exc)")])
        self.in_loop, self.loop_state_names = False, set()
        for v in state:
            if isinstance(benv.get(v), ListCell) and benv[v].args[0] is None:
                raise Untranslatable(f"list {v} is never appended to")
        stypes = [env[v] for v in state] + ([EXC] if raising else [])
        st_t = T("tuple", *stypes) if len(stypes) > 1 else stypes[0]
        ev = self.uses_ev
        sig = "".join(f" ({v} : {env[v].lean()})" for v in captured)
        lines = [f"def {aux_name} [Num α]" + (" (ev : Eval α)" if ev else "") + sig
                 + f" (st : {st_t.lean()}) (item : {elem.lean()}) : {st_t.lean()} :="]
        inner = [f"let {stup} := st"] if len(slots) > 1 else ([f"let {slots[0]} := st"])
        if raising:
            inner += ["match exc with", "| some e => " + self.state_text(state, "(some e)"), "| none =>"]
            inner += ind([f"let {pat} := item"] + body)
        else:
            inner += [f"let {pat} := item"] + body
        self.aux.append("\n".join(lines + ind(inner)))
        self.uses_ev = ev or uses_ev_before
        init = self.state_text(state, "(none : Option Py.Exc)") if raising else (stup if len(slots) > 1 else state[0])
        call = f"List.foldl ({aux_name}" + (" ev" if ev else "") + "".join(f" {v}" for v in captured) + f") {init} {it[0]}"
        out = [f"let {stup} := {call}"]
        if raising:
            out += ["match exc with", "| some e => " + self.finish(env, exc="(some e)"), "| none =>"] + ind(paren(go(env)))
            return out
        return out + go(env)

    def state_text(self, state, exc):
        parts = list(state) + [exc]
        return "(" + ", ".join(parts) + ")"

    def loop_state_text(self, env, exc):
        slots = [s for s in self.loop_slots if s != "exc"]
        if "exc" in self.loop_slots:
            return self.state_text(slots, exc)
        return "(" + ", ".join(slots) + ")" if len(slots) > 1 else slots[0]

    def modified(self, stmts):
        mod, raising = set(), False
        for n in ast.walk(ast.Module(body=stmts, type_ignores=[])):
            if isinstance(n, ast.Raise):
                raising = True
            if isinstance(n, ast.Assign):
                for t in n.targets:
                    for e in ([t] if isinstance(t, ast.Name) else t.elts if isinstance(t, ast.Tuple) else []):
                        if isinstance(e, ast.Name):
                            mod.add(e.id)
                    if isinstance(t, ast.Attribute) and isinstance(t.value, ast.Name):
                        mod.add(t.value.id)
            if isinstance(n, ast.AugAssign) and isinstance(n.target, ast.Name):
                mod.add(n.target.id)
            if isinstance(n, ast.Call) and isinstance(n.func, ast.Attribute):
                f = n.func
                if f.attr == "append" and isinstance(f.value, ast.Name):
                    mod.add(f.value.id)
                if self.is_self_get(f.value):
                    mod.add("self")
                    raising = True
                if isinstance(f.value, ast.Name) and f.value.id == "self":
                    callee = self.registry_methods().get(f.attr)
                    if f.attr in EXTERNAL_MUTATORS or (callee is not None and callee.mutates):
                        mod.add("self")
                    if callee is not None and callee.raises:
                        raising = True
        return mod, raising

    # -- whole function -------------------------------------------------------------------------------------------------------
    def translate(self):
        a = self.node.args
        if a.vararg or a.kwarg or a.kwonlyargs or a.posonlyargs:
            raise Untranslatable("star / keyword-only arguments")
        env = {}
        for arg in a.args:
            if arg.arg == "self":
                t = self.self_t
            else:
                ann = ast.unparse(arg.annotation) if arg.annotation is not None else None
                if ann not in ANNOT:
                    raise Untranslatable(f"argument {arg.arg} with annotation {ann!r}")
                t = ANNOT[ann]
            env[arg.arg] = t
            self.params.append((arg.arg, t))
        self.defaults = {}
        for arg, d in zip(a.args[len(a.args) - len(a.defaults):], a.defaults):
            if not isinstance(d, ast.Constant):
                raise Untranslatable("non-constant default")
            self.defaults[arg.arg] = d.value
        self.ret_hint = None
        if self.node.returns is not None and ast.unparse(self.node.returns) == "float":
            self.ret_hint = DOUBLE
        self.in_loop, self.loop_slots, self.loop_state_names, self.cells = False, [], set(), []
        self.scan_effects()
        body = self.block(list(self.node.body), env, lambda e: [self.finish(e)])
        text = "\n".join(body)
        for i, (name, cell) in enumerate(self.cells):
            text = text.replace(f"LISTCELL{i}", cell.lean())
            for k, auxd in enumerate(self.aux):
                self.aux[k] = auxd.replace(f"LISTCELL{i}", cell.lean())
        self.body_text = text
        return self

    def render(self):
        sig = "".join(f" ({n} : {t.lean()})" for n, t in self.params)
        self.needs_num = bool(self.aux) or any(k in self.body_text for k in ("Num.", "expE")) or any(
            isinstance(c, Fn) and getattr(c, "needs_num", False) and re.search(r"\b" + re.escape(c.lean_name) + r"\b", self.body_text)
            for c in self.registry.values())
        head = (f"/-- `{self.qual}` ({self.source}:{self.node.lineno}) -/\n"
                f"def {self.lean_name}" + (" [Num α]" if self.needs_num else "") + (" (ev : Eval α)" if self.uses_ev else "") + sig
                + f" : {self.ret_t.lean()} :=\n")
        return "\n\n".join(self.aux + [head + "\n".join(ind(self.body_text.split("\n")))])


class Broken:
    def __init__(self, name, lean_name, qual, source, lineno, reason):
        self.name, self.lean_name, self.qual, self.source, self.lineno, self.reason = name, lean_name, qual, source, lineno, reason
        self.self_t = None
        self.mutates = self.raises = self.uses_ev = False

    def render(self):
        return (f"/-- `{self.qual}` ({self.source}:{self.lineno}) — outside the translator's subset -/\n"
                f"def {self.lean_name} : Py.Untranslatable := ⟨{q(self.reason)}⟩")


# ------------------------------------------------------------------------------------------------------------------
# the special form `Parameters.get` (try / except KeyError -> raise X(label))
# ------------------------------------------------------------------------------------------------------------------
class Getter(Fn):
    def translate(self):
        b = [s for s in self.node.body if not (isinstance(s, ast.Expr) and isinstance(s.value, ast.Constant))]
        ok = (len(b) == 1 and isinstance(b[0], ast.Try) and len(b[0].body) == 1 and isinstance(b[0].body[0], ast.Return)
              and not b[0].orelse and not b[0].finalbody and len(b[0].handlers) == 1)
        if not ok:
            raise Untranslatable("Parameters.get is not `try: return self._parameters[label] except KeyError: raise X(label)`")
        ret, h = b[0].body[0].value, b[0].handlers[0]
        arg = self.node.args.args[1].arg
        if ast.unparse(ret) != f"self._parameters[{arg}]":
            raise Untranslatable("Parameters.get does not return self._parameters[label]")
        if not (isinstance(h.type, ast.Name) and h.type.id == "KeyError" and len(h.body) == 1 and isinstance(h.body[0], ast.Raise)
                and isinstance(h.body[0].exc, ast.Call) and isinstance(h.body[0].exc.func, ast.Name)
                and [ast.unparse(x) for x in h.body[0].exc.args] == [arg]):
            raise Untranslatable("Parameters.get: the handler is not `except KeyError: raise X(label)`")
        self.exc_cls = h.body[0].exc.func.id
        self.params = [("self", PARAMS), (arg, STR)]
        self.raises = True
        self.ret_t = T("x")
        self.body_text = (f"match Py.lookup self {arg} with\n| some p => .ok p\n"
                          f"| none => .error ⟨{q(self.exc_cls)}, [{arg}]⟩")
        return self

    def render(self):
        arg = self.params[1][0]
        return (f"/-- `{self.qual}` ({self.source}:{self.node.lineno}) -/\n"
                f"def {self.lean_name} (self : List (Parameter α)) ({arg} : String) : Except Py.Exc (Parameter α) :=\n"
                + "\n".join(ind(self.body_text.split("\n"))))


# ------------------------------------------------------------------------------------------------------------------
# driver
# ------------------------------------------------------------------------------------------------------------------
# (source file, class or None, function, Lean name) in dependency order
TARGETS = [
    ("glotaran/parameter/parameter.py", None, "_log_value", "log_value"),
    ("glotaran/parameter/parameter.py", "Parameter", "get_value_and_bounds_for_optimization", "get_value_and_bounds_for_optimization"),
    ("glotaran/parameter/parameter.py", "Parameter", "set_value_from_optimization", "set_value_from_optimization"),
    ("glotaran/parameter/parameter.py", None, "set_transformed_expression", "set_transformed_expression"),
    ("glotaran/parameter/parameters.py", "Parameters", "has", "Parameters_has"),
    ("glotaran/parameter/parameters.py", "Parameters", "get", "Parameters_get"),
    ("glotaran/parameter/parameters.py", "Parameters", "get_label_value_and_bounds_arrays", "get_label_value_and_bounds_arrays"),
    ("glotaran/parameter/parameters.py", "Parameters", "set_from_label_and_value_arrays", "set_from_label_and_value_arrays"),
]
SELF_T = {"Parameter": PARAM, "Parameters": PARAMS, None: None}


LEAN_RESERVED = {
    "attribute", "at", "end", "fun", "have", "show", "then", "let", "do", "match", "open", "namespace", "section", "variable",
    "theorem", "def", "example", "instance", "structure", "where", "deriving", "local", "prefix", "infix", "notation", "macro",
    "syntax", "by", "calc", "using", "mutual", "private", "protected", "universe", "Type", "Sort", "Prop", "this", "suffices",
    "obtain", "exact", "inductive", "abbrev", "axiom", "opaque", "extends", "set_option", "export", "initialize", "unsafe",
    # names the translator itself introduces
    "st", "item", "exc", "e", "obj", "ev", "α",
}


class AvoidReserved(ast.NodeTransformer):
    """Python names that are Lean keywords (or names the translator introduces) get a trailing underscore"""

    def visit_Name(self, n):
        return ast.copy_location(ast.Name(id=n.id + "_", ctx=n.ctx), n) if n.id in LEAN_RESERVED else n

    def visit_arg(self, n):
        if n.arg in LEAN_RESERVED:
            n.arg += "_"
        return n


class RenameToSelf(ast.NodeTransformer):
    """validator-style function `f(parameter: Parameter, ...)` that mutates its first argument: read as a method"""

    def __init__(self, name):
        self.name = name

    def visit_Name(self, n):
        return ast.copy_location(ast.Name(id="self", ctx=n.ctx), n) if n.id == self.name else n

    def visit_arg(self, n):
        if n.arg == self.name:
            n.arg, n.annotation = "self", None
        return n


def find(tree, cls, fn):
    body = tree.body
    if cls is not None:
        c = [n for n in body if isinstance(n, ast.ClassDef) and n.name == cls]
        if len(c) != 1:
            raise Untranslatable(f"class {cls} not found")
        body = c[0].body
    f = [n for n in body if isinstance(n, ast.FunctionDef) and n.name == fn]
    if len(f) != 1:
        raise Untranslatable(f"function {fn} not found (or defined twice)")
    return f[0]


def check_fields(tree):
    """the attributes the translator maps to fields of the model's `Parameter` exist in the class"""
    c = [n for n in tree.body if isinstance(n, ast.ClassDef) and n.name == "Parameter"]
    if len(c) != 1:
        raise Untranslatable("class Parameter not found")
    names = {s.target.id for s in c[0].body if isinstance(s, ast.AnnAssign) and isinstance(s.target, ast.Name)}
    missing = [a for a in PARAM_FIELDS if a not in names]
    if missing:
        raise Untranslatable(f"Parameter has no attribute(s) {missing}")


def translate_all(repo: Path, targets=None):
    trees, texts = {}, {}
    registry: dict = {}
    out = []
    for src, cls, fn, lean_name in (targets or TARGETS):
        qual = f"{cls}.{fn}" if cls else fn
        lineno = 0
        try:
            if src not in trees:
                texts[src] = (repo / src).read_text()
                trees[src] = ast.parse(texts[src])
            if cls == "Parameter" or fn == "_log_value":
                check_fields(trees[src])
            node = find(trees[src], cls, fn)
            lineno = node.lineno
            if node.decorator_list:
                raise Untranslatable("decorated function")
            klass = Getter if (cls, fn) == ("Parameters", "get") else Fn
            if klass is Fn:
                node = AvoidReserved().visit(node)
            self_t = SELF_T[cls]
            if cls is None and node.args.args and node.args.args[0].annotation is not None \
                    and ast.unparse(node.args.args[0].annotation) == "Parameter":
                node = RenameToSelf(node.args.args[0].arg).visit(node)
                self_t = PARAM
            f = klass(fn, lean_name, node, self_t, src, registry)
            f.qual = qual
            f.translate()
            f.render()          # forces every type to be printable
            res = f
        except Untranslatable as e:
            res = Broken(fn, lean_name, qual, src, lineno, str(e))
        except Exception as e:      # a defect of the translator itself must not stop the check either
            res = Broken(fn, lean_name, qual, src, lineno, f"translator error {type(e).__name__}: {e}")
        registry[lean_name] = res
        out.append(res)
    return out, texts


HEADER = """/- GENERATED by harness/props/_c11_gen.py from the source text of VERIF_REPO — do not edit.
   Statement-by-statement transcription of the functions of glotaran/parameter/{parameter,parameters,parameter_history}.py
   that property C11 is about (see the docstring of the generator for the subset and the conventions).
   `generated_eq_model_*` (GlotaranProofs/Props/C11.lean) prove each definition equal to the hand-written model. -/
import GlotaranModel.C11Py
namespace Glotaran.C11.Gen
open Glotaran.C11
set_option linter.unusedVariables false

variable {α : Type}
"""


def render(results) -> str:
    return HEADER + "\n" + "\n\n".join(r.render() for r in results) + "\n\nend Glotaran.C11.Gen\n"


def source_sha1(texts) -> dict:
    return {k: hashlib.sha1(v.encode()).hexdigest() for k, v in sorted(texts.items())}
