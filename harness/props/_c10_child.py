"""C10 helper, run as a subprocess (`python -m harness.props._c10_child`, request as JSON on stdin) with a given
NUMBA_NUM_THREADS: evaluates the objective of builtin schemes at a fixed list of vectors (repeatedly) and optionally
optimises them; prints digests as one JSON line.  Also imported in-process for the same computation."""
from __future__ import annotations

import contextlib
import hashlib
import json
import os
import sys
import warnings


def vectors_of(scheme):
    import numpy as np

    labels, x0, lo, hi = scheme.parameters.copy().get_label_value_and_bounds_arrays(exclude_non_vary=True)
    x0 = np.array(x0, dtype=float)
    out = [x0, x0 * 1.01, x0 * 0.97 + 0.001, x0]
    return labels, [np.minimum(np.maximum(v, lo), hi) for v in out]


def penalties_of(name: str) -> str:
    """digest of the penalty vectors of a fresh optimiser at the fixed vectors"""
    import numpy as np
    from glotaran.optimization.optimizer import Optimizer

    from harness.props import _c10_schemes as builtin

    with warnings.catch_warnings():
        warnings.simplefilter("ignore")
        scheme = builtin.build(name)
        labels, vecs = vectors_of(scheme)
        opt = Optimizer(scheme, verbose=False, raise_exception=True)
        opt._free_parameter_labels = labels
        m = hashlib.sha1()
        for v in vecs:
            m.update(np.ascontiguousarray(opt.objective_function(v), dtype=float).tobytes())
    return m.hexdigest()


def optimize_of(name: str) -> str:
    from glotaran.optimization.optimize import optimize

    from harness.props import _c10_schemes as builtin
    from harness.props.c10 import result_fingerprint

    with warnings.catch_warnings():
        warnings.simplefilter("ignore")
        scheme = builtin.build(name, max_nfev=3)
        with open(os.devnull, "w") as null, contextlib.redirect_stdout(null):
            res = optimize(scheme, verbose=False, raise_exception=True)
    return hashlib.sha1(json.dumps(result_fingerprint(res), sort_keys=True).encode()).hexdigest()


def main():
    req = json.loads(sys.stdin.read())
    import numba

    out = {"numba_threads": int(numba.get_num_threads()), "penalties": {}, "optimize": {}}
    for name in req["names"]:
        out["penalties"][name] = [penalties_of(name) for _ in range(int(req.get("repeat", 1)))]
    for name in req.get("optimize", []):
        out["optimize"][name] = optimize_of(name)
    print(json.dumps(out))


if __name__ == "__main__":
    main()
