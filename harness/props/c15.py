"""C15 — failures during optimisation are contained and reported.

Correspondence: fault injection on the real `glotaran.optimization.optimize.optimize` (a test
megacomplex whose `calculate_matrix` raises / returns non-finite values at its n-th call), the
observed optimiser schedule is fed to the Lean state machine `optimizeSM`, outcomes are diffed:
  * `run`  — control flow: vectors are ids (`ParamOps.plain`);
  * `runp` — values: the scheme's parameters and the observed vectors as exact rationals
    (`paramOps`, C11's parameter model); the model answers with terms over log/exp which are
    evaluated here with numpy doubles and compared with the Result's parameter values, every history
    row and the parameter sets the additional penalties / result data were computed from.
The machine interprets statement tables which `generate` extracts from optimizer.py with `ast`
(order of the effectful statements of __init__, calculate_penalty, objective_function, optimize,
create_result).
Oracle: the statement of C15 evaluated on the same runs from the injection plan alone.
"""
from __future__ import annotations

import contextlib
import hashlib
import io
import json
import re
import sys
import warnings
from pathlib import Path

import numpy as np

from harness import core
from harness.core import bool_, enc, lst, strs

PROP = "C15"
REQUIRED_THEOREMS = [
    "fault_contained_split", "fault_contained_partial", "fault_contained_counterexample",
    "fault_escapes_from_create_result", "fault_at_first", "fault_at_first_injected", "raise_propagates",
    "raise_propagates_lsq", "lsq_failure_contained", "success_reported", "stdout_restored",
    "stdout_is_tee_during_optimisation", "scheme_untouched", "invalid_rejected_before_eval",
    "documented_error_classes", "history_only_successful", "verbose_irrelevant",
    # deepening: exactly which faults are contained (D16 / SVD escape characterised)
    "outcome_classified", "result_iff", "covariance_failure_escapes", "fault_contained_iff", "fault_escape_which",
    # order of effects follows the regenerated statement tables
    "penalties_and_data_of_result_parameters",
    # the restored parameter VALUES (C11's parameter model inside the machine)
    "restored_parameters_are_record_mapped_back", "restored_parameters_roundtrip_bound",
]
TRUSTED = [
    "hand-written model lean/GlotaranModel/C15.lean of Optimizer.__init__/optimize/objective_function/"
    "calculate_penalty/create_result (glotaran/optimization/optimizer.py), optimize() (optimize.py), "
    "TeeContext.__enter__/__exit__ (utils/tee.py), Parameters.set_from_history, ParameterHistory.append — tied "
    "to the code by fault-injection differential execution only",
    "regenerated tables lean/GlotaranModel/Generated/C15.lean: keys of SUPPORTED_METHODS and SUPPORTED_RESIUDAL_FUNCTIONS "
    "read from the imported modules; the effectful statements of Optimizer.__init__/calculate_penalty/"
    "objective_function/optimize/create_result in source order, extracted with Python's ast by this harness (the "
    "extractor classifies statements by the calls they contain; a call on a followed object it cannot explain becomes "
    "`unknown`, which the machine turns into an internal error, so the theorems stop compiling); what ONE statement does "
    "is hand-written in lean/GlotaranModel/C15.lean",
    "C11's parameter model (lean/GlotaranModel/C11.lean: toOpt/fromOpt, arrays, setFromArrays, one update pass) plugged into "
    "the machine by lean/GlotaranModel/C15Params.lean; log/exp are symbolic terms which this harness evaluates with numpy "
    "doubles; expressions are sent as ASTs written next to the scheme definitions of this harness",
    "harness instrumentation: wrappers around Optimizer.objective_function / calculate_penalty / optimize / "
    "create_result, OptimizationGroup.calculate and the name `least_squares` in optimizer.py (observation only)",
]
ASSUMPTIONS = [
    "value model: expressions refer to parameters that are not themselves defined by an expression (one update pass is the "
    "fixed point; C12 covers chains); optimiser vectors are finite (non-finite vectors are outside the value model and the "
    "driver answers `unmodelled`); parameter labels are pairwise different (dictionary keys)",
    "scipy.optimize.least_squares calls the objective a finite number of times and does not catch exceptions of "
    "the objective (the adversary of the model); what it does with non-finite residuals is observed, not proved",
    "the fault-free run is deterministic, so 'the k-th evaluation' denotes the same evaluation in the faulted run",
    "one model evaluation = one sweep `group.calculate(parameters)` over all dataset groups; a fault anywhere in "
    "a sweep (any calculate_matrix call, any group) makes that evaluation raise",
    "the ParameterHistory iteration column and the numeric content of the Result (statistics, covariance) are not "
    "modelled; the result data are checked by recomputing the matrix from the result parameters",
    "scheme snapshot: parameter values/bounds/flags/expressions, model.as_dict(), every dataset's `data` and "
    "coordinates, option fields; with add_svd=True the SVD variables added to the caller's datasets are ignored",
]
RULE = (
    "the injected exception is of one of 15 classes in turn (RuntimeError, ValueError, ZeroDivisionError, KeyError, IndexError, "
    "TypeError, AttributeError, OSError, LinAlgError, glotaran's ParameterNotFoundException, a plugin-defined Exception subclass, ...); "
    "case = (scheme, optimisation method, verbose, raise_exception, fault) where fault = (kind raise | nan | inf | "
    "persistent-raise, global calculate_matrix call number n of the fault-free run); n ranges over the first and the "
    "last calculate_matrix call of EVERY evaluation 1..N of the fault-free run (thorough: every call), N includes "
    "the two evaluations of create_result; plus the fault-free run and every kind of invalid scheme (missing data, "
    "parameters None, unknown method, missing parameter label, unknown residual function, and combinations that "
    "fix the validation order). Every valid case is run through the control-flow machine (`run`, vector ids) and, when all "
    "observed vectors are finite, through the value machine (`runp`: C11 parameter sets over exact rationals; restored / "
    "optimised parameter values, every history row, the parameter sets the additional penalties and the result data were "
    "computed from are compared as doubles). quick: scheme 'one' exhaustively over 3 methods x verbose x raise_exception x all "
    "evaluations, a seeded sample on the other schemes; thorough: all schemes (two dataset groups with different "
    "residual functions, linked datasets, index-dependent + non-negative/fixed/expression parameters). A case is "
    "non-trivial when a fault was actually hit or the scheme is invalid; distinct = distinct case tuples."
)

FAULT_PREFIX = "verif-fault@"
METHODS = ["TrustRegionReflection", "Dogbox", "Levenberg-Marquardt"]
LEAN_GEN = core.LEAN / "GlotaranModel" / "Generated" / "C15.lean"


# ------------------------------------------------------------------------------------------
# regenerated table
# ------------------------------------------------------------------------------------------
def _lean_str(s: str) -> str:
    return '"' + s.replace("\\", "\\\\").replace('"', '\\"') + '"'


# ---- statement tables: the effectful statements of optimizer.py in source order (ast) -----------------
def _u(node) -> str:
    import ast

    return ast.unparse(node)


def _param_ref(node) -> str | None:
    """which Parameters object an expression denotes (ParamRef of C15Types.lean)"""
    t = _u(node)
    return {"self._parameters": ".own", "self._parameters.copy()": ".ownCopy",
            "scheme.parameters": ".scheme", "self._scheme.parameters": ".scheme",
            "scheme.parameters.copy()": ".schemeCopy", "self._scheme.parameters.copy()": ".schemeCopy"}.get(t)


def _unknown(node) -> str:
    return f".unknown {_lean_str(' '.join(_u(node).split())[:120])}"


# calls on the objects the model follows; a call on one of them that no rule explains becomes `unknown`
_TRACKED = re.compile(
    r"^(self\._parameters\.|self\._parameter_history\.(append|get_parameters)|self\._scheme\.parameters\.|"
    r"scheme\.parameters\.|self\.(calculate_penalty|objective_function|calculate_covariance_matrix_and_standard_errors|"
    r"create_result|optimize)$|group\.(calculate|create_result_data|get_additional_penalties)$|least_squares$|warn$|"
    r"Result$|TeeContext$|OptimizationGroup$)")


def _calls_in_order(node):
    """Call nodes below `node` in evaluation order (arguments before the call)"""
    import ast

    out = []

    def visit(n):
        for child in ast.iter_child_nodes(n):
            visit(child)
        if isinstance(n, ast.Call):
            out.append(n)

    visit(node)
    return out


def _raises(stmt) -> str | None:
    import ast

    if isinstance(stmt, ast.Raise) and stmt.exc is not None:
        e = stmt.exc
        return _u(e.func) if isinstance(e, ast.Call) else _u(e)
    return None


def _body(fn):
    import ast

    body = list(fn.body)
    if body and isinstance(body[0], ast.Expr) and isinstance(body[0].value, ast.Constant) and isinstance(body[0].value.value, str):
        body = body[1:]
    return body


def _init_steps(fn) -> list[str]:
    import ast

    steps = []
    for st in _body(fn):
        if isinstance(st, ast.If) and len(st.body) == 1 and _raises(st.body[0]) and not st.orelse:
            exc, test = _raises(st.body[0]), _u(st.test)
            if exc == "MissingDatasetsError" and "missing_datasets" in test:
                steps.append(".checkMissingData")
            elif exc == "ParameterNotInitializedError" and test == "scheme.parameters is None":
                steps.append(".checkParametersNone")
            elif exc == "UnsupportedMethodError" and test == "scheme.optimization_method not in SUPPORTED_METHODS":
                steps.append(".checkMethod")
            else:
                steps.append(_unknown(st))
            continue
        if isinstance(st, (ast.If, ast.For, ast.While, ast.With, ast.Try, ast.Raise, ast.Return)):
            steps.append(_unknown(st))
            continue
        for call in _calls_in_order(st):
            f = _u(call.func)
            if not _TRACKED.match(f):
                continue
            if f == "scheme.parameters.copy" and isinstance(st, ast.Assign) and _u(st.targets[0]) == "self._parameters" \
                    and st.value is call:
                steps.append(".copyParameters")
            elif f == "TeeContext" and isinstance(st, ast.Assign) and _u(st.targets[0]) == "self._tee":
                steps.append(".createTee")
            elif f == "OptimizationGroup" and isinstance(st, ast.Assign) and _u(st.targets[0]) == "self._optimization_groups":
                steps.append(".createGroups")
            elif f == "self._parameter_history.append" and len(call.args) == 1 and _param_ref(call.args[0]):
                steps.append(f".appendHistory {_param_ref(call.args[0])}")
            elif f in ("self._parameters.copy", "scheme.parameters.copy", "self._scheme.parameters.copy") and any(
                    c is not call and call in _calls_in_order(c) for c in _calls_in_order(st)):
                continue            # the `.copy()` inside an argument: part of the ParamRef of the outer call
            else:
                steps.append(_unknown(call))
    return steps


def _penalty_steps(fn) -> list[str]:
    steps = []
    for st in _body(fn):
        for call in _calls_in_order(st):
            f = _u(call.func)
            if not _TRACKED.match(f):
                continue
            if f == "group.calculate" and [_u(a) for a in call.args] == ["self._parameters"]:
                steps.append(".evaluate")
            elif f == "self._parameter_history.append" and call.args and _param_ref(call.args[0]):
                steps.append(f".appendHistory {_param_ref(call.args[0])}")
            elif f.endswith(".copy"):
                continue
            else:
                steps.append(_unknown(call))
    return steps


def _objective_steps(fn) -> list[str]:
    arg = fn.args.args[1].arg if len(fn.args.args) > 1 else "?"
    steps = []
    for st in _body(fn):
        for call in _calls_in_order(st):
            f = _u(call.func)
            if not _TRACKED.match(f):
                continue
            if f == "self._parameters.set_from_label_and_value_arrays" and \
                    [_u(a) for a in call.args] == ["self._free_parameter_labels", arg]:
                steps.append(".setFree")
            elif f == "self.calculate_penalty" and not call.args:
                steps.append(".calculatePenalty")
            else:
                steps.append(_unknown(call))
    return steps


def _optimize_table(fn) -> dict:
    import ast

    body = _body(fn)
    bad = {"start": ".own", "tee": False, "try": [f".unknown {_lean_str('optimize(): unexpected shape')}"], "handler": []}

    def tracked(st):
        return any(_TRACKED.match(_u(c.func)) or _u(c.func).endswith("get_label_value_and_bounds_arrays")
                   for c in _calls_in_order(st)) or "self._termination_reason" in _u(st) or "self._optimization_result" in _u(st)

    # pure statements (e.g. `verbose = 2 if self._verbose else 0`) may stand anywhere
    body = [st for st in body if isinstance(st, (ast.With, ast.Try, ast.If, ast.For, ast.While, ast.Raise, ast.Return))
            or tracked(st)]
    if len(body) != 2 or not isinstance(body[0], ast.Assign) or not isinstance(body[1], ast.With):
        return bad
    v = body[0].value
    if not (isinstance(v, ast.Call) and isinstance(v.func, ast.Attribute) and v.func.attr == "get_label_value_and_bounds_arrays"
            and _param_ref(v.func.value) and [(k.arg, _u(k.value)) for k in v.keywords] == [("exclude_non_vary", "True")]
            and not v.args):
        return bad
    w = body[1]
    if [_u(i.context_expr) for i in w.items] != ["self._tee"] or len(w.body) != 1 or not isinstance(w.body[0], ast.Try):
        return bad
    tr = w.body[0]
    if tr.orelse or tr.finalbody or len(tr.handlers) != 1 or _u(tr.handlers[0].type) != "Exception":
        return bad
    ename = tr.handlers[0].name
    try_steps = []
    for st in tr.body:
        t = _u(st)
        if isinstance(st, ast.Assign) and _u(st.targets[0]) == "self._optimization_result" and isinstance(st.value, ast.Call) \
                and _u(st.value.func) == "least_squares" and st.value.args and _u(st.value.args[0]) == "self.objective_function":
            try_steps.append(".leastSquares")
        elif t == "self._termination_reason = self._optimization_result.message":
            try_steps.append(".setReasonFromResult")
        elif any(_TRACKED.match(_u(c.func)) for c in _calls_in_order(st)) or "self._termination_reason" in t \
                or "self._optimization_result" in t:
            try_steps.append(_unknown(st))
    handler = []
    for st in tr.handlers[0].body:
        t = _u(st)
        if isinstance(st, ast.If) and _u(st.test) == "self._raise" and not st.orelse and len(st.body) == 1 \
                and isinstance(st.body[0], ast.Raise) and (st.body[0].exc is None or _u(st.body[0].exc) == ename):
            handler.append(".reraiseIfRaise")
        elif isinstance(st, ast.Expr) and isinstance(st.value, ast.Call) and _u(st.value.func) == "warn":
            handler.append(".warn")
        elif t == f"self._termination_reason = str({ename})":
            handler.append(".setReasonFromException")
        elif isinstance(st, (ast.Raise, ast.If, ast.Return, ast.Try, ast.With)) or "self._" in t:
            handler.append(_unknown(st))
    return {"start": _param_ref(v.func.value), "tee": True, "try": try_steps, "handler": handler}


_RESULT_ARGS = {
    "parameter_history": ("self._parameter_history", ".bindHistory"),
    "termination_reason": ("self._termination_reason", ".readReason"),
    "number_of_function_evaluations": (
        "self._optimization_result.nfev if success else self._parameter_history.number_of_records", ".readNfev"),
}


def _create_result_steps(fn) -> list[str]:
    import ast

    steps = []
    # the local that holds `self._optimization_result is not None` (whatever it is called)
    succ = next((_u(st.targets[0]) for st in ast.walk(fn) if isinstance(st, ast.Assign) and len(st.targets) == 1
                 and isinstance(st.targets[0], ast.Name) and _u(st.value) == "self._optimization_result is not None"), "success")

    def emit(guard, step):
        steps.append(f"⟨{guard}, {step}⟩")

    def effects(st, guard):
        # entries of the `result_args = {...}` literal, in order
        if isinstance(st, ast.Assign) and isinstance(st.value, ast.Dict) and _u(st.targets[0]) == "result_args":
            for k, v in zip(st.value.keys, st.value.values):
                for call in _calls_in_order(v):
                    if _TRACKED.match(_u(call.func)):
                        emit(guard, _unknown(call))
                key = k.value if isinstance(k, ast.Constant) else None
                if key in _RESULT_ARGS:
                    want, step = _RESULT_ARGS[key]
                    emit(guard, step if _u(v) == want.replace("if success else", f"if {succ} else") else _unknown(v))
            return
        if isinstance(st, ast.Assign) and _u(st.targets[0]) == succ:
            emit(guard, ".readSuccess" if _u(st.value) == "self._optimization_result is not None" else _unknown(st))
            return
        if isinstance(st, ast.Assign) and _u(st.targets[0]) == "result_args['optimized_parameters']":
            emit(guard, ".bindParameters" if _u(st.value) == "self._parameters" else _unknown(st))
            return
        if isinstance(st, ast.Assign) and isinstance(st.targets[0], ast.Subscript) and _u(st.targets[0].value) == "result_args" \
                and isinstance(st.targets[0].slice, ast.Constant) and st.targets[0].slice.value in _RESULT_ARGS:
            emit(guard, _unknown(st))      # one of the followed entries is assigned outside the literal
            return
        for call in _calls_in_order(st):
            f = _u(call.func)
            if not _TRACKED.match(f):
                continue
            args = [_u(a) for a in call.args]
            if f == "self._parameters.set_from_history" and len(args) == 2 and args[0] == "self._parameter_history" \
                    and re.fullmatch(r"-\d+", args[1]):
                emit(guard, f".restore {args[1][1:]}")
            elif f == "self._parameters.set_from_label_and_value_arrays" and \
                    args == ["self._free_parameter_labels", "self._optimization_result.x"]:
                emit(guard, ".setFromResult")
            elif f == "self.calculate_covariance_matrix_and_standard_errors":
                emit(guard, ".covariance")
            elif f == "self.calculate_penalty" and not args:
                emit(guard, ".calculatePenalty")
            elif f == "group.get_additional_penalties":
                emit(guard, ".readAdditionalPenalty")
            elif f == "group.calculate" and args == ["self._parameters"]:
                emit(guard, ".finalCalculate")
            elif f == "group.create_result_data":
                emit(guard, ".createResultData")
            elif f == "Result" and isinstance(st, ast.Return):
                emit(guard, ".construct")
            else:
                emit(guard, _unknown(call))

    def walk(stmts, guard):
        for st in stmts:
            if isinstance(st, ast.If):
                t = _u(st.test)
                if t == "self._parameter_history.number_of_records == 1" and len(st.body) == 1 \
                        and _raises(st.body[0]) == "InitialParameterError":
                    emit(guard, ".checkInitial")
                    walk(st.orelse, guard)
                elif t in (succ, f"not {succ}") and guard == ".always":
                    walk(st.body, ".ifSuccess" if t == succ else ".ifNotSuccess")
                    walk(st.orelse, ".ifNotSuccess" if t == succ else ".ifSuccess")
                else:
                    emit(guard, _unknown(st.test))
            elif isinstance(st, ast.For):
                if _u(st.iter) == "self._optimization_groups" and _u(st.target) == "group" and not st.orelse:
                    for inner in st.body:
                        effects(inner, guard)
                else:
                    emit(guard, _unknown(st))
            elif isinstance(st, (ast.While, ast.With, ast.Try, ast.Raise)):
                emit(guard, _unknown(st))
            else:
                effects(st, guard)

    walk(_body(fn), ".always")
    return steps


def source_tables() -> dict:
    import ast

    core.import_glotaran()
    from glotaran.optimization import optimizer as om

    tree = ast.parse(Path(om.__file__).read_text())
    cls = next(n for n in tree.body if isinstance(n, ast.ClassDef) and n.name == "Optimizer")
    fns = {n.name: n for n in cls.body if isinstance(n, ast.FunctionDef)}
    return {
        "init": _init_steps(fns["__init__"]),
        "penalty": _penalty_steps(fns["calculate_penalty"]),
        "objective": _objective_steps(fns["objective_function"]),
        "optimize": _optimize_table(fns["optimize"]),
        "create_result": _create_result_steps(fns["create_result"]),
    }


def _lean_list(items, indent="  ") -> str:
    if not items:
        return "[]"
    return "[\n" + ",\n".join(indent + x for x in items) + "]"


def generate(ck):
    core.import_glotaran()
    from glotaran.optimization import estimation_provider as ep
    from glotaran.optimization import optimizer as om

    methods = list(om.SUPPORTED_METHODS.keys())
    resid = list(ep.SUPPORTED_RESIUDAL_FUNCTIONS.keys())
    t = source_tables()
    opt = t["optimize"]
    text = (
        "/- GENERATED by harness/props/c15.py from glotaran/optimization/optimizer.py (SUPPORTED_METHODS; the\n"
        "   effectful statements of Optimizer.__init__, calculate_penalty, objective_function, optimize and\n"
        "   create_result in source order, read with `ast`) and glotaran/optimization/estimation_provider.py\n"
        "   (SUPPORTED_RESIUDAL_FUNCTIONS). Do not edit. -/\n"
        "import GlotaranModel.C15Types\n"
        "namespace Glotaran.C15.Generated\n"
        "open Glotaran.C15\n\n"
        "/-- keys of `SUPPORTED_METHODS`, in source order -/\n"
        f"def supportedMethods : List String := [{', '.join(map(_lean_str, methods))}]\n\n"
        "/-- keys of `SUPPORTED_RESIUDAL_FUNCTIONS`, in source order -/\n"
        f"def supportedResidualFunctions : List String := [{', '.join(map(_lean_str, resid))}]\n\n"
        "/-- `Optimizer.__init__` -/\n"
        f"def initSteps : List InitStep := {_lean_list(t['init'])}\n\n"
        "/-- `Optimizer.calculate_penalty` -/\n"
        f"def penaltySteps : List PenaltyStep := {_lean_list(t['penalty'])}\n\n"
        "/-- `Optimizer.objective_function` -/\n"
        f"def objectiveSteps : List ObjectiveStep := {_lean_list(t['objective'])}\n\n"
        "/-- `Optimizer.optimize` -/\n"
        "def optimizeTable : OptimizeTable :=\n"
        f"  {{ startVector := {opt['start']},\n"
        f"    teeWrapsTry := {'true' if opt['tee'] else 'false'},\n"
        f"    tryBody := {_lean_list(opt['try'], '      ')},\n"
        f"    handler := {_lean_list(opt['handler'], '      ')} }}\n\n"
        "/-- `Optimizer.create_result` -/\n"
        f"def createResultSteps : List GStep := {_lean_list(t['create_result'])}\n\n"
        "end Glotaran.C15.Generated\n"
    )
    if not LEAN_GEN.exists() or LEAN_GEN.read_text() != text:
        LEAN_GEN.parent.mkdir(parents=True, exist_ok=True)
        LEAN_GEN.write_text(text)
    return [{"table": "Consts(C15): SUPPORTED_METHODS keys, SUPPORTED_RESIUDAL_FUNCTIONS keys",
             "source": "glotaran/optimization/optimizer.py, glotaran/optimization/estimation_provider.py",
             "sha1": hashlib.sha1((repr(methods) + repr(resid)).encode()).hexdigest()},
            {"table": "Statements(C15): effectful statements of Optimizer.__init__ / calculate_penalty / objective_function / "
                      "optimize / create_result in source order",
             "source": "glotaran/optimization/optimizer.py (ast)",
             "sha1": hashlib.sha1(json.dumps(t, sort_keys=True).encode()).hexdigest()}]


# ------------------------------------------------------------------------------------------
# the fault-injecting megacomplex and the schemes
# ------------------------------------------------------------------------------------------
class PluginDefinedError(Exception):
    """an exception class of its own, as a megacomplex plugin may define one (derives from Exception directly)"""


def _exc_classes():
    from glotaran.parameter.parameters import ParameterNotFoundException
    return {"RuntimeError": RuntimeError, "ValueError": ValueError, "ZeroDivisionError": ZeroDivisionError,
            "FloatingPointError": FloatingPointError, "KeyError": KeyError, "IndexError": IndexError, "TypeError": TypeError,
            "AttributeError": AttributeError, "NotImplementedError": NotImplementedError, "OSError": OSError,
            "AssertionError": AssertionError, "StopIteration": StopIteration, "LinAlgError": np.linalg.LinAlgError,
            "ParameterNotFoundException": ParameterNotFoundException, "PluginDefinedError": PluginDefinedError}


def fault_text(fault, n) -> str:
    """str() of the exception injected at call n (KeyError quotes its argument, ParameterNotFoundException adds a prefix)"""
    return str(EXC_CLASSES[fault.get("exc", "RuntimeError")](f"{FAULT_PREFIX}{n}"))


EXC_CLASSES = _exc_classes()
EXC_NAMES = sorted(EXC_CLASSES)


class Injector:
    """global state of the test megacomplex: counts calculate_matrix calls and injects the fault"""

    def __init__(self):
        self.reset(None)

    def reset(self, fault):
        self.n = 0                 # calculate_matrix calls so far
        self.fault = fault         # None | {"kind":…, "at": n}
        self.hit = 0
        self.exc = None            # the first exception object raised (identity is checked by the oracle)
        self.call_sweep = []       # sweep index (1-based) of every calculate_matrix call
        self.trace = None          # the running Trace (set by `instrumented`)

    def on_call(self, shape_like):
        self.n += 1
        self.call_sweep.append(self.trace.sweeps if self.trace is not None else 0)
        f = self.fault
        if f is None:
            return None
        hit = (self.n >= f["at"]) if f["kind"] == "persistent" else (self.n == f["at"])
        if not hit:
            return None
        self.hit += 1
        if f["kind"] in ("raise", "persistent"):
            e = EXC_CLASSES[f.get("exc", "RuntimeError")](f"{FAULT_PREFIX}{self.n}")
            if self.exc is None:
                self.exc = e
            raise e
        return float("nan") if f["kind"] == "nan" else float("inf")


INJ = Injector()
_MODEL_CLS = None


def model_class():
    global _MODEL_CLS
    if _MODEL_CLS is None:
        from harness.props import _c15_models as c15_models

        c15_models.INJECTOR = INJ
        _MODEL_CLS = c15_models.FaultModel
    return _MODEL_CLS


def _dataset(t, g, rates, amps):
    import xarray as xr

    a = np.exp(np.outer(t, -np.asarray(rates)))
    return xr.DataArray(a @ np.asarray(amps, dtype=float).T, coords=[("model", t), ("global", g)]).to_dataset(name="data")


SCHEMES = ["one", "two-groups", "linked", "indexdep-nonneg", "one-long", "unlinked-weighted", "stale-expr"]

#: the expressions used by the schemes, as the AST the value model evaluates (C11 `Ast`: ref | c | add | mul)
SCHEME_EXPRS = {
    "2 * $k.2 + 0.004": ["add", ["mul", ["c", 2.0], ["ref", "k.2"]], ["c", 0.004]],
    "$k.1 * 0.5": ["mul", ["ref", "k.1"], ["c", 0.5]],
}


def build_scheme(name: str, method: str):
    """a fresh scheme (fresh model, parameters, data) — nothing is shared between runs"""
    from glotaran.parameter import Parameters
    from glotaran.project import Scheme

    M = model_class()
    t = np.arange(0, 30, 1.5)
    max_nfev = 5
    if name == "one-long":
        name, max_nfev = "one", 9
    if name == "one":
        model = M(**{"megacomplex": {"m1": {"type": "verif-c15-fault-mc", "is_index_dependent": False}},
                     "dataset": {"d1": {"megacomplex": ["m1"], "kinetic": ["1", "2"]}}})
        data = {"d1": _dataset(t, np.array([1.0, 2.0, 3.0]), [0.11, 0.022], [[1, 2], [3, 1], [0.5, 2]])}
        params = Parameters.from_list([0.1, 0.02])
        kw = {"add_svd": False}
    elif name == "two-groups":
        model = M(**{"dataset_groups": {"g1": {}, "g2": {"residual_function": "non_negative_least_squares"}},
                     "megacomplex": {"m1": {"type": "verif-c15-fault-mc", "is_index_dependent": False}},
                     "dataset": {"d1": {"group": "g1", "megacomplex": ["m1"], "kinetic": ["1"]},
                                 "d2": {"group": "g2", "megacomplex": ["m1"], "kinetic": ["1", "2"]}}})
        data = {"d1": _dataset(t, np.array([1.0, 2.0]), [0.11], [[1.0], [3.0]]),
                "d2": _dataset(t, np.array([1.0, 2.0]), [0.11, 0.03], [[1, 2], [3, 1]])}
        params = Parameters.from_list([0.1, 0.025])
        kw = {"add_svd": True}
    elif name == "linked":
        model = M(**{"megacomplex": {"m1": {"type": "verif-c15-fault-mc", "is_index_dependent": False}},
                     "dataset": {"d1": {"megacomplex": ["m1"], "kinetic": ["1", "2"]},
                                 "d2": {"megacomplex": ["m1"], "kinetic": ["1", "2"]}}})
        model.dataset_groups["default"].link_clp = True
        data = {"d1": _dataset(t, np.array([1.0, 2.0, 3.0]), [0.11, 0.022], [[1, 2], [3, 1], [0.5, 2]]),
                "d2": _dataset(t[:14], np.array([1.0, 2.0, 4.0]), [0.11, 0.022], [[1, 2], [3, 1], [2, 2]])}
        params = Parameters.from_list([0.1, 0.02])
        kw = {"add_svd": False, "clp_link_tolerance": 0.1}
    elif name == "indexdep-nonneg":
        model = M(**{"megacomplex": {"m1": {"type": "verif-c15-fault-mc", "is_index_dependent": True}},
                     "dataset": {"d1": {"megacomplex": ["m1"], "kinetic": ["k.1", "k.2", "k.3"]}}})
        data = {"d1": _dataset(t, np.array([1.0, 2.0, 3.0, 4.0]), [0.11, 0.022, 0.044],
                               [[1, 2, 0], [3, 1, 1], [0.5, 2, 1], [1, 1, 3]])}
        params = Parameters.from_dict({"k": [["1", 0.1, {"non-negative": True, "min": 0.001, "max": 2.0}],
                                             ["2", 0.02, {"min": 0.0, "max": 1.0}],
                                             ["3", 0.044, {"expr": "2 * $k.2 + 0.004"}]],
                                       "fixed": [["1", 5.0, {"vary": False}]]})
        kw = {"add_svd": False}
    elif name == "stale-expr":
        # non-negative free + fixed parameters, a parameter at the guard value 1 of `_log_value`, and an expression
        # parameter whose stored value is STALE when optimize() is called (a free value was changed after construction)
        model = M(**{"megacomplex": {"m1": {"type": "verif-c15-fault-mc", "is_index_dependent": False}},
                     "dataset": {"d1": {"megacomplex": ["m1"], "kinetic": ["k.1", "k.2", "k.3"]}}})
        data = {"d1": _dataset(t, np.array([1.0, 2.0, 3.0, 4.0]), [0.11, 0.022, 0.055],
                               [[1, 2, 0], [3, 1, 1], [0.5, 2, 1], [1, 1, 3]])}
        params = Parameters.from_dict({"k": [["1", 0.1, {"non-negative": True}],
                                             ["2", 0.02, {"min": 0.0, "max": 1.0}],
                                             ["3", 0.05, {"expr": "$k.1 * 0.5"}]],
                                       "one": [["1", 1.0, {"vary": False, "non-negative": True}]],
                                       "fixed": [["1", 5.0, {"vary": False, "non-negative": True}]]})
        params.get("k.1").value = 0.12       # k.3 keeps the value computed from 0.1
        kw = {"add_svd": False}
    elif name == "unlinked-weighted":
        import xarray as xr

        model = M(**{"megacomplex": {"m1": {"type": "verif-c15-fault-mc", "is_index_dependent": False}},
                     "dataset": {"d1": {"megacomplex": ["m1"], "kinetic": ["1", "2"]},
                                 "d2": {"megacomplex": ["m1"], "kinetic": ["2"], "scale": "3"}}})
        model.dataset_groups["default"].link_clp = False
        data = {"d1": _dataset(t, np.array([1.0, 2.0]), [0.11, 0.022], [[1, 2], [3, 1]]),
                "d2": _dataset(t[:12], np.array([5.0, 6.0, 7.0]), [0.022], [[1.0], [3.0], [2.0]])}
        data["d1"]["weight"] = xr.DataArray(np.full(data["d1"].data.shape, 0.5), coords=data["d1"].data.coords)
        params = Parameters.from_list([0.1, 0.02, [1.5, {"vary": False}]])
        kw = {"add_svd": True}
    else:
        raise core.HarnessError(f"unknown scheme {name}")
    return Scheme(model=model, parameters=params, data=data, maximum_number_function_evaluations=max_nfev,
                  optimization_method=method, **kw)


INVALID_KINDS = [
    "missing-data", "missing-data-all", "parameters-none", "unknown-method", "unknown-residual-function",
    "missing-label", "missing-data+parameters-none+unknown-method", "parameters-none+unknown-method",
    "unknown-method+unknown-residual-function", "missing-label+unknown-residual-function",
    "unknown-method+missing-label", "second-group-residual-function", "first-group-residual+second-group-label",
    "empty-method",
]


def break_scheme(kind: str):
    """returns (scheme, model-side description of the scheme)"""
    from glotaran.parameter import Parameters

    two = kind.startswith(("second-group", "first-group", "missing-data-all"))
    scheme = build_scheme("two-groups" if two else "one", "TrustRegionReflection")
    desc = describe_scheme(scheme)
    for part in kind.split("+"):
        if part == "missing-data":
            del scheme.data["d1"]
            desc["missing"] = ["d1"]
        elif part == "missing-data-all":
            scheme.data.clear()
            desc["missing"] = ["d1", "d2"]
        elif part == "parameters-none":
            scheme.parameters = None
            desc["params"] = False
        elif part == "unknown-method":
            scheme.optimization_method = "Nelder-Mead"
            desc["method"] = "Nelder-Mead"
        elif part == "empty-method":
            scheme.optimization_method = ""
            desc["method"] = ""
        elif part == "unknown-residual-function":
            scheme.model.dataset_groups["default"].residual_function = "least squares?"
            desc["groups"][0][1] = "least squares?"
        elif part == "missing-label":
            scheme.parameters = Parameters.from_list([0.1])
            desc["groups"][0][0] = "2"
        elif part == "second-group-residual-function":
            scheme.model.dataset_groups["g2"].residual_function = "nnls"
            desc["groups"][1][1] = "nnls"
        elif part == "first-group-residual":
            scheme.model.dataset_groups["g1"].residual_function = "vp"
            desc["groups"][0][1] = "vp"
        elif part == "second-group-label":
            scheme.parameters = Parameters.from_list([0.1])
            desc["groups"][1][0] = "2"
        else:
            raise core.HarnessError(kind)
    return scheme, desc


def describe_scheme(scheme):
    """dataset groups in the order `Model.get_dataset_groups` creates them (first appearance in model.dataset)"""
    order = []
    for d in scheme.model.dataset.values():
        if d.group not in order:
            order.append(d.group)
    groups = [[None, scheme.model.dataset_groups[g].residual_function] for g in order]
    return {"missing": [], "params": True, "method": scheme.optimization_method, "groups": groups}


# ------------------------------------------------------------------------------------------
# snapshot of the caller's scheme
# ------------------------------------------------------------------------------------------
def snapshot(scheme):
    snap = {}
    if scheme.parameters is None:
        snap["parameters"] = None
    else:
        snap["parameters"] = [
            (p.label, repr(float(p.value)), repr(float(p.minimum)), repr(float(p.maximum)), bool(p.vary),
             bool(p.non_negative), p.expression, repr(p.standard_error))
            for p in scheme.parameters.all()
        ]
    snap["model"] = json.dumps(scheme.model.as_dict(), sort_keys=True, default=repr)
    snap["data"] = {}
    for label, ds in scheme.data.items():
        entry = {"data": hashlib.sha1(np.ascontiguousarray(ds.data.values).tobytes()).hexdigest(),
                 "dims": tuple(ds.data.dims),
                 "coords": {c: hashlib.sha1(np.ascontiguousarray(ds.coords[c].values).tobytes()).hexdigest()
                            for c in ds.data.dims}}
        if not scheme.add_svd:
            entry["variables"] = sorted(map(str, ds.data_vars))
            entry["attrs"] = sorted(map(str, ds.attrs))
        snap["data"][label] = entry
    snap["options"] = (scheme.optimization_method, scheme.maximum_number_function_evaluations, scheme.add_svd,
                       scheme.ftol, scheme.gtol, scheme.xtol, scheme.clp_link_tolerance, scheme.clp_link_method)
    return snap


def snapshot_diff(a, b):
    return [k for k in a if a[k] != b.get(k)]


# ------------------------------------------------------------------------------------------
# instrumentation (observation only) and one run of the real code
# ------------------------------------------------------------------------------------------
class Trace:
    def __init__(self):
        self.phase = "init"
        self.obj = []            # objective calls: {"x": bytes, "ok": bool, "msg": str}
        self.lsq = None          # ("ret", xbytes, nfev, message) | ("raise", msg) | ("objective-fault",)
        self.penalty = None      # create_result's calculate_penalty: None (not reached) | "ok" | msg
        self.final = None        # create_result's final loop:        None | "ok" | msg
        self.cov = None          # calculate_covariance_matrix_and_standard_errors raised: msg
        self.data = None         # create_result_data / Result(...) raised after the final evaluation: msg
        self.sweeps = 0          # evaluations started
        self.in_obj = 0
        self.in_penalty = 0
        self.ok_rows = []        # history rows appended by evaluations that returned (bytes)
        self.rows_before_failure = None
        self.tee_seen = True     # sys.stdout was the optimizer's tee during every objective call
        self.last_obj_exc = None
        self.last_calc = None    # values of all parameters (bytes) at the last group.calculate that returned
        self.penalty_of = None   # ... at the time create_result read the additional penalties
        self.data_of = None      # ... the final evaluation of create_result was performed with


@contextlib.contextmanager
def instrumented(trace: Trace):
    from glotaran.optimization import optimizer as om
    from glotaran.optimization.optimization_group import OptimizationGroup
    from glotaran.utils.tee import TeeContext

    Opt = om.Optimizer
    saved = (Opt.objective_function, Opt.calculate_penalty, Opt.optimize, Opt.create_result,
             OptimizationGroup.calculate, om.least_squares, Opt.calculate_covariance_matrix_and_standard_errors,
             OptimizationGroup.get_additional_penalties)
    o_obj, o_pen, o_opt, o_res, o_calc, o_lsq, o_cov, o_add = saved

    def get_additional_penalties(self):
        if trace.phase == "create_result" and not trace.in_penalty:
            trace.penalty_of = trace.last_calc
        return o_add(self)

    def covariance(self, *a, **kw):
        try:
            return o_cov(self, *a, **kw)
        except BaseException as e:
            trace.cov = str(e)
            raise

    def objective_function(self, x):
        rec = {"x": np.array(x, dtype=float).tobytes(), "ok": None, "msg": None}
        trace.obj.append(rec)
        trace.in_obj += 1
        if not isinstance(sys.stdout, TeeContext):
            trace.tee_seen = False
        try:
            r = o_obj(self, x)
        except BaseException as e:
            rec["ok"], rec["msg"] = False, str(e)
            trace.last_obj_exc = e
            raise
        finally:
            trace.in_obj -= 1
        rec["ok"] = True
        return r

    def calculate_penalty(self):
        trace.sweeps += 1
        outer = not trace.in_obj
        trace.in_penalty += 1
        try:
            r = o_pen(self)
        except BaseException as e:
            if outer:
                trace.penalty = str(e)
            raise
        finally:
            trace.in_penalty -= 1
        if outer:
            trace.penalty = "ok"
        trace.ok_rows.append(np.array(self._parameter_history.get_parameters(-1)[1:], dtype=float).tobytes())
        return r

    def calculate(self, parameters):
        outer = not trace.in_penalty
        if outer and trace.final is None:
            trace.sweeps += 1
            trace.final = "ok"
        try:
            r = o_calc(self, parameters)
        except BaseException as e:
            if outer:
                trace.final = str(e)
            raise
        trace.last_calc = (values_of(parameters), free_vector_of(parameters))
        if outer:
            trace.data_of = trace.last_calc
        return r

    def least_squares(fun, x0, *a, **kw):
        try:
            r = o_lsq(fun, x0, *a, **kw)
        except BaseException as e:
            trace.lsq = ("objective-fault",) if e is trace.last_obj_exc else ("raise", str(e))
            raise
        trace.lsq = ("ret", np.array(r.x, dtype=float).tobytes(), int(r.nfev), str(r.message))
        return r

    def optimize(self):
        trace.phase = "optimize"
        try:
            return o_opt(self)
        finally:
            trace.rows_before_failure = [np.array(r[1:], dtype=float).tobytes()
                                         for r in self._parameter_history.parameters]

    def create_result(self):
        trace.phase = "create_result"
        try:
            return o_res(self)
        except BaseException as e:
            # neither an evaluation nor the covariance: the result-data construction after the final evaluation
            if trace.final == "ok" and trace.cov is None:
                trace.data = str(e)
            raise

    Opt.objective_function, Opt.calculate_penalty, Opt.optimize, Opt.create_result = (
        objective_function, calculate_penalty, optimize, create_result)
    OptimizationGroup.calculate = calculate
    om.least_squares = least_squares
    Opt.calculate_covariance_matrix_and_standard_errors = covariance
    OptimizationGroup.get_additional_penalties = get_additional_penalties
    try:
        yield
    finally:
        (Opt.objective_function, Opt.calculate_penalty, Opt.optimize, Opt.create_result,
         OptimizationGroup.calculate, om.least_squares, Opt.calculate_covariance_matrix_and_standard_errors,
         OptimizationGroup.get_additional_penalties) = saved


def values_of(parameters) -> bytes:
    """the values of all parameters, in declaration order (no array is read: nothing is refreshed)"""
    return np.array([float(p.value) for p in parameters.all()], dtype=float).tobytes()


def free_vector_of(parameters) -> bytes:
    """the optimiser-space values of the varying parameters, read parameter by parameter (nothing is refreshed)"""
    return np.array([float(p.get_value_and_bounds_for_optimization()[0]) for p in parameters.all() if p.vary],
                    dtype=float).tobytes()


def param_desc(parameters):
    """[(label, value, min, max, non_negative, vary, expression)] without touching the object"""
    if parameters is None:
        return None
    return [(p.label, float(p.value), float(p.minimum), float(p.maximum), bool(p.non_negative), bool(p.vary), p.expression)
            for p in parameters.all()]


class Obs:
    """everything observed in one run of the real code"""


@contextlib.contextmanager
def quiet_fd2(on: bool):
    """LAPACK reports non-finite input on file descriptor 2 (`On entry to DLASCL ...`): keep the log readable"""
    if not on:
        yield
        return
    import ctypes
    import os

    libc = ctypes.CDLL(None)
    sys.stderr.flush()
    sys.__stdout__.flush()
    libc.fflush(None)
    keep = [(fd, os.dup(fd)) for fd in (1, 2)]
    null = os.open(os.devnull, os.O_WRONLY)
    try:
        for fd, _ in keep:
            os.dup2(null, fd)
        yield
    finally:
        libc.fflush(None)          # the Fortran/C runtime buffers its messages
        for fd, saved in keep:
            os.dup2(saved, fd)
            os.close(saved)
        os.close(null)


def execute(case, scheme=None, desc=None) -> Obs:
    from glotaran.optimization.optimize import optimize

    if scheme is None:
        scheme = build_scheme(case["scheme"], case["method"])
        desc = describe_scheme(scheme)
    o = Obs()
    o.case, o.desc, o.scheme = case, desc, scheme
    o.trace = Trace()
    o.x0 = None
    if scheme.parameters is not None:
        with contextlib.suppress(Exception):
            o.x0 = np.array(scheme.parameters.copy().get_label_value_and_bounds_arrays(exclude_non_vary=True)[1],
                            dtype=float).tobytes()
    before = snapshot(scheme)
    o.pdesc = param_desc(scheme.parameters)
    INJ.reset(case.get("fault"))
    INJ.trace = o.trace
    mine = io.StringIO()
    outer_stdout = sys.stdout
    o.result = o.exc = None
    quiet = case.get("fault") is not None and case["fault"]["kind"] in ("nan", "inf")
    try:
        sys.stdout = mine
        with quiet_fd2(quiet), warnings.catch_warnings(record=True) as w:
            warnings.simplefilter("always")
            with instrumented(o.trace):
                try:
                    o.result = optimize(scheme, verbose=case["verbose"], raise_exception=case["raise"])
                except Exception as e:      # noqa: BLE001 — every escaping exception is an observation
                    o.exc = e
            o.stdout_restored = sys.stdout is mine
    finally:
        sys.stdout = outer_stdout
        INJ.trace = None
    o.warnings = [str(x.message) for x in w if issubclass(x.category, UserWarning)
                  and str(x.message).startswith("Optimization failed")]
    o.printed = mine.getvalue()
    o.snapshot_diff = snapshot_diff(before, snapshot(scheme))
    o.matrix_calls = INJ.n
    o.call_sweep = list(INJ.call_sweep)
    o.fault_hit = INJ.hit
    o.fault_exc = INJ.exc
    return o


# ------------------------------------------------------------------------------------------
# protocol: observation -> model line, observation -> canonical answer
# ------------------------------------------------------------------------------------------
def _opt(msg):
    return "[]" if msg is None else "[" + enc(msg) + "]"


class Ids:
    def __init__(self, x0):
        self.ids = {}
        self.vecs = []
        if x0 is not None:
            self.get(x0)

    def get(self, b: bytes) -> int:
        if b not in self.ids:
            self.ids[b] = len(self.vecs)
            self.vecs.append(b)
        return self.ids[b]


def schedule_of(o: Obs, ids: Ids):
    """the schedule the real run exhibited (dict), from the instrumentation only"""
    t = o.trace
    calls = [[ids.get(c["x"]), None if c["ok"] else c["msg"]] for c in t.obj]
    if t.lsq is None or t.lsq[0] == "objective-fault":
        fin = ["ret", 0, 0, "unreached"]
    elif t.lsq[0] == "ret":
        fin = ["ret", ids.get(t.lsq[1]), t.lsq[2], t.lsq[3]]
    else:
        fin = ["raise", t.lsq[1]]
    pen = None if t.penalty in (None, "ok") else t.penalty
    final = None if t.final in (None, "ok") else t.final
    return {"calls": calls, "finish": fin, "penalty": pen, "final": final, "cov": t.cov, "data": t.data}


def planned_schedule(free: Obs, ids: Ids, fault):
    """the schedule predicted from the fault-free run and the injection plan alone (mirror of Lean `inject`):
    the evaluation k that contains calculate_matrix call `at` raises; `persistent`: so does every later
    calculate_matrix call (its number is part of the message)"""
    base = schedule_of(free, ids)
    at = fault["at"]
    k = free.call_sweep[at - 1]
    n_obj = len(base["calls"])
    msg = fault_text(fault, at)
    calls = [[x, msg if i + 1 == k else None] for i, (x, _) in enumerate(base["calls"])]
    sched = {"calls": calls, "finish": base["finish"],
             "penalty": msg if k == n_obj + 1 else None, "final": msg if k == n_obj + 2 else None}
    if fault["kind"] == "persistent" and k <= n_obj:
        # least_squares fails at call `at`; the re-evaluation of create_result is calculate_matrix call at+1
        sched["penalty"] = fault_text(fault, at + 1)
    return sched


def finish_tok(fin):
    if fin[0] == "ret":
        return lst(["ret", str(fin[1]), str(fin[2]), enc(fin[3])])
    return lst(["raise", enc(fin[1])])


def model_line(case, desc, sched, stdout_id=7):
    groups = lst(lst([_opt(g[0]), enc(g[1])]) for g in desc["groups"])
    calls = lst(lst([str(x), _opt(f)]) for x, f in sched["calls"])
    return " ".join([
        "run", str(stdout_id), bool_(case["verbose"]), bool_(case["raise"]), strs(desc["missing"]),
        "[0]" if desc["params"] else "[]", enc(desc["method"]), groups, calls, finish_tok(sched["finish"]),
        _opt(sched["penalty"]), _opt(sched["final"]), _opt(sched.get("cov")), _opt(sched.get("data")),
    ])


_ERR_PAYLOAD = {
    "MissingDatasetsError": r"Missing data for datasets: \[(.*)\]$",
    "UnsupportedMethodError": r"Unsupported optimization method (.*?)\. Supported methods are",
    "ParameterNotFoundException": r"Cannot find parameter (.*)$",
    "UnsupportedResidualFunctionError": r"Unknown residual function '(.*)', supported functions are",
}


def canonical_exception(o: Obs):
    e = o.exc
    name = type(e).__name__
    t = o.trace
    if name in ("ParameterNotInitializedError", "InitialParameterError"):
        return f"exc {name} ~"
    if name in _ERR_PAYLOAD and t.phase == "init":
        m = re.search(_ERR_PAYLOAD[name], str(e), re.S)
        payload = m.group(1) if m else "?"
        if name == "MissingDatasetsError":
            labels = [x.strip().strip("'") for x in payload.split(",")] if payload else []
            return f"exc {name} {strs(labels)}"
        return f"exc {name} {enc(payload)}"
    if t.phase == "init":
        return f"exc other-init-error {enc(name + ': ' + str(e))}"
    return f"exc raised {enc(str(e))}"


def row_of_parameters(parameters):
    return np.array(parameters.get_label_value_and_bounds_arrays()[1], dtype=float).tobytes()


def canonical(o: Obs, ids: Ids, stdout_id=7):
    """implementation answer in the format of the Lean driver's `showRun`"""
    t = o.trace
    if o.exc is not None:
        head = canonical_exception(o)
    else:
        r = o.result
        hist = r.parameter_history
        rows = [np.array(row[1:], dtype=float).tobytes() for row in hist.parameters]
        res_row = row_of_parameters(r.optimized_parameters)
        free = np.array(r.optimized_parameters.get_label_value_and_bounds_arrays(exclude_non_vary=True)[1], dtype=float)
        # which vector id: the id whose vector equals the free parameters of the result
        pid = match_vector(free, ids, o)
        if r.success:
            restored = "none"
        else:
            # the record the model names must be the one the result parameters equal; report the model-independent
            # candidates: indices (before create_result appended its own record) whose row equals the result row
            # (non-negative parameters: exp(log v) is v only up to rounding — rows are compared at 1e-12 there)
            def same_row(a: bytes, b: bytes) -> bool:
                if a == b:
                    return True
                if exact_space(o):
                    return False
                x, y = np.frombuffer(a, dtype=float), np.frombuffer(b, dtype=float)
                return x.shape == y.shape and bool(np.allclose(x, y, rtol=1e-12, atol=0.0))

            cands = [i for i, row in enumerate(t.rows_before_failure or []) if same_row(row, res_row)]
            restored = "|".join(map(str, cands)) if cands else "no-record"
        hist_ids = [match_row(row, i, ids, o) for i, row in enumerate(rows)]
        pen = "none" if t.penalty_of is None else match_vector(np.frombuffer(t.penalty_of[1], dtype=float), ids, o)
        dat = "none" if t.data_of is None else match_vector(np.frombuffer(t.data_of[1], dtype=float), ids, o)
        head = (f"result {bool_(r.success)} {enc(str(r.termination_reason))} {pid} {restored} "
                f"{int(r.number_of_function_evaluations)} {core.lst(map(str, hist_ids))} {pen} {dat}")
    ok = []
    for c in t.obj:
        if c["ok"]:
            ok.append(ids.get(c["x"]))
    return head, {
        "evals": t.sweeps, "stdout": f"user:{stdout_id}" if o.stdout_restored else "not-restored",
        "warnings": strs(o.warnings), "scheme": bool_(not o.snapshot_diff), "ok_obj": ok,
    }


def free_columns(o: Obs):
    """positions of the free parameters inside a history row"""
    p = o.scheme.parameters
    labels = [x.label for x in p.all()]
    free = [x.label for x in p.all() if x.vary]
    return [labels.index(l) for l in free]


def exact_space(o: Obs) -> bool:
    return not any(p.non_negative for p in o.scheme.parameters.all())


def match_vector(vec, ids: Ids, o: Obs):
    b = np.array(vec, dtype=float).tobytes()
    if b in ids.ids:
        return ids.ids[b]
    if not exact_space(o):
        for i, vb in enumerate(ids.vecs):
            v = np.frombuffer(vb, dtype=float)
            if v.shape == np.shape(vec) and np.allclose(v, vec, rtol=1e-12, atol=0):
                return i
    return "unknown-vector"


def match_row(row_bytes, index, ids: Ids, o: Obs):
    row = np.frombuffer(row_bytes, dtype=float)
    cols = free_columns(o)
    return match_vector(row[cols], ids, o)


def parse_model_answer(ans: str):
    head, _, tail = ans.partition(" | ")
    kv = dict(x.split("=", 1) for x in tail.split(" "))
    return head, kv


def compare_one(ck, o: Obs, ids: Ids, ans: str, tag: str, payload):
    """diff one run with the model's answer; returns True when they agree"""
    head_i, extra = canonical(o, ids)
    if ans in ("bad-op", "bad-line"):
        raise core.HarnessError(f"model rejected the line for {payload}: {ans}")
    head_m, kv = parse_model_answer(ans)
    diffs = []
    hi, hm = head_i.split(" "), head_m.split(" ")
    if hi[0] != hm[0]:
        diffs.append(f"outcome: implementation {head_i!r}, model {head_m!r}")
    elif hi[0] == "exc":
        if hi != hm:
            diffs.append(f"exception: implementation {head_i!r}, model {head_m!r}")
    else:
        names = ["", "success", "termination_reason", "parameters(vector id)", "restored history record",
                 "number_of_function_evaluations", "parameter_history(vector ids)",
                 "parameters the additional penalties were read for (vector id)",
                 "parameters the result data were computed from (vector id)"]
        for j in range(1, 9):
            a, b = hi[j], hm[j]
            if j == 4 and a != b:
                if b != "none" and b in a.split("|"):
                    continue
            if a != b:
                diffs.append(f"{names[j]}: implementation {core.dec(a) if j == 2 else a!r}, model "
                             f"{core.dec(b) if j == 2 else b!r}")
    if extra["stdout"] != kv["stdout"]:
        diffs.append(f"sys.stdout: implementation {extra['stdout']}, model {kv['stdout']}")
    if extra["warnings"] != kv["warnings"]:
        diffs.append(f"warnings: implementation {extra['warnings']}, model {kv['warnings']}")
    if extra["scheme"] != kv["scheme"]:
        diffs.append(f"scheme untouched: implementation {extra['scheme']} ({o.snapshot_diff}), model {kv['scheme']}")
    if str(extra["evals"]) != kv["evals"]:
        diffs.append(f"number of model evaluations: implementation {extra['evals']}, model {kv['evals']}")
    for d in diffs[:1]:
        ck.disagree("model-vs-impl", f"[{tag}] {d}" + (f" (+{len(diffs) - 1} more)" if len(diffs) > 1 else ""), payload)
    return not diffs


# ------------------------------------------------------------------------------------------
# the value machine (`runp`): C11's parameter model inside the state machine
# ------------------------------------------------------------------------------------------
def _ext(x) -> str:
    x = float(x)
    return "nan" if x != x else core.erat(x)


def _vec_tok(b: bytes) -> str:
    return lst(_ext(v) for v in np.frombuffer(b, dtype=float))


def _ast_tok(a) -> str:
    if a[0] == "ref":
        return lst(["ref", enc(a[1])])
    if a[0] == "c":
        return lst(["c", core.rat(a[1])])
    return lst([a[0], _ast_tok(a[1]), _ast_tok(a[2])])


def params_tok(desc) -> str:
    if desc is None:
        return "none"
    return lst(lst([enc(l), _ext(v), _ext(lo), _ext(hi), bool_(nn), bool_(vy), enc(e) if e else "none", "nan"])
               for (l, v, lo, hi, nn, vy, e) in desc)


def table_tok(desc) -> str:
    exprs = sorted({e for (*_, e) in (desc or []) if e})
    for e in exprs:
        if e not in SCHEME_EXPRS:
            raise core.HarnessError(f"no AST for the expression {e!r}")
    return lst(lst([enc(e), _ast_tok(SCHEME_EXPRS[e])]) for e in exprs)


def value_line(o: Obs, stdout_id=7):
    """the observed run as a `runp` line; None when a vector is not finite (outside the value model)"""
    t, case, desc = o.trace, o.case, o.desc
    vecs = [c["x"] for c in t.obj] + ([t.lsq[1]] if t.lsq is not None and t.lsq[0] == "ret" else [])
    if any(not np.all(np.isfinite(np.frombuffer(b, dtype=float))) for b in vecs):
        return None
    if o.pdesc is not None and any(not np.isfinite(v) for (_, v, *_rest) in o.pdesc):
        return None
    calls = lst(lst([_vec_tok(c["x"]), _opt(None if c["ok"] else c["msg"])]) for c in t.obj)
    if t.lsq is None or t.lsq[0] == "objective-fault":
        fin = lst(["ret", "[]", "0", enc("unreached")])
    elif t.lsq[0] == "ret":
        fin = lst(["ret", _vec_tok(t.lsq[1]), str(t.lsq[2]), enc(t.lsq[3])])
    else:
        fin = lst(["raise", enc(t.lsq[1])])
    pen = None if t.penalty in (None, "ok") else t.penalty
    final = None if t.final in (None, "ok") else t.final
    groups = lst(lst([_opt(g[0]), enc(g[1])]) for g in desc["groups"])
    return " ".join([
        "runp", str(stdout_id), bool_(case["verbose"]), bool_(case["raise"]), strs(desc["missing"]),
        params_tok(o.pdesc), table_tok(o.pdesc), enc(desc["method"]), groups, calls, fin,
        _opt(pen), _opt(final), _opt(t.cov), _opt(t.data),
    ])


def term_value(t) -> float:
    """a printed C11 term evaluated with the code's own elementary double operations"""
    if isinstance(t, str):
        if t in ("inf", "-inf", "nan"):
            return float(t)
        fr = core.unrat(t)
        return fr.numerator / fr.denominator
    op, a = t[0], t[1:]
    with np.errstate(all="ignore"):
        if op == "ifeq":
            return term_value(a[2] if term_value(a[0]) == term_value(a[1]) else a[3])
        if op == "iflt":
            return term_value(a[2] if term_value(a[0]) < term_value(a[1]) else a[3])
        v = [np.float64(term_value(x)) for x in a]
        if op == "add":
            return float(v[0] + v[1])
        if op == "sub":
            return float(v[0] - v[1])
        if op == "mul":
            return float(v[0] * v[1])
        if op == "abs":
            return float(np.abs(v[0]))
        if op == "log":
            return float(np.log(v[0]))
        if op == "exp":
            return float(np.exp(v[0]))
    raise core.HarnessError(f"unknown term {t!r}")


VALUE_RTOL = 1e-13


def _close(a: float, b: float) -> bool:
    if a != a or b != b:
        return a != a and b != b
    return a == b or abs(a - b) <= VALUE_RTOL * max(abs(a), abs(b))


def _pset_diff(model_tree, impl_values, labels, what):
    """model: [[label, term], ...]; impl: values in declaration order"""
    if model_tree == "none" or impl_values is None:
        return None if (model_tree == "none") == (impl_values is None) else \
            f"{what}: implementation {'none' if impl_values is None else 'present'}, model {'none' if model_tree == 'none' else 'present'}"
    got = list(np.frombuffer(impl_values, dtype=float)) if isinstance(impl_values, bytes) else list(impl_values)
    if [core.dec(x[0]) for x in model_tree] != list(labels) or len(got) != len(labels):
        return f"{what}: labels differ (model {[core.dec(x[0]) for x in model_tree]}, implementation {list(labels)})"
    for (l, term), g in zip(model_tree, got):
        m = term_value(term)
        if not _close(m, float(g)):
            return f"{what}: parameter {core.dec(l)}: implementation {float(g)!r}, model {m!r} (term {term})"
    return None


def compare_values(ck, o: Obs, ans: str, payload) -> bool:
    """diff the real Result with the value machine's answer (`runp`)"""
    if ans == "unmodelled":
        ck.count("values:unmodelled")
        return True
    if ans in ("bad-op", "bad-line"):
        raise core.HarnessError(f"value model rejected the line for {payload}: {ans}")
    head, kv = parse_model_answer(ans)
    toks = head.split(" ")
    diffs = []
    if o.exc is not None:
        want = canonical_exception(o)
        if head != want:
            diffs.append(f"outcome: implementation {want!r}, model {head!r}")
    elif toks[0] != "result":
        diffs.append(f"outcome: implementation a Result, model {head!r}")
    else:
        r, t = o.result, o.trace
        labels = [p.label for p in r.optimized_parameters.all()]
        if toks[1] != bool_(r.success):
            diffs.append(f"success: implementation {r.success}, model {toks[1]}")
        if toks[2] != enc(str(r.termination_reason)):
            diffs.append(f"termination_reason: implementation {str(r.termination_reason)!r}, model {core.dec(toks[2])!r}")
        if toks[5] != str(int(r.number_of_function_evaluations)):
            diffs.append(f"number_of_function_evaluations: implementation {r.number_of_function_evaluations}, model {toks[5]}")
        d = _pset_diff(core.parse_tree(toks[3])[0], values_of(r.optimized_parameters), labels, "optimized_parameters values")
        if d:
            diffs.append(d)
        rows_m = core.parse_tree(toks[6])[0]
        rows_i = [np.array(row[1:], dtype=float) for row in r.parameter_history.parameters]
        if len(rows_m) != len(rows_i):
            diffs.append(f"parameter_history: implementation {len(rows_i)} records, model {len(rows_m)}")
        else:
            for i, (rm, ri) in enumerate(zip(rows_m, rows_i)):
                if len(rm) != len(ri) or not all(_close(term_value(a), float(b)) for a, b in zip(rm, ri)):
                    diffs.append(f"parameter_history record {i}: implementation {[float(x) for x in ri]}, model "
                                 f"{[term_value(a) for a in rm]}")
                    break
        for tok, impl, what in ((toks[7], t.penalty_of and t.penalty_of[0], "parameters the additional penalties were read for"),
                                (toks[8], t.data_of and t.data_of[0], "parameters the result data were computed from")):
            tree = "none" if tok == "none" else core.parse_tree(tok)[0]
            d = _pset_diff(tree, impl, labels, what)
            if d:
                diffs.append(d)
        if not r.success and toks[4] != "none":
            # the restored record, by value: the row the model names, mapped back, is what the Result holds
            ck.count("values:restored-record-compared")
    stdout = "user:7" if o.stdout_restored else "not-restored"
    if stdout != kv["stdout"]:
        diffs.append(f"sys.stdout: implementation {stdout}, model {kv['stdout']}")
    if strs(o.warnings) != kv["warnings"]:
        diffs.append(f"warnings: implementation {strs(o.warnings)}, model {kv['warnings']}")
    # the caller's scheme in the model: same shape, and every parameter value (a term) still the double it was
    model_same = kv["scheme"] == "T"
    if model_same and o.pdesc is not None:
        tree = core.parse_tree(kv["schemeparams"])[0]
        model_same = tree != "none" and len(tree) == len(o.pdesc) and all(
            core.dec(l) == d[0] and (term_value(term) == d[1] or (term_value(term) != term_value(term) and d[1] != d[1]))
            for (l, term), d in zip(tree, o.pdesc))
    if (not o.snapshot_diff) != model_same:
        diffs.append(f"scheme untouched: implementation {not o.snapshot_diff} ({o.snapshot_diff}), model {model_same}")
    if str(o.trace.sweeps) != kv["evals"]:
        diffs.append(f"number of model evaluations: implementation {o.trace.sweeps}, model {kv['evals']}")
    for d in diffs[:1]:
        ck.disagree("model-vs-impl-values", f"[value machine] {d}" + (f" (+{len(diffs) - 1} more)" if len(diffs) > 1 else ""),
                    payload)
    ck.count("values:compared")
    return not diffs


# ------------------------------------------------------------------------------------------
# oracle: the statement of C15 on the real run, from the injection plan only
# ------------------------------------------------------------------------------------------
def expected_matrix(o: Obs, label):
    """exp(-t ⊗ k) for the dataset's kinetic parameters taken from the RESULT parameters"""
    r = o.result
    dm = o.scheme.model.dataset[label]
    ks = [r.optimized_parameters.get(str(getattr(k, "label", k))).value for k in dm.kinetic]
    t = o.scheme.data[label].coords["model"].values
    return np.exp(np.outer(t, -np.asarray(ks, dtype=float)))


def oracle(ck, o: Obs, free: Obs | None, payload):
    """`free` = the fault-free run of the same configuration (None for invalid schemes)"""
    from glotaran.optimization.optimizer import InitialParameterError

    ck.oracle_evals += 1
    case, t = o.case, o.trace
    fault = case.get("fault")
    if not o.stdout_restored:
        ck.violation("stdout-not-restored", "sys.stdout is not the caller's object after optimize() "
                     f"({'exception' if o.exc is not None else 'result'} exit)", payload)
    if o.snapshot_diff:
        ck.violation("scheme-mutated", f"optimize() changed the caller's scheme: {o.snapshot_diff}", payload)
    if case.get("invalid"):
        want = documented_error(case["invalid"])
        got = type(o.exc).__name__ if o.exc is not None else "no exception"
        if got != want:
            ck.violation("invalid-not-rejected", f"invalid scheme ({case['invalid']}): expected {want}, got {got}", payload)
        if o.matrix_calls or t.sweeps or t.obj:
            ck.violation("evaluated-before-rejection", f"invalid scheme ({case['invalid']}) was evaluated "
                         f"{o.matrix_calls} time(s) before being rejected", payload)
        return
    injected_raise = fault is not None and fault["kind"] in ("raise", "persistent") and o.fault_hit > 0
    if fault is None or o.fault_hit == 0:
        # fault-free: a Result, successful — unless scipy itself refuses the configuration (e.g. 'lm' with
        # bounds raises before the first evaluation); that path is covered by the model comparison only
        if t.lsq is not None and t.lsq[0] == "raise":
            ck.count("fault-free:least_squares-raises-itself")
            return
        if o.exc is not None:
            ck.violation("fault-free-run-raises", f"fault-free optimisation raised {o.exc!r}", payload)
        elif not o.result.success:
            ck.violation("fault-free-run-fails", "fault-free optimisation returned success=False", payload)
        return
    first_sweep = free.call_sweep[fault["at"] - 1]      # evaluation (1-based) that contains the fault
    n_opt = len(free.trace.obj)                          # evaluations 1..n_opt are the optimiser's
    where = "optimiser" if first_sweep <= n_opt else "create-result"
    if injected_raise and case["raise"]:
        # the original exception, unchanged
        if o.exc is None:
            ck.violation("swallowed-despite-raise", "raise_exception=True but optimize() returned a Result", payload)
        elif o.exc is not o.fault_exc:
            ck.violation("exception-changed", f"raise_exception=True: got {o.exc!r} instead of the injected "
                         f"exception object {o.fault_exc!r}", payload)
        return
    if injected_raise:
        msg = str(o.fault_exc)
        if first_sweep == 1:
            if not isinstance(o.exc, InitialParameterError):
                ck.violation("first-evaluation-fault-not-initial-parameter-error",
                             f"fault at the first evaluation: expected InitialParameterError, got "
                             f"{repr(o.exc) if o.exc is not None else 'a Result'}", payload)
            return
        if o.exc is not None:
            if isinstance(o.exc, InitialParameterError):
                ck.violation("initial-parameter-error-unexpected", f"fault at evaluation {first_sweep} ≥ 2 but "
                             "InitialParameterError was raised", payload)
            elif t.phase == "create_result" and any(x not in (None, "ok") for x in (t.penalty, t.final)) and (
                    where == "create-result" or fault["kind"] == "persistent"):
                ck.violation("escape-in-create-result", f"raise_exception=False, fault at evaluation {first_sweep} "
                             f"({where}): {o.exc!r} raised by an evaluation create_result performs escaped instead "
                             "of an unsuccessful Result", payload)
            elif t.phase == "create_result":
                ck.violation("escape-after-contained-fault", f"raise_exception=False, fault at evaluation "
                             f"{first_sweep} ({where}): {o.exc!r} escaped from create_result", payload)
            else:
                ck.violation("escape-in-optimize", f"raise_exception=False, fault at evaluation {first_sweep}: "
                             f"{o.exc!r} escaped from Optimizer.{t.phase}", payload)
            return
        r = o.result
        if r.success:
            ck.violation("fault-reported-as-success", f"fault at evaluation {first_sweep}: Result.success is True", payload)
        if msg not in str(r.termination_reason):
            ck.violation("reason-missing", f"termination_reason {r.termination_reason!r} does not carry the error "
                         f"{msg!r}", payload)
        if not any(msg in x for x in o.warnings):
            ck.violation("no-warning", "no 'Optimization failed' warning carrying the error was issued", payload)
        check_result_consistent(ck, o, payload)
        return
    # non-finite matrices: nothing may escape except InitialParameterError / with raise_exception the original
    if o.exc is not None and not case["raise"]:
        if isinstance(o.exc, InitialParameterError):
            if len(t.rows_before_failure or []) != 1:
                ck.violation("initial-parameter-error-unexpected", "InitialParameterError although an evaluation "
                             "had succeeded", payload)
        else:
            in_eval = any(x not in (None, "ok") for x in (t.penalty, t.final))
            key = ("escape-in-optimize" if t.phase != "create_result" else
                   "escape-in-create-result" if in_eval else "escape-in-create-result-nonfinite")
            ck.violation(key, f"raise_exception=False, non-finite matrix at call {fault['at']}: {o.exc!r} escaped "
                         f"from Optimizer.{t.phase}" + (" (raised by an evaluation create_result performs)" if in_eval
                                                       else ""), payload)
        return
    if o.result is not None and not o.result.success:
        if not str(o.result.termination_reason):
            ck.violation("reason-missing", "unsuccessful Result with empty termination_reason", payload)
        check_result_consistent(ck, o, payload)


def check_result_consistent(ck, o: Obs, payload):
    """parameters = a parameter set evaluated without error; data computed from those parameters"""
    r, t = o.result, o.trace
    res_row = row_of_parameters(r.optimized_parameters)
    if res_row not in t.ok_rows:
        ck.violation("parameters-not-evaluated", "the Result's parameters do not equal any parameter set that was "
                     "evaluated without error", payload)
    elif t.rows_before_failure:
        # "evaluated without error" means by the optimisation, before the failure was handled: the re-evaluation that
        # create_result itself performs on whatever it restored does not count (seeded change C15-1: set_from_history
        # restored the logarithms of non-negative parameters, which create_result then evaluated "without error").
        res = np.frombuffer(res_row, dtype=float)
        before = [np.frombuffer(b, dtype=float) for b in t.rows_before_failure]
        if not any(b.shape == res.shape and np.allclose(res, b, rtol=1e-12, atol=0.0, equal_nan=False) for b in before):
            ck.violation("parameters-not-from-the-optimisation", "the unsuccessful Result's parameters equal no parameter "
                         "set the optimisation had evaluated without error before the failure (history records at the time "
                         "of the failure)", payload)
    for label in o.scheme.model.dataset:
        if label not in r.data or "matrix" not in r.data[label] or "fitted_data" not in r.data[label]:
            ck.violation("result-data-missing", f"unsuccessful Result has no complete data for {label}", payload)
            continue
        m = np.asarray(r.data[label].matrix.values, dtype=float)
        want = expected_matrix(o, label)
        if m.ndim == 3:
            want = np.array([want] * m.shape[0])
        if m.shape != want.shape or not np.allclose(m, want, rtol=1e-9, atol=1e-12, equal_nan=False):
            ck.violation("result-data-from-other-parameters", f"result data of {label} were not computed from the "
                         "Result's parameters (or contain the injected fault)", payload)


def documented_error(kind: str) -> str:
    """first failing check in the documented order: data, parameters, method, then per dataset group
    (parameter labels, residual function)"""
    parts = kind.split("+")
    for key, err in (("missing-data", "MissingDatasetsError"), ("missing-data-all", "MissingDatasetsError"),
                     ("parameters-none", "ParameterNotInitializedError"), ("unknown-method", "UnsupportedMethodError"),
                     ("empty-method", "UnsupportedMethodError"), ("missing-label", "ParameterNotFoundException"),
                     ("first-group-residual", "UnsupportedResidualFunctionError"),
                     ("unknown-residual-function", "UnsupportedResidualFunctionError"),
                     ("second-group-residual-function", "UnsupportedResidualFunctionError"),
                     ("second-group-label", "ParameterNotFoundException")):
        if key in parts:
            return err
    raise core.HarnessError(kind)


# ------------------------------------------------------------------------------------------
# case generation and the run loop
# ------------------------------------------------------------------------------------------
class Batch:
    """collects model lines; compares after one driver call"""

    def __init__(self, ck):
        self.ck = ck
        self.items = []

    def add(self, line, o, ids, tag, payload):
        self.items.append((line, o, ids, tag, payload))

    def flush(self):
        if not self.items:
            return
        import time as _t
        t0 = _t.time()
        answers = core.lean_driver(PROP, [it[0] for it in self.items])
        self.ck.extra["lean_driver_s"] = round(self.ck.extra.get("lean_driver_s", 0.0) + _t.time() - t0, 1)
        self.ck.extra["lean_driver_lines"] = self.ck.extra.get("lean_driver_lines", 0) + len(self.items)
        for (line, o, ids, tag, payload), ans in zip(self.items, answers):
            if tag == "values":
                compare_values(self.ck, o, ans, payload)
            else:
                compare_one(self.ck, o, ids, ans, tag, payload)
        self.items = []


_FREE_CACHE: dict = {}


def fault_free(ck, scheme: str, method: str, batch: Batch | None):
    """fault-free run of (scheme, method) with verbose off — the reference schedule"""
    key = (scheme, method)
    if key in _FREE_CACHE:
        return _FREE_CACHE[key]
    case = {"scheme": scheme, "method": method, "verbose": False, "raise": False, "fault": None}
    o = execute(case)
    if o.exc is not None and not (o.trace.lsq is not None and o.trace.lsq[0] == "raise"):
        raise core.HarnessError(f"fault-free run of {key} raised {o.exc!r}")
    _FREE_CACHE[key] = o
    return o


def run_case(ck, case, batch: Batch, count=True):
    """one case on the real code: oracle + model comparison (queued)"""
    payload = {"case": case}
    if case.get("invalid"):
        scheme, desc = break_scheme(case["invalid"])
        o = execute(case, scheme, desc)
        ids = Ids(b"x0")
        oracle(ck, o, None, payload)
        sched = {"calls": [], "finish": ["ret", 0, 0, "unreached"], "penalty": None, "final": None}
        batch.add(model_line(case, desc, sched), o, ids, "invalid", payload)
        if count:
            ck.case(("invalid", case["invalid"], case["verbose"], case["raise"]), True)
            ck.count("invalid:" + case["invalid"])
            ck.count("outcome:" + (type(o.exc).__name__ if o.exc is not None else "Result"))
        return o
    free = fault_free(ck, case["scheme"], case["method"], batch)
    if case.get("fault") is not None and case["fault"]["at"] > len(free.call_sweep):
        # a recorded fault position that the fault-free run of this tree never reaches (the number of model evaluations
        # of a run changed): nothing can be injected there; not a verdict
        ck.count("fault-position-beyond-the-fault-free-run")
        ck.diagnostic("recorded fault position beyond the calculate_matrix calls of the fault-free run",
                      {"case": case, "calls": len(free.call_sweep)})
        return None
    o = execute(case)
    ids = Ids(free.x0)
    schedule_of(free, ids)            # ids of the fault-free vectors first (stable numbering)
    oracle(ck, o, free, payload)
    observed = schedule_of(o, ids)
    batch.add(model_line(case, o.desc, observed), o, ids, "observed-schedule", payload)
    vline = value_line(o)
    if vline is None:
        if count:
            ck.count("values:non-finite-vector-skipped")
    else:
        batch.add(vline, o, ids, "values", payload)
    fault = case.get("fault")
    if fault is not None and fault["kind"] in ("raise", "persistent"):
        sched = planned_schedule(free, ids, fault)
        batch.add(model_line(case, o.desc, sched), o, ids, "planned-schedule", payload)
    if count:
        kind = fault["kind"] if fault else "none"
        sweep = free.call_sweep[fault["at"] - 1] if fault else 0
        n_obj = len(free.trace.obj)
        pos = "none" if not fault else ("first" if sweep == 1 else "optimiser" if sweep <= n_obj else
                                        "create-result-penalty" if sweep == n_obj + 1 else "create-result-final")
        ck.case((case["scheme"], case["method"], case["verbose"], case["raise"], kind, fault["at"] if fault else 0),
                fault is None or o.fault_hit > 0)
        ck.count(f"fault:{kind}")
        ck.count(f"position:{pos}")
        ck.count(f"scheme:{case['scheme']}")
        ck.count(f"method:{case['method']}")
        ck.count(f"raise_exception:{case['raise']}")
        ck.count(f"verbose:{case['verbose']}")
        out = type(o.exc).__name__ if o.exc is not None else f"Result(success={o.result.success})"
        ck.count(f"outcome:{out}")
        if fault and kind in ("nan", "inf"):
            ck.count(f"nonfinite-outcome:{out}")
    return o


def _first_call_of_sweep(free, sweep):
    return next(i for i, s in enumerate(free.call_sweep) if s == sweep)


def positions(free: Obs, every_call: bool):
    """calculate_matrix call numbers to fault: first and last call of every evaluation (or every call)"""
    n = free.matrix_calls
    if every_call:
        return list(range(1, n + 1))
    out = []
    sweeps = sorted(set(free.call_sweep))
    for s in sweeps:
        calls = [i + 1 for i, x in enumerate(free.call_sweep) if x == s]
        out.append(calls[0])
        if calls[-1] != calls[0]:
            out.append(calls[-1])
    return out


def all_cases(ck, scheme, methods, every_call, kinds=("raise", "nan", "inf", "persistent")):
    cases = []
    for method in methods:
        free = fault_free(ck, scheme, method, None)
        pos = positions(free, every_call)
        for verbose in (False, True):
            for rs in (False, True):
                cases.append({"scheme": scheme, "method": method, "verbose": verbose, "raise": rs, "fault": None})
                for kind in kinds:
                    if kind in ("inf", "persistent") and verbose:
                        continue
                    for at in pos:
                        cases.append({"scheme": scheme, "method": method, "verbose": verbose, "raise": rs,
                                      "fault": {"kind": kind, "at": at}})
    return cases


def check_inject_mirror(ck, batch_lines):
    """the Lean `inject` (the schedule the theorems talk about) equals the Python `planned_schedule`"""
    lines, wants, metas = [], [], []
    for (scheme, method), free in list(_FREE_CACHE.items()):
        ids = Ids(free.x0)
        base = schedule_of(free, ids)
        xs = [c[0] for c in base["calls"]]
        n_obj = len(xs)
        for k in sorted({1, 2, max(n_obj - 1, 1), n_obj, n_obj + 1, n_obj + 2, n_obj + 3}):
            msg = f"{FAULT_PREFIX}mirror"
            lines.append(f"inject {lst(map(str, xs))} {finish_tok(base['finish'])} {k} {enc(msg)}")
            calls = lst(lst([str(x), enc(msg) if i + 1 == k else "none"]) for i, x in enumerate(xs))
            wants.append(f"{calls} {enc(msg) if k == n_obj + 1 else 'none'} {enc(msg) if k == n_obj + 2 else 'none'}")
            metas.append({"scheme": scheme, "method": method, "k": k})
    answers = core.lean_driver(PROP, lines)
    for a, w, m in zip(answers, wants, metas):
        if a != w:
            ck.disagree("inject-mirror", f"Lean inject and the harness's planned schedule differ for {m}", {"case": m})


def run(ck):
    _FREE_CACHE.clear()
    batch = Batch(ck)
    # 1. corpus (recorded witnesses, e.g. the D16 escape) first
    for c in core.load_corpus(PROP):
        run_case(ck, c["case"], batch)
        ck.count("stream:corpus")
    # 2. the Lean counter-example of `fault_contained` replayed on the real code: fault in each of the two
    #    evaluations create_result performs, every method
    for method in METHODS:
        free = fault_free(ck, "one", method, batch)
        n_obj = len(free.trace.obj)
        for sweep in (n_obj + 1, n_obj + 2):
            if sweep not in free.call_sweep:
                # this tree's create_result does not evaluate the model (any more) in that step: nothing to inject there
                ck.count("create-result-evaluation-absent")
                ck.diagnostic("create_result performs no model evaluation in this step on the fault-free run",
                              {"method": method, "sweep": sweep - n_obj})
                continue
            at = _first_call_of_sweep(free, sweep) + 1
            run_case(ck, {"scheme": "one", "method": method, "verbose": False, "raise": False,
                          "fault": {"kind": "raise", "at": at}}, batch)
            ck.count("stream:lean-counterexample")
    # 3. invalid schemes: every kind x verbose x raise_exception
    for kind in INVALID_KINDS:
        for verbose in (False, True):
            for rs in (False, True):
                run_case(ck, {"invalid": kind, "verbose": verbose, "raise": rs}, batch)
    # 4. the value machine where it matters: non-negative free / fixed parameters, a parameter at the guard value 1, a
    #    stale expression parameter — an exception at every evaluation, every method, contained (raise_exception=False)
    for case in all_cases(ck, "stale-expr", METHODS, every_call=False, kinds=("raise",)):
        if not case["verbose"] and not case["raise"]:
            run_case(ck, case, batch)
            ck.count("stream:values-nonneg")
    # 5. fault injection
    if ck.quick:
        cases = all_cases(ck, "one", METHODS, every_call=False)
        extra = []
        for scheme in SCHEMES[1:]:
            extra += all_cases(ck, scheme, METHODS, every_call=False)
        ck.rng.shuffle(extra)
        cases += extra[: ck.n(400, 0)]
        ck.extra["exhaustive_space"] = ("scheme 'one': every evaluation (first and last calculate_matrix call) x 3 "
                                        "methods x verbose x raise_exception x {raise, nan} (+ inf, persistent with "
                                        "verbose off); other schemes: seeded sample of 400")
    else:
        cases = []
        for scheme in SCHEMES:
            cases += all_cases(ck, scheme, METHODS, every_call=True)
        ck.exhaustive = True
        ck.extra["exhaustive_space"] = f"every calculate_matrix call of every scheme/method/flag combination: {len(cases)} cases"
    for i, case in enumerate(cases):
        if case.get("fault") and case["fault"]["kind"] in ("raise", "persistent"):
            # the class of the injected exception cycles through arithmetic / lookup / type / os / plugin-defined classes
            case = {**case, "fault": {**case["fault"], "exc": EXC_NAMES[i % len(EXC_NAMES)]}}
            ck.count("exception-class:" + case["fault"]["exc"])
        run_case(ck, case, batch)
        ck.count("stream:injection")
        if len(batch.items) >= 4000:
            batch.flush()
    batch.flush()
    check_inject_mirror(ck, None)
    for (scheme, method), free in _FREE_CACHE.items():
        ck.extra.setdefault("fault_free_runs", {})[f"{scheme}/{method}"] = {
            "objective_calls": len(free.trace.obj), "evaluations": free.trace.sweeps,
            "calculate_matrix_calls": free.matrix_calls}
    ck.sample({"case": {"scheme": "one", "method": "TrustRegionReflection", "verbose": False, "raise": False,
                        "fault": {"kind": "raise", "at": 5}},
               "compared": "outcome class, success, termination_reason, restored history record, "
                           "number_of_function_evaluations, history, evaluations, sys.stdout identity, warnings, scheme snapshot; "
                           "value machine: optimized_parameters values, every history row, the parameter sets the additional "
                           "penalties / result data were computed from"})
    ck.sample({"case": {"invalid": "unknown-method+missing-label", "verbose": True, "raise": False}})


def search(ck):
    """widened oracle-only sweep on the real code: every call position of every scheme"""
    _FREE_CACHE.clear()

    class Null:
        items: list = []

        def add(self, *a):
            pass

    null = Null()
    for scheme in SCHEMES:
        for case in all_cases(ck, scheme, METHODS, every_call=True, kinds=("raise", "persistent", "nan")):
            run_case(ck, case, null, count=False)
            if ck.violations:
                return
    for kind in INVALID_KINDS:
        run_case(ck, {"invalid": kind, "verbose": False, "raise": False}, null, count=False)
        if ck.violations:
            return


def replay(ck, case):
    _FREE_CACHE.clear()
    batch = Batch(ck)
    cases = []
    if "disagreements" in case:
        cases = [d["case"]["case"] for d in case["disagreements"] if "case" in d.get("case", {})]
    else:
        c = case.get("case", case)
        cases = [c.get("case", c)]
    for c in cases:
        if "scheme" not in c and "invalid" not in c:
            print(f"not a runnable case: {c}")
            continue
        o = run_case(ck, c, batch, count=False)
        out = repr(o.exc) if o.exc is not None else (f"Result(success={o.result.success}, "
                                                      f"termination_reason={o.result.termination_reason!r})")
        print(f"replayed {c}: {out}; stdout restored={o.stdout_restored}; scheme diff={o.snapshot_diff}")
    batch.flush()
    for d in ck.disagreements:
        print("DISAGREEMENT", d["what"])
    for v in ck.violations:
        print("VIOLATION-DETAIL", v["key"], v["what"])
