"""C02 — the minimised objective is the documented separable least-squares problem."""
from __future__ import annotations

import copy
import json
from fractions import Fraction

import numpy as np

from harness import core, gen_scheme
from harness.gen_scheme import INF, _num
from harness.props import _c02_layout
from harness.props import _c02_steps as steps_mod

LEAN_GEN_STEPS = core.LEAN / "GlotaranModel" / "Generated" / "C02Steps.lean"

PROP = "C02"
REQUIRED_THEOREMS = [
    "objective_append",
    "objective_single",
    "lsExact_sound",
    "nnlsExact_sound",
    "block_is_ls_residual",
    "interval_contains_iff",
    "no_interval_applies_everywhere",
    "applies_list",
    "only_is_complement",
    "constraints_remove_exactly",
    "constraints_keep_columns",
    "reduced_problem_equiv",
    "relations_span",
    "constraints_span",
    "reduced_problem_equiv_counterexample",
    "reduced_problem_equiv_counterexample_all",
    "retrieve_zero_on_constrained",
    "retrieve_related_exact",
    "unionLabels_nodup",
    "alignMatrices_rows",
    "alignMatrices_single",
    "combine_labels_nodup",
    "combine_labels_mem",
    "combine_col_d2",
    "combine_d2_shape",
    "group_penalty_length_unlinked",
    "kron_row_spec",
    "weighted_data_entry",
    "unweighted_data",
    "residual_positions_bijective_unlinked",
    "residual_entry_unlinked_spec",
    "aligned_axis_strictly_increasing",
    "residual_positions_bijective_linked",
    "residual_entry_linked_spec",
    "full_model_kron",
    "generated_megacomplexes_eq_model",
    "generated_data_eq_model",
    "generated_pipeline_eq_model_unlinked",
    "generated_pipeline_eq_model_linked",
    "generated_pipeline_eq_model_full",
    "generated_assembly_eq_model",
    "generated_objective_eq_model",
    "source_objective_append",
    "source_reduction_is_relations_then_constraints",
    "interpreter_rejects_reordered_tables",
    "explicit_link_wins",
    "auto_link_iff",
    "infer_global_first",
    "data_orientation_entry",
    "weight_orientation_follows_own_dims",
    "provider_data_entry",
    "dataset_weight_wins",
    "model_weight_without_dataset_weight",
    "layout_invariant",
]
TRUSTED = [
    "hand-written model lean/GlotaranModel/C02.lean (+LinAlg.lean) of optimization/{matrix,estimation,data}_provider.py, "
    "optimization_group.py, optimizer.calculate_penalty, tied to the code by differential execution only",
    "LAPACK / scipy.optimize.nnls numerics (penalty vectors are compared with the exact rational model at a relative "
    "tolerance of 1e-9 on well-conditioned integer problems)",
    "the test megacomplexes of harness/gen_scheme.py stand for arbitrary megacomplexes (matrices are inputs of the model)",
    "the translator harness/props/_c02_sym.py + _c02_steps.py (symbolic execution of the provider methods' ast; order and operands of "
    "the steps, regenerated into Generated/C02Steps.lean); the bodies of combine_megacomplex_matrices, apply_relations, apply_constraints, "
    "align_matrices, retrieve_clps, calculate_clp_penalties are steps of the table, not opened by it",
]
ASSUMPTIONS = [
    "megacomplex outputs are inputs of the model (C04-C07 cover the builtin megacomplexes)",
    "the weight a dataset ends up with from model-level weights is taken from the data provider (C08 covers its construction); "
    "dataset-supplied weights are taken from the scheme",
    "link_clp=None is resolved by the harness' own reading of is_linkable (no global model in the group) for the scheme stream; the real "
    "decision is modelled (Layout.resolveLink, auto_link_iff) and compared with the real OptimizationGroup in the layout stream",
]
RULE = (
    "random scheme specs from harness/gen_scheme.py (1-4 datasets, 1-2 groups, link_clp true/false/auto, index-(in)dependent "
    "integer matrices from 1-3 test megacomplexes per dataset with shared/distinct labels, megacomplex and dataset scales, "
    "dataset or model weights, identical/overlapping/disjoint/offset global axes with link tolerance and method, zero/only "
    "constraints, relations, equal-area penalties with finite/half-infinite/reversed/list intervals, VP or NNLS, full models); "
    "for each spec the real Optimizer(scheme).objective_function is evaluated at the initial and at a perturbed parameter "
    "vector and compared entry for entry with the Lean model (exact rationals, LS solved exactly) and with an independent "
    "label-dictionary reference; a case is non-trivial when the penalty vector has at least one non-zero entry; distinct = "
    "distinct spec + parameter vector"
)
RTOL = 1e-9


# --------------------------------------------------------------------------------------------
# regenerated table (DESIGN §5.2): order and operands of the steps that build the penalty vector
# --------------------------------------------------------------------------------------------
def generate(ck):
    res = steps_mod.extract(core.REPO)
    text = steps_mod.render_lean(res)
    LEAN_GEN_STEPS.parent.mkdir(parents=True, exist_ok=True)
    if not LEAN_GEN_STEPS.exists() or LEAN_GEN_STEPS.read_text() != text:
        LEAN_GEN_STEPS.write_text(text)
    bad = steps_mod.untranslatable(res)
    ck.extra["steps_table"] = {"fields": len(steps_mod.ORDER), "untranslatable": bad[:6], "table": res["table"]}
    return [{"table": "Steps (lean/GlotaranModel/Generated/C02Steps.lean): order and operands of the steps that build the penalty "
                      "vector (megacomplex scale/combine, data x weight, dataset scale -> slice -> relations -> constraints -> weight, "
                      "kron + flattened weight, aligned stacking/weights/data, solver calls, penalty accumulation, concatenation order)",
             "source": sorted(res["sha"]), "sha1": steps_mod.sha1(text), "untranslatable": len(bad)}]


# --------------------------------------------------------------------------------------------
# real code
# --------------------------------------------------------------------------------------------
def run_real(spec, captures=True):
    """returns dict(penalty=[floats], inputs=[(matrix, data)...], weights={label: arr|None}, error=None|str, groups=[...])"""
    from glotaran.optimization import estimation_provider as ep
    from glotaran.optimization.optimizer import Optimizer

    scheme, model, parameters, data = gen_scheme.build(spec)
    out = {"error": None}
    rec = []
    orig = ep.EstimationProvider.calculate_residual

    def spy(self, matrix, data):
        rec.append((np.array(matrix, dtype=float).copy(), np.array(data, dtype=float).copy()))
        return orig(self, matrix, data)

    ep.EstimationProvider.calculate_residual = spy
    try:
        try:
            opt = Optimizer(scheme, verbose=False, raise_exception=True)
        except Exception as e:  # construction errors (AlignDatasetError, ...)
            out["error"] = type(e).__name__
            return out
        labels, x0, lo, hi = scheme.parameters.get_label_value_and_bounds_arrays(exclude_non_vary=True)
        opt._free_parameter_labels = labels
        rec.clear()
        try:
            pen = opt.objective_function(np.array(x0, dtype=float))
        except Exception as e:
            out["error"] = "eval:" + type(e).__name__
            return out
        out["penalty"] = [float(v) for v in np.asarray(pen).ravel()]
        out["inputs"] = list(rec)
        out["weights"] = {}
        out["parts"] = []
        for g in opt._optimization_groups:
            for label in g._dataset_group.dataset_models:
                out["weights"][label] = g._data_provider.get_weight(label)
            out["parts"].append((len(np.asarray(g.get_full_penalty()).ravel()), [float(v) for v in g.get_additional_penalties()]))
        out["free_labels"] = list(labels)
        out["opt"] = opt
        # The objective is a function of the scheme and the parameter values: (a) a second optimiser built from the SAME
        # scheme object gives the same vector (round-2 seeded change C02-6: transposed data handed over as a view, so the
        # first optimiser multiplied the weight into the caller's data); (b) an optimisation group evaluated at parameter
        # sets that differ only in FIXED parameters gives the vector of the current values (seeded change C02-5: a cache
        # keyed on the free parameters only).
        out["second_optimizer_penalty"] = None
        out["fixed_change"] = None
        try:
            opt2 = Optimizer(scheme, verbose=False, raise_exception=True)
            opt2._free_parameter_labels = labels
            out["second_optimizer_penalty"] = [float(v) for v in np.asarray(opt2.objective_function(np.array(x0, dtype=float))).ravel()]
            fixed = [p for p in scheme.parameters.all() if p.expression is None and p.value not in (0.0,)]
            if fixed:
                from glotaran.optimization.optimization_group import OptimizationGroup
                p_a = scheme.parameters.copy()
                p_b = scheme.parameters.copy()
                lab = fixed[len(fixed) // 2].label
                p_a.get(lab).vary = False            # the parameter is fixed in both sets and has different values
                p_b.get(lab).vary = False
                p_b.get(lab).value = p_b.get(lab).value * 2.0
                groups = list(scheme.model.get_dataset_groups().values())
                stale, fresh = [], []
                for dg in groups:
                    og = OptimizationGroup(scheme, dg)
                    og.calculate(p_a)
                    og.calculate(p_b)
                    stale.append(np.asarray(og.get_full_penalty(), dtype=float).ravel())
                    og2 = OptimizationGroup(scheme, dg)
                    og2.calculate(p_b)
                    fresh.append(np.asarray(og2.get_full_penalty(), dtype=float).ravel())
                out["fixed_change"] = {"label": lab, "after_other": [float(v) for v in np.concatenate(stale)],
                                       "fresh": [float(v) for v in np.concatenate(fresh)]}
        except Exception as e:  # noqa: BLE001 — reported by judge as a violation of its own kind
            out["sequence_error"] = f"{type(e).__name__}: {str(e)[:120]}"
        return out
    finally:
        ep.EstimationProvider.calculate_residual = orig


# --------------------------------------------------------------------------------------------
# independent reference of the objective (the statement, label dictionaries, numpy floats)
# --------------------------------------------------------------------------------------------
def _contains(iv, x):
    lo, hi = _num(iv[0]), _num(iv[1])
    if lo > hi:
        lo, hi = hi, lo
    return lo <= x <= hi


def _applies(interval, x):
    if interval is None:
        return True
    if interval and isinstance(interval[0], (list, tuple)):
        return any(_contains(iv, x) for iv in interval)
    return _contains(interval, x)


def _solve(a, y, nnls):
    from scipy.optimize import nnls as snnls
    if a.shape[1] == 0:
        return np.zeros(0), y.copy()
    if nnls:
        c, _ = snnls(a, y)
    else:
        c = np.linalg.lstsq(a, y, rcond=None)[0]
    return c, y - a @ c


def _columns(spec, ds, gi, P, global_mcs=False):
    """label -> column of the dataset's (megacomplex-scaled) model matrix at global index gi, first-seen order"""
    cols, order = {}, []
    for mc in (ds["gmcs"] if global_mcs else ds["mcs"]):
        base = np.array(mc["base"][gi] if mc["index_dependent"] else mc["base"], dtype=float)
        for c, l in enumerate(mc["labels"]):
            v = base[:, c].copy()
            if mc.get("pars") is not None:
                v = v * P[mc["pars"][c]]
            if mc.get("scale") is not None:
                v = v * P[mc["scale"]]
            if l in cols:
                cols[l] = cols[l] + v
            else:
                cols[l] = v
                order.append(l)
    return cols, order


def _reduce(spec, cols, order, x, P):
    """constrained model at axis value x: relation targets folded into their sources, constrained labels dropped.
    returns (cols, order, expand) with expand(c_red dict) -> full clp dict"""
    cols = dict(cols)
    order = list(order)
    rels = [r for r in spec.get("relations", []) if r["target"] in order and r["source"] in order and _applies(r.get("interval"), x)]
    newcols = {l: cols[l].copy() for l in order}
    for r in rels:
        if r["source"] != r["target"]:
            newcols[r["source"]] = newcols[r["source"]] + P[r["parameter"]] * cols[r["target"]]
    targets = {r["target"] for r in rels}
    order = [l for l in order if l not in targets]
    cols = {l: newcols[l] for l in order}
    removed = set()
    for c in spec.get("constraints", []):
        if c["target"] in order:
            a = _applies(c.get("interval"), x)
            if c["type"] == "only":
                a = not a
            if a:
                removed.add(c["target"])
    order = [l for l in order if l not in removed]
    return {l: cols[l] for l in order}, order, rels


def _area(label, labels_per_idx, clps_per_idx, intervals, axis):
    """sum of clp[label] over the axis points selected by the code's nearest-point slice semantics, as the
    statement of C08 describes it: from the axis point nearest to the lower bound to the one nearest to the upper"""
    vals = []
    axis = np.asarray(axis, dtype=float)
    for iv in intervals:
        lo, hi = sorted((_num(iv[0]), _num(iv[1])))      # fix D23: bounds ordered first
        if lo > axis[-1]:
            continue
        lo, hi = max(lo, axis.min()), min(hi, axis.max())
        if lo > hi:
            lo, hi = hi, lo

        def near(b):                                     # fix D22: -inf -> first, +inf -> last point
            if np.isinf(b):
                return 0 if b < 0 else len(axis) - 1
            return int(np.abs(axis - b).argmin())
        s, e = near(lo), near(hi) + 1
        for i in range(s, e):
            if label in labels_per_idx[i]:
                vals.append(clps_per_idx[i][label])
    return vals


def _penalties(spec, labels_per_idx, clps_per_idx, axis, P):
    out = []
    for p in spec.get("penalties", []):
        sa = _area(p["source"], labels_per_idx, clps_per_idx, p["source_intervals"], axis)
        ta = _area(p["target"], labels_per_idx, clps_per_idx, p["target_intervals"], axis)
        if not sa or not ta:
            continue
        out.append(abs(sum(sa) - P[p["parameter"]] * sum(ta)) * p["weight"])
    return out


def _expand(spec, full_order, red_order, c_red, x, P):
    clp = {l: 0.0 for l in full_order}
    for l, v in zip(red_order, c_red):
        clp[l] = float(v)
    for r in spec.get("relations", []):
        if r["target"] in full_order and r["source"] in full_order and _applies(r.get("interval"), x):
            clp[r["target"]] = P[r["parameter"]] * clp[r["source"]]
    return clp


def _align(axes, tol, method):
    """aligned coordinate of every point of every dataset (the statement of C09), None = ambiguous"""
    aligned, vals = [], None
    for ax in axes:
        if vals is None:
            aligned.append(list(ax))
            vals = sorted(set(ax))
            continue
        al = []
        for x in ax:
            cands = [t for t in vals if (method == "nearest") or (method == "forward" and t >= x) or (method == "backward" and t <= x)]
            best = None
            for t in cands:
                if best is None or abs(t - x) < abs(best - x):
                    best = t
            al.append(best if best is not None and abs(best - x) <= tol else x)
        if len(set(al)) != len(al):
            return None
        aligned.append(al)
        vals = sorted(set(vals) | set(al))
    return aligned


def reference(spec, weights):
    """the objective by the statement.  returns list of floats or an error tag"""
    P = spec["parameters"]
    out = []
    group_order = []
    for ds in spec["datasets"]:
        if ds["group"] not in group_order:
            group_order.append(ds["group"])
    for g in group_order:
        members = [ds for ds in spec["datasets"] if ds["group"] == g]
        nnls = spec["groups"][g]["residual_function"] == "non_negative_least_squares"
        linked = gen_scheme.resolve_linked(spec, g)

        def wdata(ds):
            d = np.array(ds["data"], dtype=float)
            w = weights.get(ds["label"])
            return (d * w if w is not None else d), w

        if not linked:
            res_all, pen_all = [], []
            for ds in members:
                d, w = wdata(ds)
                scale = P[ds["scale"]] if ds.get("scale") is not None else 1.0
                if ds.get("gmcs"):
                    rows, ys = [], []
                    for gi in range(len(ds["global_axis"])):
                        cols, order = _columns(spec, ds, gi, P)
                        gcols, gorder = _columns(spec, ds, 0, P, global_mcs=True)
                        for m in range(d.shape[0]):
                            row = [gcols[gl][gi] * cols[l][m] for gl in gorder for l in order]
                            if w is not None:
                                row = [v * w[m, gi] for v in row]
                            rows.append(row)
                            ys.append(d[m, gi])
                    c, r = _solve(np.array(rows), np.array(ys), nnls)
                    res_all += list(r)
                    continue
                labels_idx, clps_idx = [], []
                for gi, x in enumerate(ds["global_axis"]):
                    cols, order = _columns(spec, ds, gi, P)
                    rcols, rorder, _ = _reduce(spec, cols, order, x, P)
                    a = np.stack([rcols[l] * scale for l in rorder], axis=1) if rorder else np.zeros((d.shape[0], 0))
                    if w is not None:
                        a = a * w[:, gi][:, None]
                    c, r = _solve(a, d[:, gi], nnls)
                    res_all += list(r)
                    labels_idx.append(order)
                    clps_idx.append(_expand(spec, order, rorder, c, x, P))
                pen_all += _penalties(spec, labels_idx, clps_idx, ds["global_axis"], P)
            out += res_all + pen_all
        else:
            aligned = _align([ds["global_axis"] for ds in members], spec.get("clp_link_tolerance", 0.0), spec.get("clp_link_method", "nearest"))
            if aligned is None:
                return "AlignDatasetError"
            axis = sorted({v for al in aligned for v in al})
            any_w = any(weights.get(ds["label"]) is not None for ds in members)
            res_all, labels_idx, clps_idx = [], [], []
            for v in axis:
                blocks, ys, ws, union = [], [], [], []
                mem = [(ds, al.index(v)) for ds, al in zip(members, aligned) if v in al]
                for ds, gi in mem:
                    cols, order = _columns(spec, ds, gi, P)
                    for l in order:
                        if l not in union:
                            union.append(l)
                ucols = {l: [] for l in union}
                has_w = False
                for ds, gi in mem:
                    d, w = wdata(ds)
                    cols, order = _columns(spec, ds, gi, P)
                    scale = P[ds["scale"]] if ds.get("scale") is not None else 1.0
                    n = d.shape[0]
                    for l in union:
                        ucols[l].append(cols[l] * scale if l in cols else np.zeros(n))
                    ys.append(d[:, gi])
                    if w is not None:
                        has_w = True
                        ws.append(w[:, gi])
                    else:
                        ws.append(np.ones(n))
                full = {l: np.concatenate(ucols[l]) for l in union}
                rcols, rorder, _ = _reduce(spec, full, union, v, P)
                a = np.stack([rcols[l] for l in rorder], axis=1) if rorder else np.zeros((sum(len(y) for y in ys), 0))
                if any_w and has_w:
                    a = a * np.concatenate(ws)[:, None]
                c, r = _solve(a, np.concatenate(ys), nnls)
                res_all += list(r)
                labels_idx.append(union)
                clps_idx.append(_expand(spec, union, rorder, c, v, P))
            out += res_all + _penalties(spec, labels_idx, clps_idx, axis, P)
    return out


# --------------------------------------------------------------------------------------------
def close(a, b, scale):
    return abs(a - b) <= RTOL * (1.0 + scale)


def vec_close(u, v):
    if len(u) != len(v):
        return False
    scale = max([abs(x) for x in u] + [abs(x) for x in v] + [1.0])
    return all(close(a, b, scale) for a, b in zip(u, v))


def perturb(rng, spec):
    s = copy.deepcopy(spec)
    for k in s["parameters"]:
        if rng.random() < 0.5:
            s["parameters"][k] = s["parameters"][k] * rng.choice([2.0, 0.5, 1.5])
    return s


def classify(spec):
    tags = []
    for g in spec["groups"]:
        mem = [d for d in spec["datasets"] if d["group"] == g]
        if not mem:
            continue
        tags.append("linked" if gen_scheme.resolve_linked(spec, g) else "unlinked")
        tags.append("nnls" if spec["groups"][g]["residual_function"] != "variable_projection" else "vp")
        tags.append(f"link_clp={spec['groups'][g]['link_clp']}")
    tags.append(f"datasets={len(spec['datasets'])}")
    tags.append(f"groups={len({d['group'] for d in spec['datasets']})}")
    for d in spec["datasets"]:
        if d.get("gmcs"):
            tags.append("full-model")
        if d.get("weight") is not None:
            tags.append("dataset-weight")
        if d.get("scale") is not None:
            tags.append("dataset-scale")
        if any(m["index_dependent"] for m in d["mcs"]):
            tags.append("index-dependent")
        if len(d["mcs"]) > 1:
            tags.append("multi-megacomplex")
        if any(m.get("scale") is not None for m in d["mcs"]):
            tags.append("megacomplex-scale")
    for k in ("constraints", "relations", "penalties", "weights"):
        if spec.get(k):
            tags.append(k)
    if spec.get("clp_link_tolerance", 0) > 0:
        tags.append("tolerance>0")
    return sorted(set(tags))


def check_spec(ck, spec, batch):
    """run the real code + reference now, queue the model lines; comparison happens in flush()"""
    real = run_real(spec)
    for t in classify(spec):
        ck.count("spec:" + t)
    if real["error"]:
        ck.count("real-error:" + real["error"])
        weights = {d["label"]: (np.array(d["weight"]) if d.get("weight") is not None else None) for d in spec["datasets"]}
    else:
        weights = {}
        for d in spec["datasets"]:
            if d.get("weight") is not None:
                weights[d["label"]] = np.array(d["weight"], dtype=float)
            else:
                weights[d["label"]] = real["weights"].get(d["label"])
    try:
        ref = reference(spec, weights)
    except Exception as e:
        ref = f"reference-crashed:{e!r}"
    ck.oracle_evals += 1
    lines = gen_scheme.spec_lines(spec, weights_from_provider=weights) + ["objective", "parts"]
    batch.append({"spec": spec, "real": real, "ref": ref, "lines": lines})


def flush(ck, batch):
    if not batch:
        return
    all_lines = []
    for b in batch:
        all_lines += b["lines"]
    answers = core.lean_driver(PROP, all_lines)
    pos = 0
    for b in batch:
        n = len(b["lines"])
        ans = answers[pos:pos + n]
        pos += n
        judge(ck, b, ans)
    batch.clear()


def judge(ck, b, ans):
    spec, real, ref = b["spec"], b["real"], b["ref"]
    light = {"spec": spec}
    if any(a == "bad-op" or a == "bad-line" for a in ans[:-2]):
        raise core.HarnessError(f"model rejected a protocol line: {[l for l, a in zip(b['lines'], ans) if a.startswith('bad')][:2]}")
    model_obj = ans[-2]
    if model_obj.startswith("pen "):
        model_pen = [float(Fraction(x)) for x in core.parse_tree(model_obj[4:])[0]]
    else:
        model_pen = None
    nontrivial = bool(real.get("penalty")) and any(abs(v) > 1e-12 for v in real["penalty"])
    ck.case(("spec", json.dumps(spec, sort_keys=True, default=str)), nontrivial)
    # --- the statement on the real code (oracle) -------------------------------------------
    if real["error"]:
        if real["error"] == "AlignDatasetError":
            if ref != "AlignDatasetError":
                ck.violation("align-error-unexpected", "AlignDatasetError raised although every point of every dataset "
                             "has a distinct aligned point", light)
            elif model_obj != "err unsolvable":
                ck.disagree("model-no-align-error", "implementation raises AlignDatasetError, model does not", light)
            return
        ck.violation("objective-raises:" + real["error"], f"evaluating the objective raised {real['error']}", light)
        return
    if isinstance(ref, str):
        if ref == "AlignDatasetError":
            ck.violation("align-error-missing", "two points of one dataset are merged by the alignment but no "
                         "AlignDatasetError is raised", light)
            return
        raise core.HarnessError(ref)
    pen = real["penalty"]
    if real.get("sequence_error"):
        ck.violation("objective-sequence-raises", f"a second optimiser / optimisation group on the same scheme raised {real['sequence_error']}", light)
    if real.get("second_optimizer_penalty") is not None and real["second_optimizer_penalty"] != pen:
        ck.violation("objective-differs:second-optimizer-on-same-scheme", "a second Optimizer built from the same scheme object gives "
                     "another penalty vector at the same parameters (the first one changed the caller's scheme / data)",
                     {**light, "first": pen, "second": real["second_optimizer_penalty"]})
    fc = real.get("fixed_change")
    if fc is not None:
        ck.count("oracle:fixed-parameter-change-on-one-group")
        if fc["after_other"] != fc["fresh"]:
            ck.violation("objective-differs:stale-after-fixed-parameter-change", f"OptimizationGroup.calculate(p) after a calculate at parameters "
                         f"differing only in the fixed parameter {fc['label']!r} returns another penalty than a fresh group at p",
                         {**light, **fc})
    if not vec_close(pen, ref):
        key = "objective-differs"
        tags = classify(spec)
        where = first_diff(pen, ref)
        ck.violation(key + ":" + ",".join(t for t in tags if t in ("linked", "unlinked", "full-model", "dataset-scale", "tolerance>0")),
                     f"penalty vector of the real objective differs from the documented separable least-squares objective "
                     f"(length {len(pen)} vs {len(ref)}, first difference at {where})", {**light, "real": pen, "reference": ref})
    # --- model vs implementation ----------------------------------------------------------
    if model_pen is None:
        ck.disagree("model-unsolvable", f"model answered {model_obj!r}", light)
    elif not vec_close(pen, model_pen):
        d = {"key": "model-vs-impl", "what": f"penalty vector differs from the Lean model (first difference at {first_diff(pen, model_pen)})",
             "case": {**light, "real": pen, "model": model_pen}}
        if not vec_close(pen, ref):
            d["explained"] = True      # the oracle already reports it as a violation
        ck.disagreements.append(d)
    # parts: residual length / penalty entries per group
    parts = core.parse_tree(ans[-1][6:])[0] if ans[-1].startswith("parts ") else None
    if parts is not None:
        for (n_real, pens_real), p in zip(real["parts"], parts):
            n_model = int(p[0]) + len(p[1])
            if n_real != n_model:
                ck.diagnostic("group penalty length differs", {**light, "real": n_real, "model": n_model})


def first_diff(u, v):
    for i, (a, b) in enumerate(zip(u, v)):
        if not close(a, b, max(abs(a), abs(b), 1.0)):
            return i
    return min(len(u), len(v))


def run(ck):
    gen_scheme.model_class()
    batch = []
    for c in core.load_corpus(PROP):
        check_spec(ck, c["spec"], batch)
        ck.count("stream:corpus")
    flush(ck, batch)
    n = ck.n(120, 4000)
    for i in range(n):
        spec = gen_scheme.rand_spec(ck.rng)
        check_spec(ck, spec, batch)
        ck.count("stream:random")
        if ck.rng.random() < 0.5:
            pspec = perturb(ck.rng, spec)
            if gen_scheme.full_rank_everywhere(pspec):
                check_spec(ck, pspec, batch)
                ck.count("stream:perturbed-parameters")
            else:   # the statement quantifies over full-column-rank matrices only
                ck.count("stream:perturbation-skipped(rank-deficient)")
        if i % 6 == 5:
            # three or four datasets of one linked group measured on slightly shifted axes: the later datasets share an
            # axis that is moved onto the first dataset's by the link tolerance (every aligned index must stack all of them)
            o = ck.rng.choice([0.25, -0.25])
            lspec = gen_scheme.rand_spec(ck.rng, force={"n_datasets": ck.rng.choice([3, 3, 4]), "n_groups": 1, "link_clp": True,
                                                        "tol": ck.rng.choice([0.25, 0.5]), "axis_mode": "offset",
                                                        "offsets": [0.0, o, o, ck.rng.choice([o, 0.0])]})
            check_spec(ck, lspec, batch)
            ck.count("stream:linked-shifted-axes")
        if i < 2:
            ck.sample({"spec": spec})
        if len(batch) >= 60:
            flush(ck, batch)
    flush(ck, batch)
    _c02_layout.run_layout(ck)


def search(ck):
    batch = []
    for _ in range(ck.n(300, 3000)):
        check_spec(ck, gen_scheme.rand_spec(ck.rng), batch)
        if len(batch) >= 60:
            flush(ck, batch)
        if ck.violations:
            break
    flush(ck, batch)
    if not ck.violations:
        _c02_layout.search_layout(ck)


def replay(ck, case):
    gen_scheme.model_class()
    specs = []
    if "case" in case and "spec" in case["case"] and "layout_variation" not in case["case"]:
        specs.append(case["case"]["spec"])
    for d in case.get("disagreements", []):
        if "spec" in d["case"] and "layout_variation" not in d["case"]:
            specs.append(d["case"]["spec"])
    batch = []
    for s in specs:
        check_spec(ck, s, batch)
    flush(ck, batch)
    _c02_layout.replay_layout(ck, case)
    for d in ck.disagreements:
        print("DISAGREEMENT", d["what"])
