"""C06 function-level translator of the `finalize_data` functions of the builtin megacomplexes.

Regenerates lean/GlotaranModel/Generated/C06Fin.lean from the *source text* (pure `ast`, nothing is imported or executed) of
  decay/util.py `finalize_data` (+ the helpers it calls: retrieve_species_associated_data, retrieve_decay_associated_data),
  DampedOscillationMegacomplex / PFIDMegacomplex / CoherentArtifactMegacomplex / SpectralMegacomplex / BaselineMegacomplex /
  ClpGuideMegacomplex `.finalize_data`.
Each function is executed symbolically for `is_full_model=False`, `as_global=False` (the spectral and decay functions also
for the global side of a full model: `is_full_model=True`, `as_global=True`), once under `len(dataset.matrix.shape) == 3`
and once under its negation.  Abstract values: f-strings (`Str`), label lists (`LabList`: source list + element f-string),
tracked arrays (`Arr`: dimension tokens + the cell expression for one label), loop variables, opaque values (with a taint
flag: derived from a tracked array in a way that is not understood).  See lean/GlotaranModel/C06FinDesc.lean for the
vocabulary of the emitted table.  Everything not understood that touches a tracked array or writes to the dataset becomes
an `.untranslatable "<reason>"` row / cell / label list; nothing is defaulted.
"""
from __future__ import annotations

import ast
import hashlib
from dataclasses import dataclass, field
from pathlib import Path

BASE = "glotaran/builtin/megacomplexes"
FUNCTIONS = {
    # key: (file, class or None, function, configurations [(suffix, is_full_model, as_global)])
    "dampedOscillation": (f"{BASE}/damped_oscillation/damped_oscillation_megacomplex.py", "DampedOscillationMegacomplex", "finalize_data",
                          [("", False, False)]),
    "pfid": (f"{BASE}/pfid/pfid_megacomplex.py", "PFIDMegacomplex", "finalize_data", [("", False, False)]),
    "coherentArtifact": (f"{BASE}/coherent_artifact/coherent_artifact_megacomplex.py", "CoherentArtifactMegacomplex", "finalize_data",
                         [("", False, False)]),
    "spectral": (f"{BASE}/spectral/spectral_megacomplex.py", "SpectralMegacomplex", "finalize_data",
                 [("", False, False), ("Global", True, True)]),
    "baseline": (f"{BASE}/baseline/baseline_megacomplex.py", "BaselineMegacomplex", "finalize_data", [("", False, False)]),
    "clpGuide": (f"{BASE}/clp_guide/clp_guide_megacomplex.py", "ClpGuideMegacomplex", "finalize_data", [("", False, False)]),
    "decay": (f"{BASE}/decay/util.py", None, "finalize_data", [("", False, False), ("Global", True, True)]),
}
TRACKED = ("matrix", "global_matrix", "clp")


# ------------------------------------------------------------------------------------------------------
# abstract values
# ------------------------------------------------------------------------------------------------------
@dataclass
class Const:
    value: object


@dataclass
class Str:
    parts: list            # ("lit", s) | ("attr", path) | ("elem", src) | ("var",)


@dataclass
class LabList:
    src: tuple             # ("attr", path) | ("range1", path) | ("firstSeen", outer, cls, inner) | ("untranslatable", why)
    parts: list            # element as an f-string over ("var",)


@dataclass
class Arr:
    dims: list             # "G" | "M" | ("C", dimname, src|None) selectable label dimension | ("L", src) selected labels | "K"
    cell: tuple
    named: bool = True


@dataclass
class LinComb:
    src: object
    sel_dim: str
    species: tuple
    weights: str
    transposed: bool


@dataclass
class Declared:            # xr.DataArray(value, dims=…)
    value: object
    dims: list


@dataclass
class Zeros:
    dims: list
    stores: list = field(default_factory=list)      # [(src of the loop, cell)]


@dataclass
class Size:
    dim: object


@dataclass
class LoopElem:
    src: tuple


@dataclass
class LoopIndex:
    src: tuple


@dataclass
class McVar:
    name: str
    outer: str


@dataclass
class Uniq:
    cls: str
    outer: str


@dataclass
class Opaque:
    text: str
    tainted: bool = False


@dataclass
class Tup:
    items: list


class DatasetObj:
    pass


class Stop(Exception):
    """`return` reached"""


class Untranslatable(Exception):
    pass


def dump(node) -> str:
    try:
        return ast.unparse(node)
    except Exception:
        return ast.dump(node)


def strip_doc(body):
    if body and isinstance(body[0], ast.Expr) and isinstance(getattr(body[0], "value", None), ast.Constant) \
            and isinstance(body[0].value.value, str):
        return body[1:]
    return body


def mentions(node, names) -> bool:
    for sub in ast.walk(node):
        if isinstance(sub, ast.Name) and sub.id in names:
            return True
    return False


def reads_tracked(node, written=()) -> bool:
    """does the code read `dataset.matrix / .global_matrix / .clp` or a result variable written from them (`written`: the
    constant names among those; a name that is not a string constant counts as one of them)"""
    for sub in ast.walk(node):
        if isinstance(sub, ast.Attribute) and sub.attr in TRACKED:
            return True
        if isinstance(sub, ast.Subscript) and isinstance(sub.value, ast.Name) and sub.value.id == "dataset" \
                and isinstance(sub.ctx, ast.Load):
            if not (isinstance(sub.slice, ast.Constant) and isinstance(sub.slice.value, str)) or sub.slice.value in written:
                return True
    return False


# ------------------------------------------------------------------------------------------------------
# the symbolic executor
# ------------------------------------------------------------------------------------------------------
class Exec:
    def __init__(self, module, cls, rank3, is_full_model, as_global):
        self.module, self.cls = module, cls
        self.rank3 = rank3
        self.cfg = {"is_full_model": is_full_model, "as_global": as_global}
        self.rows = []            # (scope, row)
        self.scalars = []         # (name, scalar)
        self.written = {}         # var name parts (tuple) -> (dims, label dim parts, src)
        self.untracked = []
        self.scope = None

    def written_consts(self):
        return {k[0][1] for k in self.written if len(k) == 1 and k[0][0] == "lit"}

    # ---- rows -----------------------------------------------------------------------------------------
    def emit(self, row):
        self.rows.append((self.scope, row))

    def bad(self, why):
        self.emit(("untranslatable", why[:300]))

    # ---- helpers --------------------------------------------------------------------------------------
    def path(self, node, env):
        """dotted text of an attribute chain / call chain with resolved heads (`self.labels`, `megacomplex.get_a_matrix(dataset_model)`)"""
        if isinstance(node, ast.Name):
            v = env.get(node.id)
            if isinstance(v, McVar):
                return v.name
            if isinstance(v, Opaque) and not v.tainted:
                return v.text
            if isinstance(v, Const) and isinstance(v.value, (bool, int, str)) or (isinstance(v, Const) and v.value is None):
                return repr(v.value)
            if v is None or isinstance(v, DatasetObj):
                return node.id
            return None
        if isinstance(node, ast.Attribute):
            b = self.path(node.value, env)
            return None if b is None else f"{b}.{node.attr}"
        if isinstance(node, ast.Call) and not node.keywords:
            b = self.path(node.func, env)
            args = [self.path(a, env) for a in node.args]
            if b is None or any(a is None for a in args):
                return None
            return f"{b}({', '.join(args)})"
        if isinstance(node, ast.Constant):
            return repr(node.value)
        return None

    def as_str(self, v):
        if isinstance(v, Str):
            return v
        if isinstance(v, Const) and isinstance(v.value, str):
            return Str([("lit", v.value)])
        if isinstance(v, LoopElem):
            return Str([("elem", v.src)])
        return None

    def tainted(self, v) -> bool:
        if isinstance(v, (Arr, LinComb, Zeros)):
            return True
        if isinstance(v, Declared):
            return self.tainted(v.value)
        if isinstance(v, Opaque):
            return v.tainted
        if isinstance(v, Tup):
            return any(self.tainted(x) for x in v.items)
        return False

    def opaque(self, node, env, *vals):
        t = self.path(node, env) or dump(node)
        return Opaque(t, any(self.tainted(v) for v in vals))

    # ---- expressions ----------------------------------------------------------------------------------
    def ev(self, node, env):
        m = getattr(self, "ev_" + type(node).__name__, None)
        if m is None:
            subs = [self.ev(c, env) for c in ast.iter_child_nodes(node) if isinstance(c, ast.expr)]
            return self.opaque(node, env, *subs)
        return m(node, env)

    def ev_Constant(self, node, env):
        return Const(node.value)

    def ev_Name(self, node, env):
        if node.id in env:
            return env[node.id]
        return Opaque(node.id)

    def ev_JoinedStr(self, node, env):
        parts = []
        for v in node.values:
            if isinstance(v, ast.Constant) and isinstance(v.value, str):
                parts.append(("lit", v.value))
            elif isinstance(v, ast.FormattedValue) and v.conversion == -1 and v.format_spec is None:
                x = self.ev(v.value, env)
                s = self.as_str(x)
                if s is not None:
                    parts += s.parts
                elif isinstance(x, Opaque) and not x.tainted and "." in x.text:
                    parts.append(("attr", x.text))
                else:
                    parts.append(("attr", "<" + dump(v.value) + ">"))
            else:
                parts.append(("attr", "<" + dump(v) + ">"))
        return Str(parts)

    def ev_Tuple(self, node, env):
        items = []
        for e in node.elts:
            if isinstance(e, ast.Starred):
                v = self.ev(e.value, env)
                if isinstance(v, Tup):
                    items += v.items
                else:
                    items.append(Opaque(dump(e), self.tainted(v)))
            else:
                items.append(self.ev(e, env))
        return Tup(items)

    def ev_List(self, node, env):
        if not node.elts:
            return LabList(("empty",), [("var",)])
        vals = [self.ev(e, env) for e in node.elts]
        return self.opaque(node, env, *vals)

    def ev_IfExp(self, node, env):
        t = self.ev(node.test, env)
        if isinstance(t, Const) and isinstance(t.value, bool):
            return self.ev(node.body if t.value else node.orelse, env)
        a, b = self.as_str(self.ev(node.body, env)), self.as_str(self.ev(node.orelse, env))
        if a is not None and b is not None:
            if isinstance(t, Uniq):
                return ("scalar", ("ifUnique", t.cls, t.outer, a.parts, b.parts))
            if isinstance(t, tuple) and t[0] == "eq":
                return ("scalar", ("ifEq", t[1], t[2], a.parts, b.parts))
        return self.opaque(node, env, self.ev(node.body, env), self.ev(node.orelse, env))

    def ev_UnaryOp(self, node, env):
        v = self.ev(node.operand, env)
        if isinstance(node.op, ast.Not) and isinstance(v, Const) and isinstance(v.value, bool):
            return Const(not v.value)
        return self.opaque(node, env, v)

    def ev_Compare(self, node, env):
        if len(node.ops) != 1:
            return self.opaque(node, env)
        op, left, right = node.ops[0], node.left, node.comparators[0]
        # len(dataset.matrix.shape) == 3
        if isinstance(op, ast.Eq) and dump(left) == "len(dataset.matrix.shape)" and isinstance(right, ast.Constant) and right.value == 3:
            return Const(self.rank3)
        # <dim> in dataset.coords
        if isinstance(op, ast.In) and dump(right) == "dataset.coords":
            s = self.as_str(self.ev(left, env))
            if s is not None:
                return ("guard", s.parts)
        # len([m for m in X if isinstance(m, Cls)]) < 2
        if isinstance(op, ast.Lt) and isinstance(right, ast.Constant) and right.value == 2 and isinstance(left, ast.Call) \
                and isinstance(left.func, ast.Name) and left.func.id == "len" and len(left.args) == 1 and isinstance(left.args[0], ast.ListComp):
            lc = left.args[0]
            g = lc.generators[0]
            if len(lc.generators) == 1 and isinstance(g.target, ast.Name) and isinstance(lc.elt, ast.Name) and lc.elt.id == g.target.id \
                    and len(g.ifs) == 1 and isinstance(g.ifs[0], ast.Call) and dump(g.ifs[0].func) == "isinstance" \
                    and dump(g.ifs[0].args[0]) == g.target.id and isinstance(g.ifs[0].args[1], ast.Name):
                outer = self.ev(g.iter, env)
                if isinstance(outer, Opaque) and not outer.tainted:
                    return Uniq(g.ifs[0].args[1].id, outer.text)
        if isinstance(op, ast.Eq) and isinstance(right, ast.Constant) and isinstance(right.value, str):
            s = self.as_str(self.ev(left, env))
            if s is not None:
                return ("eq", s.parts, right.value)
        return self.opaque(node, env, self.ev(left, env), self.ev(right, env))

    def ev_ListComp(self, node, env):
        if len(node.generators) == 1 and isinstance(node.generators[0].target, ast.Name) and not node.generators[0].ifs:
            g = node.generators[0]
            it = self.to_lablist(self.ev(g.iter, env))
            if isinstance(it, LabList) and it.parts == [("var",)]:
                e2 = dict(env)
                e2[g.target.id] = LoopElem(it.src)
                s = self.as_str(self.ev(node.elt, e2))
                if s is not None:
                    return LabList(it.src, [("var",) if p == ("elem", it.src) else p for p in s.parts])
        subs = [self.ev(node.generators[0].iter, env)] if node.generators else []
        return self.opaque(node, env, *subs)

    def ev_Attribute(self, node, env):
        base = self.ev(node.value, env)
        a = node.attr
        if isinstance(base, DatasetObj):
            if a == "matrix":
                return Arr((["G", "M"] if self.rank3 else ["M"]) + [("C", "clp_label", None)], ("src", "matrix"))
            if a == "global_matrix":
                return Arr(["Gx", ("C", "global_clp_label", None)], ("src", "globalMatrix"))
            if a == "clp":
                return Arr(["G", ("C", "clp_label", None)], ("src", "clp"))
            return Opaque(f"dataset.{a}")
        if isinstance(base, Arr):
            if a in ("values", "data"):
                return Arr(base.dims, base.cell, named=False)
            if a == "shape":
                return Opaque(dump(node))
            return Opaque(dump(node), True)
        if isinstance(base, Opaque):
            if a == "size" and base.text.startswith("dataset.coords["):
                inner = base.text[len("dataset.coords["):-1]
                return Size({"global_dimension": "G", "model_dimension": "M"}.get(inner, inner))
            if base.tainted:
                return Opaque(dump(node), True)
            if base.text == "self" or base.text.startswith(("self.", "dataset_model", "megacomplex")) or isinstance(env.get(base.text), McVar):
                # an attribute that may be a label list or a scalar: decided by use
                return Opaque(f"{base.text}.{a}")
            return Opaque(f"{base.text}.{a}")
        if isinstance(base, McVar):
            return Opaque(f"{base.name}.{a}")
        return self.opaque(node, env, base)

    def ev_Subscript(self, node, env):
        base = self.ev(node.value, env)
        if isinstance(base, Opaque) and base.text == "dataset.attrs":
            k = self.ev(node.slice, env)
            if isinstance(k, Const) and k.value in ("global_dimension", "model_dimension"):
                return Str([("attr", k.value)])
        if isinstance(base, Opaque) and base.text == "dataset.coords":
            k = self.as_str(self.ev(node.slice, env))
            if k is not None and len(k.parts) == 1 and k.parts[0][0] == "attr":
                return Opaque(f"dataset.coords[{k.parts[0][1]}]")
            return Opaque(dump(node))
        if isinstance(base, DatasetObj):
            k = self.as_str(self.ev(node.slice, env))
            if k is not None and tuple(k.parts) in self.written:
                dims, ldim, src = self.written[tuple(k.parts)]
                toks = []
                for d in dims:
                    if ldim is not None and d == ldim:
                        toks.append(("C", self.dim_text(ldim), src))
                    else:
                        toks.append({(("attr", "global_dimension"),): "G", (("attr", "model_dimension"),): "M"}.get(tuple(d), "?"))
                return Arr(toks, ("src", ("resultVar", list(k.parts))))
            return Opaque(dump(node), False)
        if isinstance(base, Opaque) and not base.tainted:
            k = self.ev(node.slice, env)
            if isinstance(k, Const) and isinstance(k.value, int) and "." in base.text:
                return Opaque(f"{base.text}[{k.value}]")       # self.labels[0]
            return Opaque(dump(node), self.tainted(k))
        return Opaque(dump(node), self.tainted(base))

    def dim_text(self, parts):
        if len(parts) == 1 and parts[0][0] == "lit":
            return parts[0][1]
        return "<" + repr(parts) + ">"

    def to_lablist(self, v):
        if isinstance(v, LabList):
            return v
        if isinstance(v, Opaque) and not v.tainted and "." in v.text and not v.text.startswith("dataset"):
            return LabList(("attr", v.text), [("var",)])
        return None

    def ev_BinOp(self, node, env):
        l, r = self.ev(node.left, env), self.ev(node.right, env)
        if isinstance(node.op, (ast.Mult, ast.Add)) and isinstance(l, Arr) and isinstance(r, Arr) and self.same_dims(l, r):
            return Arr(self.merge_dims(l, r), ("mul" if isinstance(node.op, ast.Mult) else "add", l.cell, r.cell), named=l.named and r.named)
        if isinstance(node.op, ast.MatMult) and isinstance(l, Arr) and not l.named and isinstance(node.right, ast.Attribute) and node.right.attr == "T":
            w = self.ev(node.right.value, env)
            if isinstance(w, Opaque) and not w.tainted and len(l.dims) == 2 and l.dims[0] == "G" and isinstance(l.dims[1], tuple) and l.dims[1][0] == "L" \
                    and l.cell[0] == "sel" and l.cell[3] == [("var",)]:
                return LinComb(l.cell[1], l.cell[2], l.dims[1][1], w.text, True)
        if isinstance(node.op, ast.Add):
            a, b = self.as_str(l), self.as_str(r)
            if a is not None and b is not None:
                return Str(a.parts + b.parts)
            if isinstance(l, Opaque) and isinstance(r, Const) and r.value == 1 and not l.tainted:
                return Opaque(f"{l.text} + 1")
        return self.opaque(node, env, l, r)

    @staticmethod
    def plain(d):
        return ("C",) + tuple(d[1:2]) if isinstance(d, tuple) and d[0] == "C" else d

    def same_dims(self, a, b):
        return [self.plain(d) for d in a.dims] == [self.plain(d) for d in b.dims]

    def merge_dims(self, a, b):
        return a.dims

    def ev_Dict(self, node, env):
        out = {}
        for k, v in zip(node.keys, node.values):
            kk = self.ev(k, env) if k is not None else None
            if isinstance(kk, Const) and isinstance(kk.value, str):
                out[kk.value] = self.ev(v, env)
            else:
                return self.opaque(node, env, *[self.ev(x, env) for x in node.values])
        return ("dict", out)

    def ev_Call(self, node, env):
        f = node.func
        fname = dump(f)
        args = [self.ev(a, env) for a in node.args]
        kws = {k.arg: self.ev(k.value, env) for k in node.keywords if k.arg is not None}
        # ---- label selection --------------------------------------------------------------------------
        if isinstance(f, ast.Attribute) and f.attr == "sel":
            base = self.ev(f.value, env)
            if isinstance(base, Arr) and base.named:
                sel = dict(kws)
                if len(node.args) == 1 and isinstance(args[0], tuple) and args[0][0] == "dict":
                    sel.update(args[0][1])
                elif node.args or any(k.arg is None for k in node.keywords):
                    return Opaque(dump(node), True)
                cur = base
                for dim, what in sel.items():
                    cur = self.select(cur, dim, what, node)
                    if not isinstance(cur, Arr):
                        return cur
                return cur
            return Opaque(dump(node), self.tainted(base))
        if isinstance(f, ast.Attribute) and f.attr == "to_numpy" and not node.args:
            base = self.ev(f.value, env)
            if isinstance(base, Arr):
                return Arr(base.dims, base.cell, named=False)
        if isinstance(f, ast.Attribute) and f.attr == "copy" and not node.args:
            base = self.ev(f.value, env)
            return base if not self.tainted(base) else Opaque(dump(node), True)
        # ---- numpy -----------------------------------------------------------------------------------
        if fname in ("np.sqrt",) and len(args) == 1 and isinstance(args[0], Arr):
            return Arr(args[0].dims, ("sqrt", args[0].cell), args[0].named)
        if fname in ("np.hypot", "np.arctan2") and len(args) == 2 and all(isinstance(a, Arr) for a in args) and self.same_dims(*args):
            return Arr(args[0].dims, ("hypot" if fname == "np.hypot" else "atan2", args[0].cell, args[1].cell), args[0].named and args[1].named)
        if fname == "np.unwrap" and len(args) == 1 and isinstance(args[0], Arr) and set(kws) <= {"axis"}:
            ax = kws.get("axis", Const(-1))
            dims = args[0].dims
            axis = "unknown"
            if isinstance(ax, Const) and isinstance(ax.value, int) and -len(dims) <= ax.value < len(dims):
                d = dims[ax.value]
                axis = "series" if d == "G" else "model" if d == "M" else "labels" if isinstance(d, tuple) and d[0] in ("L", "C") else "unknown"
            return Arr(dims, ("unwrap", axis, args[0].cell), args[0].named)
        if fname == "np.zeros" and args and isinstance(args[0], Tup) and all(isinstance(x, Size) for x in args[0].items):
            return Zeros([x.dim for x in args[0].items])
        if fname == "np.arange" and len(args) == 2 and isinstance(args[0], Const) and args[0].value == 1 and isinstance(args[1], Opaque) \
                and args[1].text.endswith(" + 1") and not args[1].tainted:
            return LabList(("range1", args[1].text[:-4]), [("var",)])
        if fname == "range" and len(args) == 2 and isinstance(args[0], Const) and args[0].value == 1 and isinstance(args[1], Opaque) \
                and args[1].text.endswith(" + 1") and not args[1].tainted:
            return LabList(("range1", args[1].text[:-4]), [("var",)])
        if fname == "len" and len(args) == 1:
            ll = self.to_lablist(args[0])
            if ll is not None and ll.parts == [("var",)]:
                return Size(("L", ll.src))
        if fname == "enumerate" and len(args) == 1:
            ll = self.to_lablist(args[0])
            if ll is not None:
                return ("enumerate", ll)
        if fname == "get_dataset_model_model_dimension":
            return Str([("attr", "model_dimension")])
        if fname in ("xr.DataArray", "xarray.DataArray") and args:
            dims = kws.get("dims")
            if isinstance(dims, Tup) and all(self.as_str(d) is not None for d in dims.items):
                return Declared(args[0], [self.as_str(d).parts for d in dims.items])
            return Opaque(dump(node), self.tainted(args[0]))
        # ---- methods of self: inline the single return expression -----------------------------------------
        if isinstance(f, ast.Attribute) and isinstance(f.value, ast.Name) and f.value.id == "self" and self.cls is not None and not node.args:
            for n in self.cls.body:
                if isinstance(n, ast.FunctionDef) and n.name == f.attr:
                    rets = [x for x in ast.walk(n) if isinstance(x, ast.Return)]
                    if len(rets) == 1 and rets[0].value is not None and len(strip_doc(n.body)) == 1:
                        return self.ev(rets[0].value, {"self": Opaque("self")})
        # ---- module functions --------------------------------------------------------------------------
        if isinstance(f, ast.Name):
            target = next((n for n in self.module.body if isinstance(n, ast.FunctionDef) and n.name == f.id), None)
            passes_dataset = any(isinstance(a, DatasetObj) for a in args) or any(isinstance(a, DatasetObj) for a in kws.values())
            if passes_dataset:
                if target is not None and reads_tracked(target, self.written_consts()):
                    self.inline(target, args, kws)
                else:       # a helper that reads no tracked array, or one defined in another module
                    self.emit(("external", f.id))
                return Const(None)
        return self.opaque(node, env, *args, *kws.values())

    def select(self, base, dim, what, node):
        idx = next((i for i, d in enumerate(base.dims) if isinstance(d, tuple) and d[0] == "C" and d[1] == dim), None)
        if idx is None or base.cell[0] != "src":
            return Opaque(dump(node), True)
        src = base.cell[1]
        s = self.as_str(what)
        if s is not None:
            return Arr(base.dims[:idx] + base.dims[idx + 1:], ("sel", src, dim, s.parts))
        ll = self.to_lablist(what)
        if ll is not None:
            return Arr(base.dims[:idx] + [("L", ll.src)] + base.dims[idx + 1:], ("sel", src, dim, ll.parts))
        return Opaque(dump(node), True)

    # ---- statements -----------------------------------------------------------------------------------
    def inline(self, fn, args, kws):
        env = {}
        params = [a.arg for a in fn.args.args]
        defaults = fn.args.defaults
        for p, d in zip(params[len(params) - len(defaults):], defaults):
            env[p] = self.ev(d, {})
        for p, a in zip(params, args):
            env[p] = a
        env.update(kws)
        try:
            self.block(strip_doc(fn.body), env)
        except Stop:
            pass

    def block(self, body, env):
        for st in body:
            self.stmt(st, env)

    def stmt(self, st, env):
        m = getattr(self, "st_" + type(st).__name__, None)
        if m is None:
            if mentions(st, {"dataset"}):
                self.bad(f"statement: {dump(st)}")
            return
        m(st, env)

    def st_Pass(self, st, env):
        pass

    def st_Return(self, st, env):
        raise Stop()

    def st_Expr(self, st, env):
        if isinstance(st.value, ast.Constant):
            return
        v = self.ev(st.value, env)
        if self.tainted(v):
            self.bad(f"expression statement on a tracked array: {dump(st)}")

    def st_If(self, st, env):
        t = self.ev(st.test, env)
        if isinstance(t, Const) and isinstance(t.value, bool):
            self.block(st.body if t.value else st.orelse, env)
            return
        if isinstance(t, tuple) and t[0] == "guard" and not st.orelse and len(st.body) == 1 and isinstance(st.body[0], ast.Return):
            self.emit(("guard", t[1]))
            return
        if reads_tracked(st, self.written_consts()) or any(isinstance(s, ast.Return) for s in ast.walk(st)) or self.writes_tainted(st, env):
            self.bad(f"branch on an unknown condition: if {dump(st.test)}")
            return
        for b in (st.body, st.orelse):
            for s in b:
                for sub in ast.walk(s):
                    if isinstance(sub, ast.Name) and isinstance(sub.ctx, ast.Store):
                        env[sub.id] = Opaque(sub.id)

    def writes_tainted(self, st, env) -> bool:
        """a statement under an unknown condition that uses a local derived from a tracked array"""
        return any(isinstance(n, ast.Name) and isinstance(n.ctx, ast.Load) and self.tainted(env.get(n.id)) for n in ast.walk(st))

    def st_AugAssign(self, st, env):
        if mentions(st, {"dataset"}) or (isinstance(st.target, ast.Name) and self.tainted(env.get(st.target.id))):
            self.bad(f"statement: {dump(st)}")
        elif isinstance(st.target, ast.Name):
            env[st.target.id] = Opaque(st.target.id)

    def st_Assign(self, st, env):
        if len(st.targets) != 1:
            if mentions(st, {"dataset"}):
                self.bad(f"statement: {dump(st)}")
            return
        tgt = st.targets[0]
        if isinstance(tgt, ast.Name):
            v = self.ev(st.value, env)
            if isinstance(v, tuple) and v[0] == "scalar":
                self.scalars.append((tgt.id, v[1]))
                v = Str([("attr", tgt.id)])
            env[tgt.id] = v
            return
        if isinstance(tgt, ast.Tuple) and all(isinstance(e, ast.Name) for e in tgt.elts):
            v = self.ev(st.value, env)
            if isinstance(v, Tup) and len(v.items) == len(tgt.elts):
                for e, x in zip(tgt.elts, v.items):
                    env[e.id] = x
            else:
                for e in tgt.elts:
                    env[e.id] = Opaque(e.id, self.tainted(v))
            return
        if isinstance(tgt, ast.Subscript):
            base = self.ev(tgt.value, env)
            # arr[:, i] = value
            if isinstance(base, Zeros) and isinstance(tgt.value, ast.Name):
                self.store(base, tgt, st, env)
                return
            if isinstance(base, DatasetObj):
                self.write_var(tgt, st, env)
                return
            if isinstance(base, Opaque) and base.text == "dataset.coords":
                self.write_coord(tgt, st, env)
                return
            v = self.ev(st.value, env)
            if self.tainted(v) or self.tainted(base):
                self.bad(f"statement: {dump(st)}")
            return
        if mentions(st, {"dataset"}):
            self.bad(f"statement: {dump(st)}")

    def store(self, z, tgt, st, env):
        sl = tgt.slice
        v = self.ev(st.value, env)
        ok = isinstance(sl, ast.Tuple) and len(sl.elts) == 2 and isinstance(sl.elts[0], ast.Slice) and sl.elts[0].lower is None \
            and sl.elts[0].upper is None and sl.elts[0].step is None and len(z.dims) == 2
        if ok:
            i = self.ev(sl.elts[1], env)
            ok = isinstance(i, LoopIndex) and z.dims[1] == ("L", i.src) and isinstance(v, Arr) and [self.plain(d) for d in v.dims] == [z.dims[0]]
        if not ok:
            z.stores.append((None, ("untranslatable", f"store {dump(st)}"[:300])))
            return
        z.stores.append((i.src, v.cell))

    def zeros_value(self, z):
        if len(z.stores) != 1:
            return Arr(z.dims, ("untranslatable", f"{len(z.stores)} stores into a zero-initialised array"), named=False)
        src, cell = z.stores[0]
        if src is None:
            return Arr(z.dims, cell, named=False)
        return Arr(z.dims, subst_elem(cell, src), named=False)

    def write_coord(self, tgt, st, env):
        name = self.as_str(self.ev(tgt.slice, env))
        v = self.ev(st.value, env)
        if name is None:
            self.bad(f"coordinate with an unknown name: {dump(st)}")
            return
        ll = self.to_lablist(v)
        if ll is not None and ll.parts == [("var",)]:
            self.emit(("coord", name.parts, ll.src))
            return
        if isinstance(v, Tup) and len(v.items) == 2 and self.as_str(v.items[0]) is not None and isinstance(v.items[1], Opaque) and not v.items[1].tainted:
            self.emit(("coordOn", name.parts, self.as_str(v.items[0]).parts, v.items[1].text))
            return
        self.bad(f"coordinate: {dump(st)}")

    def write_var(self, tgt, st, env):
        name = self.as_str(self.ev(tgt.slice, env))
        v = self.ev(st.value, env)
        if name is None:
            self.bad(f"variable with an unknown name: {dump(st)}")
            return
        dims = None
        if isinstance(v, Tup) and len(v.items) == 2 and isinstance(v.items[0], (Tup, Str)):
            d = v.items[0]
            items = d.items if isinstance(d, Tup) else [d]
            if all(self.as_str(x) is not None for x in items):
                dims = [self.as_str(x).parts for x in items]
                v = v.items[1]
        elif isinstance(v, Declared):
            dims, v = v.dims, v.value
        if isinstance(v, Zeros):
            v = self.zeros_value(v)
        if isinstance(v, LinComb):
            if dims is None or len(dims) != 2:
                self.bad(f"linear combination without declared dims: {dump(st)}")
                return
            self.emit(("lincomb", name.parts, dims, v.src, v.sel_dim, v.species, v.weights, v.transposed))
            self.written[tuple(name.parts)] = (dims, None, None)
            return
        if isinstance(v, Arr):
            if dims is None:
                if not v.named:
                    self.bad(f"array without dimension names: {dump(st)}")
                    return
                names = {"G": [("attr", "global_dimension")], "M": [("attr", "model_dimension")]}
                if not all(d in names for d in v.dims):
                    self.bad(f"DataArray with a label dimension assigned as is: {dump(st)}")
                    return
                dims = [names[d] for d in v.dims]
            ldims = [d for d in v.dims if isinstance(d, tuple) and d[0] == "L"]
            rest = [d for d in v.dims if not (isinstance(d, tuple) and d[0] == "L")]
            if any(isinstance(d, tuple) for d in rest) or len(ldims) > 1 or (ldims and v.dims[-1] != ldims[0]) or len(dims) != len(v.dims) and \
                    not (len(dims) in (len(v.dims) - 1, len(v.dims) + 1) and ldims):
                self.bad(f"dimensions of {dump(st.value)[:120]} do not fit the declared dimensions")
                return
            # which branch of `len(dataset.matrix.shape) == 3` the statement sits in is recorded by the caller
            if ldims:
                self.emit(("var", name.parts, dims, dims[-1], ldims[0][1], None, v.cell))
                self.written[tuple(name.parts)] = (dims, dims[-1], ldims[0][1])
            else:
                self.emit(("var", name.parts, dims, None, None, None, v.cell))
                self.written[tuple(name.parts)] = (dims, None, None)
            return
        if self.tainted(v):
            self.bad(f"variable derived from a tracked array: {dump(st)}"[:300])
            return
        self.untracked.append("".join(p[1] if p[0] == "lit" else "{" + (p[1] if len(p) > 1 else "x") + "}" for p in name.parts))

    def st_For(self, st, env):
        it = self.ev(st.iter, env)
        # ---- for i, label in enumerate(<labels>) / for label in <labels> ------------------------------------
        ll = None
        if isinstance(it, tuple) and it[0] == "enumerate" and isinstance(st.target, ast.Tuple) and len(st.target.elts) == 2 \
                and all(isinstance(e, ast.Name) for e in st.target.elts):
            ll = it[1]
            if ll.parts != [("var",)]:
                ll = None
            else:
                e2 = env
                e2[st.target.elts[0].id] = LoopIndex(ll.src)
                e2[st.target.elts[1].id] = LoopElem(ll.src)
                self.block(st.body, e2)
                return
        # ---- loops over megacomplexes ------------------------------------------------------------------
        if isinstance(it, Opaque) and not it.tainted and isinstance(st.target, ast.Name):
            acc = self.accumulation(st, env, it)
            if acc is not None:
                env[acc[0]] = LabList(acc[1], [("var",)])
                return
            if self.scope is not None:
                self.bad(f"nested loop: for {dump(st.target)} in {dump(st.iter)}")
                return
            self.scope = (st.target.id, it.text)
            e2 = dict(env)
            e2[st.target.id] = McVar(st.target.id, it.text)
            try:
                self.block(st.body, e2)
            finally:
                self.scope = None
            return
        if mentions(st, {"dataset"}) or any(self.tainted(env.get(n.id)) for n in ast.walk(st) if isinstance(n, ast.Name)):
            self.bad(f"loop: for {dump(st.target)} in {dump(st.iter)}")

    def accumulation(self, st, env, outer):
        """the two first-seen accumulation patterns; returns (accumulator name, Labels source) or None"""
        v = st.target.id
        if len(st.body) != 1 or st.orelse:
            return None
        b = st.body[0]
        # (A) for x in v.<inner>: if x not in ACC: ACC.append(x)
        if isinstance(b, ast.For) and isinstance(b.target, ast.Name) and len(b.body) == 1 and isinstance(b.body[0], ast.If) and not b.orelse:
            x = b.target.id
            i = b.body[0]
            if isinstance(i.test, ast.Compare) and len(i.test.ops) == 1 and isinstance(i.test.ops[0], ast.NotIn) and dump(i.test.left) == x \
                    and isinstance(i.test.comparators[0], ast.Name) and not i.orelse and len(i.body) == 1:
                acc = i.test.comparators[0].id
                if dump(i.body[0]) == f"{acc}.append({x})" and isinstance(env.get(acc), LabList) and env[acc].src == ("empty",):
                    inner = self.path(b.iter, {**env, v: McVar(v, outer.text)})
                    if inner is not None and inner.startswith(v + "."):
                        return acc, ("firstSeen", outer.text, None, inner[len(v) + 1:])
        # (B) if isinstance(v, Cls): ACC += [x for x in v.<inner> if x not in ACC]
        if isinstance(b, ast.If) and not b.orelse and len(b.body) == 1 and isinstance(b.test, ast.Call) and dump(b.test.func) == "isinstance" \
                and len(b.test.args) == 2 and dump(b.test.args[0]) == v and isinstance(b.test.args[1], ast.Name):
            a = b.body[0]
            if isinstance(a, ast.AugAssign) and isinstance(a.op, ast.Add) and isinstance(a.target, ast.Name) and isinstance(a.value, ast.ListComp):
                acc, lc = a.target.id, a.value
                g = lc.generators[0]
                if len(lc.generators) == 1 and isinstance(g.target, ast.Name) and dump(lc.elt) == g.target.id and len(g.ifs) == 1 \
                        and dump(g.ifs[0]) == f"{g.target.id} not in {acc}" and isinstance(env.get(acc), LabList) and env[acc].src == ("empty",):
                    inner = self.path(g.iter, {**env, v: McVar(v, outer.text)})
                    if inner is not None and inner.startswith(v + "."):
                        return acc, ("firstSeen", outer.text, b.test.args[1].id, inner[len(v) + 1:])
        return None


def subst_elem(cell, src):
    if cell[0] == "sel":
        return ("sel", cell[1], cell[2], [("var",) if p == ("elem", src) else p for p in cell[3]])
    if cell[0] in ("mul", "add", "hypot", "atan2"):
        return (cell[0], subst_elem(cell[1], src), subst_elem(cell[2], src))
    if cell[0] == "sqrt":
        return ("sqrt", subst_elem(cell[1], src))
    if cell[0] == "unwrap":
        return ("unwrap", cell[1], subst_elem(cell[2], src))
    return cell


# ------------------------------------------------------------------------------------------------------
# running a function in its configurations, merging the two rank branches
# ------------------------------------------------------------------------------------------------------
def run_function(module, cls, fn, is_full_model, as_global):
    out = {}
    for rank3 in (True, False):
        ex = Exec(module, cls, rank3, is_full_model, as_global)
        env = {"dataset": DatasetObj(), "self": Opaque("self"), "dataset_model": Opaque("dataset_model"),
               "is_full_model": Const(is_full_model), "as_global": Const(as_global)}
        for a in fn.args.args:
            env.setdefault(a.arg, Opaque(a.arg))
        try:
            ex.block(strip_doc(fn.body), env)
        except Stop:
            pass
        except RecursionError:
            ex.bad("recursion")
        out[rank3] = ex
    a, b = out[True], out[False]
    steps = []
    if len(a.rows) == len(b.rows):
        for (sa, ra), (sb, rb) in zip(a.rows, b.rows):
            if (sa, ra) == (sb, rb):
                steps.append((sa, ra))
            elif ra[0] == "var" and rb[0] == "var" and sa == sb:
                steps.append((sa, ra[:5] + (True,) + ra[6:]))
                steps.append((sb, rb[:5] + (False,) + rb[6:]))
            else:
                steps.append((sa, ("untranslatable", "the two branches of len(dataset.matrix.shape) == 3 differ in more than a variable")))
    else:
        steps.append((None, ("untranslatable", f"the two branches of len(dataset.matrix.shape) == 3 write {len(a.rows)} / {len(b.rows)} rows")))
    scalars = a.scalars if a.scalars == b.scalars else [("?", ("untranslatable", "scalars differ between the rank branches"))]
    return scalars, steps, sorted(set(a.untracked + b.untracked))


def extract_all(repo: Path):
    tables, untracked = {}, {}
    for key, (rel, cls_name, fname, cfgs) in FUNCTIONS.items():
        for suffix, ifm, ag in cfgs:
            name = f"{key}Finalize{suffix}"
            try:
                module = ast.parse((Path(repo) / rel).read_text())
                cls = None
                body = module.body
                if cls_name is not None:
                    cls = next((n for n in module.body if isinstance(n, ast.ClassDef) and n.name == cls_name), None)
                    body = cls.body if cls is not None else []
                fn = next((n for n in body if isinstance(n, ast.FunctionDef) and n.name == fname), None)
                if fn is None:
                    tables[name] = ([], [(None, ("untranslatable", f"{cls_name or rel}.{fname} not found"))])
                    continue
                # a method that only delegates to a module function of the same name is followed
                scalars, steps, unt = run_function(module, cls, fn, ifm, ag)
                tables[name] = (scalars, steps)
                untracked[name] = unt
            except Exception as e:      # the generator must not crash the check
                tables[name] = ([], [(None, ("untranslatable", f"translator error {type(e).__name__}: {e}"[:300]))])
    return tables, untracked


def delegations(repo: Path):
    """the decay megacomplex classes: does `finalize_data` only call decay/util.py `finalize_data` with its own arguments?"""
    out = {}
    for key, rel, cls_name in (("decay", f"{BASE}/decay/decay_megacomplex.py", "DecayMegacomplex"),
                               ("decayParallel", f"{BASE}/decay/decay_parallel_megacomplex.py", "DecayParallelMegacomplex"),
                               ("decaySequential", f"{BASE}/decay/decay_sequential_megacomplex.py", "DecaySequentialMegacomplex")):
        ok = False
        try:
            module = ast.parse((Path(repo) / rel).read_text())
            cls = next(n for n in module.body if isinstance(n, ast.ClassDef) and n.name == cls_name)
            fn = next(n for n in cls.body if isinstance(n, ast.FunctionDef) and n.name == "finalize_data")
            body = strip_doc(fn.body)
            imported = any(isinstance(n, ast.ImportFrom) and n.module == "glotaran.builtin.megacomplexes.decay.util"
                           and any(a.name == "finalize_data" and a.asname is None for a in n.names) for n in module.body)
            ok = imported and len(body) == 1 and dump(body[0]) == "finalize_data(dataset_model, dataset, is_full_model, as_global)"
        except Exception:
            ok = False
        out[key] = ok
    return out


# ------------------------------------------------------------------------------------------------------
# rendering
# ------------------------------------------------------------------------------------------------------
def lstr(s: str) -> str:
    out = ['"']
    for ch in s:
        if ch == '"':
            out.append('\\"')
        elif ch == "\\":
            out.append("\\\\")
        elif ch == "\n":
            out.append("\\n")
        elif ch == "\t":
            out.append("\\t")
        elif ord(ch) < 32 or ord(ch) > 126:
            out.append("\\u{%x}" % ord(ch))
        else:
            out.append(ch)
    out.append('"')
    return "".join(out)


def r_part(p):
    if p[0] == "lit":
        return f".lit {lstr(p[1])}"
    if p[0] == "var":
        return ".var"
    if p[0] == "attr":
        return f".attr {lstr(p[1])}"
    return f".attr {lstr('<loop element outside its loop: ' + repr(p) + '>')}"


def r_parts(ps):
    return "[" + ", ".join(r_part(p) for p in ps) + "]"


def r_labels(s):
    if s[0] == "attr":
        return f"(.attr {lstr(s[1])})"
    if s[0] == "range1":
        return f"(.range1 {lstr(s[1])})"
    if s[0] == "firstSeen":
        cls = "none" if s[2] is None else f"(some {lstr(s[2])})"
        return f"(.firstSeen {lstr(s[1])} {cls} {lstr(s[3])})"
    return f"(.untranslatable {lstr(repr(s)[:300])})"


def r_src(s):
    if isinstance(s, tuple) and s[0] == "resultVar":
        return f"(.resultVar {r_parts(s[1])})"
    return "." + s


def r_cell(c):
    k = c[0]
    if k == "sel":
        return f"(.sel {r_src(c[1])} {lstr(c[2])} {r_parts(c[3])})"
    if k in ("mul", "add", "hypot", "atan2"):
        return f"(.{k} {r_cell(c[1])} {r_cell(c[2])})"
    if k == "sqrt":
        return f"(.sqrt {r_cell(c[1])})"
    if k == "unwrap":
        return f"(.unwrap .{c[1]} {r_cell(c[2])})"
    if k == "untranslatable":
        return f"(.untranslatable {lstr(c[1][:300])})"
    return f"(.untranslatable {lstr(repr(c)[:300])})"


def r_bool(b):
    return "none" if b is None else f"(some {'true' if b else 'false'})"


def r_row(r):
    k = r[0]
    if k == "coord":
        return f".coord {r_parts(r[1])} {r_labels(r[2])}"
    if k == "coordOn":
        return f".coordOn {r_parts(r[1])} {r_parts(r[2])} {lstr(r[3])}"
    if k == "var":
        ld = "none" if r[3] is None else f"(some ({r_parts(r[3])}, {r_labels(r[4])}))"
        return f".var {r_parts(r[1])} [{', '.join(r_parts(d) for d in r[2])}] {ld} {r_bool(r[5])} {r_cell(r[6])}"
    if k == "lincomb":
        return (f".lincomb {r_parts(r[1])} [{', '.join(r_parts(d) for d in r[2])}] {r_src(r[3])} {lstr(r[4])} {r_labels(r[5])} "
                f"{lstr(r[6])} {'true' if r[7] else 'false'}")
    if k == "guard":
        return f".guard {r_parts(r[1])}"
    if k == "external":
        return f".external {lstr(r[1])}"
    return f".untranslatable {lstr(str(r[1])[:300])}"


def r_scalar(s):
    if s[0] == "ifUnique":
        return f"(.ifUnique {lstr(s[1])} {lstr(s[2])} {r_parts(s[3])} {r_parts(s[4])})"
    if s[0] == "ifEq":
        return f"(.ifEq {r_parts(s[1])} {lstr(s[2])} {r_parts(s[3])} {r_parts(s[4])})"
    if s[0] == "parts":
        return f"(.parts {r_parts(s[1])})"
    return f"(.untranslatable {lstr(str(s[1])[:300])})"


def render(tables, deleg) -> str:
    out = ["/- GENERATED by harness/props/c06.py (generate) from the source text of VERIF_REPO — do not edit.",
           "   The `finalize_data` functions of the builtin megacomplexes, executed symbolically by harness/props/_c06_fin.py:",
           "   which result variable is written with which dimensions, which list labels its label dimension, and which",
           "   expression over columns selected by label is reported under each label (vocabulary: GlotaranModel/C06FinDesc.lean). -/",
           "import GlotaranModel.C06FinDesc", "namespace Glotaran.C06.Generated", "open Glotaran.C06 Glotaran.C06.Fin", ""]
    for name, (scalars, steps) in tables.items():
        out.append(f"def {name} : Fin.Table :=")
        sc = ", ".join(f"({lstr(n)}, {r_scalar(s)})" for n, s in scalars)
        out.append(f"  {{ scalars := [{sc}],")
        out.append("    steps := [")
        lines = []
        for scope, row in steps:
            sc = "none" if scope is None else f"(some ({lstr(scope[0])}, {lstr(scope[1])}))"
            lines.append(f"      ⟨{sc}, {r_row(row)}⟩")
        out.append(",\n".join(lines))
        out.append("    ] }")
        out.append("")
    out.append("/-- `finalize_data` of the three decay megacomplex classes only calls decay/util.py `finalize_data` with its own arguments -/")
    items = ", ".join(f"({lstr(k)}, {'true' if v else 'false'})" for k, v in deleg.items())
    out.append(f"def decayFinalizeDelegations : List (String × Bool) := [{items}]")
    out.append("")
    out.append("end Glotaran.C06.Generated")
    return "\n".join(out) + "\n"


def source_sha1(repo: Path) -> dict:
    files = sorted({v[0] for v in FUNCTIONS.values()} | {f"{BASE}/decay/decay_megacomplex.py", f"{BASE}/decay/decay_parallel_megacomplex.py",
                                                         f"{BASE}/decay/decay_sequential_megacomplex.py"})
    return {f: hashlib.sha1((Path(repo) / f).read_bytes()).hexdigest() for f in files}


def untranslatable_in(tables) -> list:
    bad = []
    for name, (scalars, steps) in tables.items():
        txt = repr((scalars, steps))
        if "untranslatable" in txt:
            bad.append(name)
    return bad
