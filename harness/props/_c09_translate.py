"""C09 — ast -> Lean translator for the alignment functions of DataProviderLinked.

`render(repo)` reads glotaran/optimization/data_provider.py of the given repository, translates
`align_index`, `create_aligned_global_axes`, `align_data`, `align_dataset_indices`, `align_groups`, `align_weights`
into Lean over the vocabulary of lean/GlotaranModel/C09Py.lean and returns (text of Generated/C09Fns.lean, table).
The translator is typed: every emitted expression is type-correct by construction, anything outside the subset (or ill-typed in
it) turns the whole function into `untranslatable "<reason>"` — the file still compiles, the `generated_*_eq_model` theorem of that
function does not.  Nothing here knows what the functions are supposed to compute.
"""
from __future__ import annotations

import ast
import hashlib
from pathlib import Path

SRC_FILE = "glotaran/optimization/data_provider.py"
CLASS = "DataProviderLinked"


class Untranslatable(Exception):
    pass


# ------------------------------------------------------------------------------------------
# types
# ------------------------------------------------------------------------------------------
RAT, NAT, BOOL, STR, METHOD, LIT = "rat", "nat", "bool", "str", "method", "lit"


def L(t):
    return ("list", t)


def O(t):
    return ("opt", t)


def D(t):
    return ("dict", t)


def T(*ts):
    return ("tuple", tuple(ts))


VEC = L(RAT)


def lean_type(t):
    if t == RAT:
        return "Rat"
    if t == NAT:
        return "Nat"
    if t == BOOL:
        return "Bool"
    if t == STR:
        return "String"
    if t == METHOD:
        return "Method"
    k = t[0]
    if k == "list":
        return f"List {paren(lean_type(t[1]))}"
    if k == "opt":
        return f"Option {paren(lean_type(t[1]))}"
    if k == "dict":
        return f"Dict {paren(lean_type(t[1]))}"
    if k == "tuple":
        return " × ".join(paren(lean_type(x)) for x in t[1])
    if k == "da":
        return f"DA {paren(lean_type(t[1]))}"
    if k == "joined":
        return f"Joined {paren(lean_type(t[1]))}"
    if k == "fn":
        return f"{paren(lean_type(t[1]))} → {paren(lean_type(t[2]))}"
    if k == "except":
        return f"Except PyErr {paren(lean_type(t[1]))}"
    raise Untranslatable(f"no Lean type for {t}")


def paren(s):
    if all(c.isalnum() or c in "_." for c in s) or (s.startswith('"') and s.endswith('"') and s.count('"') == 2):
        return s
    if s.startswith("(") and s.endswith(")") or s.startswith("[") and s.endswith("]"):
        depth = 0
        for k, c in enumerate(s):
            depth += c in "([" 
            depth -= c in ")]"
            if depth == 0 and k < len(s) - 1:
                break
        else:
            return s
    return f"({s})"


def default_of(t):
    if t in (RAT, NAT):
        return "0"
    if t == STR:
        return '""'
    if t == BOOL:
        return "false"
    if isinstance(t, tuple) and t[0] in ("list", "dict"):
        return "[]"
    if isinstance(t, tuple) and t[0] == "opt":
        return "none"
    return "default"


# ------------------------------------------------------------------------------------------
# what the functions read besides their parameters (names and types only)
# ------------------------------------------------------------------------------------------
SPECS = {
    "align_index": {
        "params": [("index", RAT), ("target_axis", VEC), ("tolerance", RAT), ("method", METHOD)],
        "ret": RAT, "attrs": {}, "calls": {}, "hints": {},
    },
    "create_aligned_global_axes": {
        "params": [],
        "attrs": {"self._global_axes": ("self_global_axes", D(VEC)),
                  "scheme.clp_link_tolerance": ("scheme_clp_link_tolerance", RAT),
                  "scheme.clp_link_method": ("scheme_clp_link_method", METHOD)},
        "calls": {"self.align_index": ("align_index", [RAT, VEC, RAT, METHOD], RAT)},
        "ret": D(VEC), "raises": True,
        "hints": {"aligned_axis_values": O(VEC), "aligned_global_axes": D(VEC)},
    },
    "align_data": {
        "params": [("aligned_global_axes", D(VEC))],
        "attrs": {"self.get_data": ("self_get_data", ("fn", STR, L(VEC)))},
        "calls": {}, "ret": T(VEC, L(VEC)), "hints": {},
    },
    "align_dataset_indices": {
        "params": [("aligned_global_axes", D(VEC))],
        "attrs": {"self._aligned_global_axis": ("self_aligned_global_axis", VEC)},
        "calls": {}, "ret": L(L(NAT)), "hints": {},
    },
    "align_groups": {
        "params": [("aligned_global_axes", D(VEC))],
        "attrs": {}, "calls": {}, "ret": T(L(STR), D(L(STR))),
        "hints": {"group_definitions": D(L(STR))},
    },
    "align_weights": {
        "params": [("aligned_global_axes", D(VEC))],
        "attrs": {"self._weight": ("self_weight", D(O(L(VEC)))),
                  "self._aligned_global_axis": ("self_aligned_global_axis", VEC),
                  "self._aligned_group_labels": ("self_aligned_group_labels", L(STR)),
                  "self._group_definitions": ("self_group_definitions", D(L(STR))),
                  "self.get_model_axis_size": ("self_get_model_axis_size", ("fn", STR, NAT))},
        "calls": {}, "ret": L(O(VEC)),
        "hints": {"aligned_weights": L(O(VEC)), "index_weights": L(VEC)},
    },
}
ORDER = ["align_index", "create_aligned_global_axes", "align_data", "align_dataset_indices", "align_groups", "align_weights"]


def param_list(spec):
    ps = [(n, t) for n, t in spec["params"]]
    ps += [(ln, t) for ln, t in spec["attrs"].values()]
    # attributes first for methods that read `self` state only through them, in a fixed order: explicit params last
    return [(ln, t) for ln, t in spec["attrs"].values()] + [(n, t) for n, t in spec["params"]] if spec["attrs"] else ps


# ------------------------------------------------------------------------------------------
# translator of one function
# ------------------------------------------------------------------------------------------
class Fn:
    def __init__(self, name, node, spec):
        self.name, self.node, self.spec = name, node, spec
        self.raises = bool(spec.get("raises"))
        self.fresh = 0

    # ---- helpers
    def coerce(self, text, t, want, what="value"):
        """text : t used where `want` is expected"""
        if t == want:
            return text
        if t == LIT and want in (RAT, NAT):
            return text
        if isinstance(want, tuple) and want[0] == "opt":
            if t == ("opt", None):
                return "none"
            return f"(some {paren(self.coerce(text, t, want[1], what))})"
        if t == ("list", ("opt", None)) and isinstance(want, tuple) and want[0] == "list" and isinstance(want[1], tuple) \
                and want[1][0] == "opt":
            return text
        if t == ("list", None) and isinstance(want, tuple) and want[0] in ("list", "dict"):
            return "[]"
        if t == ("dict", None) and isinstance(want, tuple) and want[0] == "dict":
            return "[]"
        raise Untranslatable(f"{what} of type {t} where {want} is expected")

    def num2(self, a, ta, b, tb, what):
        """two scalar operands of a comparison: both rat or both nat"""
        for want in (RAT, NAT):
            if ta in (want, LIT) and tb in (want, LIT) and not (ta == LIT and tb == LIT):
                return a, b, want
        raise Untranslatable(f"{what} between {ta} and {tb}")

    def attr_key(self, node):
        try:
            return ast.unparse(node)
        except Exception:
            return None

    # ---- expressions
    def ex(self, n, env):
        if isinstance(n, ast.Constant):
            if n.value is None:
                return "none", ("opt", None)
            if isinstance(n.value, bool):
                return ("true" if n.value else "false"), BOOL
            if isinstance(n.value, int):
                return str(n.value), LIT
            if isinstance(n.value, float) and n.value == n.value and abs(n.value) != float("inf"):
                from fractions import Fraction
                q = Fraction(n.value)
                return (f"({q.numerator} : Rat)" if q.denominator == 1 else f"({q.numerator}/{q.denominator} : Rat)"), RAT
            if isinstance(n.value, str):
                return '"' + n.value.replace("\\", "\\\\").replace('"', '\\"') + '"', STR
            raise Untranslatable(f"constant {n.value!r}")
        if isinstance(n, ast.Name):
            if n.id in env:
                return env[n.id]
            raise Untranslatable(f"name {n.id} is not bound")
        key = self.attr_key(n)
        if isinstance(n, ast.Attribute):
            if key in self.spec["attrs"]:
                return self.spec["attrs"][key]
            v, t = self.ex(n.value, env)
            if n.attr == "size" and isinstance(t, tuple) and t[0] == "list":
                return f"{paren(v)}.length", NAT
            if n.attr == "data" and isinstance(t, tuple) and t[0] in ("list", "seldata"):
                return v, (t if t[0] == "list" else t[1])
            raise Untranslatable(f"attribute .{n.attr} of {t}")
        if isinstance(n, ast.BinOp):
            return self.binop(n, env)
        if isinstance(n, ast.Compare):
            return self.compare(n, env)
        if isinstance(n, ast.BoolOp):
            parts = []
            for v in n.values:
                a, t = self.ex(v, env)
                if t != BOOL:
                    raise Untranslatable(f"truth value of {t} in and/or")
                parts.append(a)
            op = " && " if isinstance(n.op, ast.And) else " || "
            return "(" + op.join(parts) + ")", BOOL
        if isinstance(n, ast.UnaryOp) and isinstance(n.op, ast.Not):
            a, t = self.ex(n.operand, env)
            if t != BOOL:
                raise Untranslatable(f"not on {t}")
            return f"(!{a})", BOOL
        if isinstance(n, ast.Subscript):
            return self.subscript(n, env)
        if isinstance(n, ast.Call):
            return self.call(n, env)
        if isinstance(n, (ast.ListComp, ast.GeneratorExp)):
            return self.comp(n, env)
        if isinstance(n, ast.DictComp):
            return self.dictcomp(n, env)
        if isinstance(n, ast.List):
            if not n.elts:
                return "[]", ("list", None)
            items = [self.ex(e, env) for e in n.elts]
            t0 = items[0][1]
            if any(t != t0 for _, t in items):
                raise Untranslatable("list display with mixed element types")
            return "[" + ", ".join(a for a, _ in items) + "]", L(t0)
        if isinstance(n, ast.Dict) and not n.keys:
            return "[]", ("dict", None)
        if isinstance(n, ast.Tuple):
            items = [self.ex(e, env) for e in n.elts]
            return "(" + ", ".join(a for a, _ in items) + ")", T(*[t for _, t in items])
        raise Untranslatable(f"expression {type(n).__name__}")

    def binop(self, n, env):
        a, ta = self.ex(n.left, env)
        b, tb = self.ex(n.right, env)
        if isinstance(n.op, ast.Sub):
            if ta == VEC and tb in (RAT, LIT):
                return f"npSubScalar {paren(a)} {paren(b)}", VEC
            if ta in (RAT, LIT) and tb in (RAT, LIT):
                return f"({a} - {b})", RAT
        if isinstance(n.op, ast.Mult):
            # [x] * n
            if isinstance(n.left, ast.List) and len(n.left.elts) == 1 and tb in (NAT, LIT):
                x, tx = self.ex(n.left.elts[0], env)
                return f"List.replicate {paren(b)} {paren(x)}", L(tx)
        raise Untranslatable(f"operator {type(n.op).__name__} on {ta} and {tb}")

    def compare(self, n, env):
        if len(n.ops) != 1:
            raise Untranslatable("chained comparison")
        op, left, right = n.ops[0], n.left, n.comparators[0]
        if isinstance(op, (ast.In, ast.NotIn)):
            k, tk = self.ex(left, env)
            d, td = self.ex(right, env)
            if tk == STR and isinstance(td, tuple) and td[0] == "dict":
                r = f"dictHas {paren(d)} {paren(k)}"
                return (f"(!({r}))" if isinstance(op, ast.NotIn) else f"({r})"), BOOL
            raise Untranslatable(f"membership of {tk} in {td}")
        a, ta = self.ex(left, env)
        b, tb = self.ex(right, env)
        sym = {ast.LtE: "≤", ast.Lt: "<", ast.GtE: "≥", ast.Gt: ">"}
        vecop = {ast.GtE: "npGeScalar", ast.LtE: "npLeScalar", ast.Gt: "npGtScalar", ast.Lt: "npLtScalar"}
        if type(op) in vecop and ta == VEC and tb in (RAT, LIT):
            return f"{vecop[type(op)]} {paren(a)} {paren(b)}", L(BOOL)
        if type(op) in sym:
            a, b, _ = self.num2(a, ta, b, tb, "order comparison")
            return f"decide ({a} {sym[type(op)]} {b})", BOOL
        if isinstance(op, (ast.Eq, ast.NotEq)):
            s = "==" if isinstance(op, ast.Eq) else "!="
            if ta == METHOD and tb == STR and isinstance(right, ast.Constant) and right.value in ("nearest", "backward", "forward"):
                return f"({a} {s} Method.{right.value})", BOOL
            if ta == STR and tb == STR:
                return f"({a} {s} {b})", BOOL
            if ta in (NAT, RAT, LIT) and tb in (NAT, RAT, LIT):
                a, b, _ = self.num2(a, ta, b, tb, "equality")
                return f"({a} {s} {b})", BOOL
        raise Untranslatable(f"comparison {type(op).__name__} between {ta} and {tb}")

    def subscript(self, n, env):
        key = self.attr_key(n)
        # X.coords["global"]
        if isinstance(n.value, ast.Attribute) and n.value.attr == "coords" and isinstance(n.slice, ast.Constant) and n.slice.value == "global":
            v, t = self.ex(n.value.value, env)
            if isinstance(t, tuple) and t[0] == "joined":
                return f"{paren(v)}.coordData", ("seldata", VEC)
            raise Untranslatable(f".coords of {t}")
        v, t = self.ex(n.value, env)
        i, ti = self.ex(n.slice, env)
        if isinstance(t, tuple) and t[0] == "list":
            if ti == L(BOOL):
                return f"npMask {paren(v)} {paren(i)}", t
            if ti in (NAT, LIT):
                return f"{paren(v)}.getD {paren(i)} {default_of(t[1])}", t[1]
        if isinstance(t, tuple) and t[0] == "dict" and ti == STR:
            return f"dictGetD {paren(v)} {paren(i)} {default_of(t[1])}", t[1]
        raise Untranslatable(f"subscript of {t} with {ti} ({key})")

    def global_isel(self, call):
        """X.isel({"global": e}) -> (X node, e node) / None"""
        if (isinstance(call, ast.Call) and isinstance(call.func, ast.Attribute) and call.func.attr in ("isel", "sel")
                and len(call.args) == 1 and isinstance(call.args[0], ast.Dict) and len(call.args[0].keys) == 1
                and isinstance(call.args[0].keys[0], ast.Constant) and call.args[0].keys[0].value == "global"):
            return call.func.value, call.args[0].values[0], call.func.attr
        return None

    def call(self, n, env):
        f = n.func
        key = self.attr_key(f)
        kw = {k.arg: k.value for k in n.keywords}
        if key in self.spec["calls"]:
            lname, argt, ret = self.spec["calls"][key]
            if len(n.args) != len(argt) or kw:
                raise Untranslatable(f"call of {key} with {len(n.args)} arguments")
            args = []
            for a, want in zip(n.args, argt):
                x, t = self.ex(a, env)
                args.append(paren(self.coerce(x, t, want, f"argument of {key}")))
            return f"{lname} " + " ".join(args), ret
        if key in self.spec["attrs"] and self.spec["attrs"][key][1][0] == "fn":
            lname, (_, targ, tret) = self.spec["attrs"][key]
            if len(n.args) != 1 or kw:
                raise Untranslatable(f"call of {key}")
            x, t = self.ex(n.args[0], env)
            return f"{lname} {paren(self.coerce(x, t, targ))}", tret
        # self.get_model_axis(label).size
        if key == "len" and len(n.args) == 1:
            x, t = self.ex(n.args[0], env)
            if isinstance(t, tuple) and t[0] in ("list", "dict"):
                return f"{paren(x)}.length", NAT
            raise Untranslatable(f"len of {t}")
        if key in ("np.abs", "np.unique") and len(n.args) == 1 and not kw:
            x, t = self.ex(n.args[0], env)
            if t == VEC:
                return f"{'npAbs' if key == 'np.abs' else 'npUnique'} {paren(x)}", VEC
            raise Untranslatable(f"{key} of {t}")
        if key == "np.concatenate" and len(n.args) == 1 and not kw:
            x, t = self.ex(n.args[0], env)
            if t == L(VEC):
                return f"List.flatten {paren(x)}", VEC
            raise Untranslatable(f"np.concatenate of {t}")
        if key == "np.ones" and len(n.args) == 1 and not kw:
            x, t = self.ex(n.args[0], env)
            if t in (NAT, LIT):
                return f"List.replicate {paren(x)} (1 : Rat)", VEC
        if key == "np.full" and len(n.args) == 2 and not kw:
            x, t = self.ex(n.args[0], env)
            y, ty = self.ex(n.args[1], env)
            if t in (NAT, LIT) and ty in (STR, RAT):
                return f"List.replicate {paren(x)} {paren(y)}", L(ty)
        if key == "np.arange" and len(n.args) == 1 and set(kw) <= {"dtype"}:
            x, t = self.ex(n.args[0], env)
            if t in (NAT, LIT):
                return f"List.range {paren(x)}", L(NAT)
        if key == "np.asarray" and len(n.args) == 1 and not kw:
            return self.ex(n.args[0], env)
        if key in ("tuple", "list") and len(n.args) == 1 and not kw:
            x, t = self.ex(n.args[0], env)
            if isinstance(t, tuple) and t[0] == "list":
                return x, t
            raise Untranslatable(f"{key}() of {t}")
        if key == "filter" and len(n.args) == 2 and isinstance(n.args[0], ast.Lambda) and len(n.args[0].args.args) == 1:
            xs, t = self.ex(n.args[1], env)
            if not (isinstance(t, tuple) and t[0] == "list"):
                raise Untranslatable(f"filter over {t}")
            v = n.args[0].args.args[0].arg
            c, tc = self.ex(n.args[0].body, dict(env, **{v: (v, t[1])}))
            if tc != BOOL:
                raise Untranslatable("filter predicate is not a bool")
            return f"{paren(xs)}.filter (fun {v} => {c})", t
        if key == "any" and len(n.args) == 1 and isinstance(n.args[0], ast.GeneratorExp):
            g = n.args[0]
            if len(g.generators) == 1 and not g.generators[0].ifs and isinstance(g.generators[0].target, ast.Name):
                xs, t = self.ex(g.generators[0].iter, env)
                if isinstance(t, tuple) and t[0] == "list":
                    v = g.generators[0].target.id
                    c, tc = self.ex(g.elt, dict(env, **{v: (v, t[1])}))
                    if tc == BOOL:
                        return f"{paren(xs)}.any (fun {v} => {c})", BOOL
            raise Untranslatable("any() over this generator")
        if key == "xr.DataArray":
            return self.dataarray(n, env, kw)
        if key == "xr.concat":
            return self.concat(n, env, kw)
        if isinstance(f, ast.Attribute):
            # "".join(x.to_numpy().flatten())
            if f.attr == "join" and isinstance(f.value, ast.Constant) and f.value.value == "" and len(n.args) == 1:
                x, t = self.ex(n.args[0], env)
                if t == L(STR):
                    return f"String.join {paren(x)}", STR
                raise Untranslatable(f'"".join of {t}')
            if f.attr in ("to_numpy", "flatten") and not n.args and not kw:
                x, t = self.ex(f.value, env)
                if isinstance(t, tuple) and t[0] == "list":
                    return x, t
                raise Untranslatable(f".{f.attr}() of {t}")
            if f.attr in ("min", "argmin") and not n.args and not kw:
                x, t = self.ex(f.value, env)
                if t == VEC:
                    return (f"npMin {paren(x)}", RAT) if f.attr == "min" else (f"npArgmin {paren(x)}", NAT)
                raise Untranslatable(f".{f.attr}() of {t}")
            if f.attr == "astype" and len(n.args) == 1 and self.attr_key(n.args[0]) == "int":
                x, t = self.ex(f.value, env)
                if t == L(NAT):
                    return x, t
                raise Untranslatable(f".astype(int) of {t}")
            if f.attr == "dropna" and set(kw) == {"dim"} and not n.args:
                g = self.global_isel(f.value)
                if g and g[2] == "isel":
                    x, t = self.ex(g[0], env)
                    i, ti = self.ex(g[1], env)
                    if isinstance(t, tuple) and t[0] == "joined" and ti in (NAT, LIT) and t[2]["fill"] is None:
                        dim = kw["dim"].value if isinstance(kw["dim"], ast.Constant) else None
                        if dim != t[2]["dim"]:
                            raise Untranslatable(f"dropna along {dim!r} of an array concatenated along {t[2]['dim']!r}")
                        if t[2]["stacked"]:
                            return f"List.flatten ({paren(x)}.iselDropna {paren(i)})", ("seldata", t[1])
                        return f"{paren(x)}.iselDropna {paren(i)}", ("seldata", L(t[1]))
                raise Untranslatable("dropna on this expression")
            g = self.global_isel(n)
            if g:
                x, t = self.ex(g[0], env)
                i, ti = self.ex(g[1], env)
                if g[2] == "isel" and isinstance(t, tuple) and t[0] == "joined" and ti in (NAT, LIT) and t[2]["fill"] is not None \
                        and not t[2]["stacked"]:
                    return f"{paren(x)}.iselData {paren(i)}", ("seldata", L(t[1]))
                if g[2] == "sel" and isinstance(t, tuple) and t[0] == "da" and ti == RAT:
                    return f"DA.sel {paren(x)} {paren(i)}", ("seldata", t[1] if not t[2] else VEC)
                raise Untranslatable(f".{g[2]} on {t} with {ti}")
        raise Untranslatable(f"call of {key}")

    def dataarray(self, n, env, kw):
        if len(n.args) != 1 or set(kw) != {"dims", "coords"}:
            raise Untranslatable("xr.DataArray with this argument form")
        dims = kw["dims"]
        if not (isinstance(dims, ast.List) and all(isinstance(e, ast.Constant) for e in dims.elts)):
            raise Untranslatable("dims of xr.DataArray")
        dims = [e.value for e in dims.elts]
        co = kw["coords"]
        if not (isinstance(co, ast.Dict) and len(co.keys) == 1 and isinstance(co.keys[0], ast.Constant) and co.keys[0].value == "global"):
            raise Untranslatable("coords of xr.DataArray")
        c, tc = self.ex(co.values[0], env)
        if tc != VEC:
            raise Untranslatable(f"global coordinate of type {tc}")
        v, tv = self.ex(n.args[0], env)
        if dims == ["global"] and isinstance(tv, tuple) and tv[0] == "list":
            return f"DA.mk {paren(v)} {paren(c)}", ("da", tv[1], ())
        if dims == ["model", "global"] and tv == L(VEC):
            return f"DA.mk {paren(v)} {paren(c)}", ("da", VEC, ("model",))
        raise Untranslatable(f"xr.DataArray of {tv} with dims {dims}")

    def concat(self, n, env, kw):
        if len(n.args) != 1 or not set(kw) <= {"dim", "fill_value"} or "dim" not in kw or not isinstance(kw["dim"], ast.Constant):
            raise Untranslatable("xr.concat with this argument form")
        xs, t = self.ex(n.args[0], env)
        if not (isinstance(t, tuple) and t[0] == "list" and isinstance(t[1], tuple) and t[1][0] == "da"):
            raise Untranslatable(f"xr.concat of {t}")
        da = t[1]
        dim = kw["dim"].value
        if dim == "global":
            raise Untranslatable("xr.concat along the joined dimension")
        info = {"dim": dim, "stacked": dim in da[2], "fill": None}
        if "fill_value" in kw:
            fv, tf = self.ex(kw["fill_value"], env)
            fv = self.coerce(fv, tf, da[1], "fill value")
            info["fill"] = fv
            return f"xrConcatFill {paren(xs)} {paren(fv)}", ("joined", da[1], info)
        return f"xrConcat {paren(xs)}", ("joined", da[1], info)

    def iter_binding(self, target, it, env):
        """`for target in it` -> (list text, lambda variable, [let lines], env additions, kind)"""
        # d.items() / d.values()
        if isinstance(it, ast.Call) and isinstance(it.func, ast.Attribute) and it.func.attr in ("items", "values") and not it.args:
            d, td = self.ex(it.func.value, env)
            if not (isinstance(td, tuple) and td[0] == "dict"):
                raise Untranslatable(f".{it.func.attr}() of {td}")
            if it.func.attr == "items":
                if not (isinstance(target, ast.Tuple) and len(target.elts) == 2 and all(isinstance(e, ast.Name) for e in target.elts)):
                    raise Untranslatable("target of a loop over .items()")
                k, v = target.elts[0].id, target.elts[1].id
                return d, "kv", [f"let {k} := kv.1", f"let {v} := kv.2"], {k: (k, STR), v: (v, td[1])}
            if not isinstance(target, ast.Name):
                raise Untranslatable("target of a loop over .values()")
            return d, "kv", [f"let {target.id} := kv.2"], {target.id: (target.id, td[1])}
        if isinstance(it, ast.Call) and self.attr_key(it.func) == "range" and len(it.args) == 1 and isinstance(target, ast.Name):
            x, t = self.ex(it.args[0], env)
            if t in (NAT, LIT):
                return f"List.range {paren(x)}", target.id, [], {target.id: (target.id, NAT)}
            raise Untranslatable(f"range of {t}")
        # X.groupby("global", squeeze=False)
        if (isinstance(it, ast.Call) and isinstance(it.func, ast.Attribute) and it.func.attr == "groupby" and len(it.args) == 1
                and isinstance(it.args[0], ast.Constant) and it.args[0].value == "global"
                and isinstance(target, ast.Tuple) and len(target.elts) == 2 and all(isinstance(e, ast.Name) for e in target.elts)
                and target.elts[0].id == "_"):
            x, t = self.ex(it.func.value, env)
            if isinstance(t, tuple) and t[0] == "joined" and t[2]["fill"] is not None and not t[2]["stacked"]:
                v = target.elts[1].id
                return f"{paren(x)}.groupbyGlobal", v, [], {v: (v, L(t[1]))}
            raise Untranslatable(f"groupby of {t}")
        if isinstance(target, ast.Name):
            x, t = self.ex(it, env)
            if isinstance(t, tuple) and t[0] == "list" and t[1] is not None:
                return x, target.id, [], {target.id: (target.id, t[1])}
            raise Untranslatable(f"iteration over {t}")
        raise Untranslatable("this loop header")

    def comp(self, n, env):
        if len(n.generators) != 1 or n.generators[0].ifs:
            raise Untranslatable("comprehension with several generators or a condition")
        g = n.generators[0]
        xs, var, lets, add = self.iter_binding(g.target, g.iter, env)
        e, te = self.ex(n.elt, dict(env, **add))
        if isinstance(te, tuple) and te[0] == "seldata":
            te = te[1]
        body = " ".join(l + ";" for l in lets) + (" " if lets else "") + e
        return f"{paren(xs)}.map (fun {var} => {body})", L(te)

    def dictcomp(self, n, env):
        if len(n.generators) != 1:
            raise Untranslatable("dict comprehension with several generators")
        g = n.generators[0]
        xs, var, lets, add = self.iter_binding(g.target, g.iter, env)
        if not (isinstance(g.iter, ast.Call) and isinstance(g.iter.func, ast.Attribute) and g.iter.func.attr == "items"):
            raise Untranslatable("dict comprehension over something else than .items() (keys may repeat)")
        env2 = dict(env, **add)
        k, tk = self.ex(n.key, env2)
        if tk != STR or k != g.target.elts[0].id:
            raise Untranslatable("dict comprehension whose key is not the key of the iterated dict")
        if not g.ifs:
            v, tv = self.ex(n.value, env2)
            return f"{paren(xs)}.map (fun kv => {' '.join(l + ';' for l in lets)} ({k}, {v}))", D(tv)
        if len(g.ifs) == 1:
            c = g.ifs[0]
            if (isinstance(c, ast.Compare) and len(c.ops) == 1 and isinstance(c.ops[0], ast.IsNot) and isinstance(c.left, ast.Name)
                    and isinstance(c.comparators[0], ast.Constant) and c.comparators[0].value is None and c.left.id in add):
                x = c.left.id
                tx = add[x][1]
                if isinstance(tx, tuple) and tx[0] == "opt" and x == g.target.elts[1].id:
                    env3 = dict(env2, **{x: (x, tx[1])})
                    v, tv = self.ex(n.value, env3)
                    return (f"{paren(xs)}.filterMap (fun kv => let {k} := kv.1; (kv.2).map (fun {x} => ({k}, {v})))", D(tv))
        raise Untranslatable("condition of the dict comprehension")

    # ---- statements
    @staticmethod
    def assigned(stmts):
        """names assigned (also through d[k] = …, x.append(…)) in a statement list, in order of first occurrence"""
        out = []

        def add(x):
            if x not in out:
                out.append(x)

        def walk(ss):
            for s in ss:
                if isinstance(s, (ast.Assign, ast.AnnAssign, ast.AugAssign)):
                    tg = s.targets if isinstance(s, ast.Assign) else [s.target]
                    for t in tg:
                        while isinstance(t, ast.Subscript):
                            t = t.value
                        if isinstance(t, ast.Name):
                            add(t.id)
                        elif isinstance(t, ast.Tuple):
                            for e in t.elts:
                                if isinstance(e, ast.Name):
                                    add(e.id)
                elif isinstance(s, ast.Expr) and isinstance(s.value, ast.Call) and isinstance(s.value.func, ast.Attribute) \
                        and s.value.func.attr in ("append", "extend", "sort", "update", "pop") and isinstance(s.value.func.value, ast.Name):
                    add(s.value.func.value.id)
                elif isinstance(s, ast.If):
                    walk(s.body)
                    walk(s.orelse)
                elif isinstance(s, (ast.For, ast.While)):
                    walk(s.body)
                    walk(s.orelse)
        walk(stmts)
        return out

    @staticmethod
    def may_raise(stmts):
        return any(isinstance(x, ast.Raise) for s in stmts for x in ast.walk(s))

    def tuple_of(self, outs, env, types):
        items = [self.coerce(env[o][0], env[o][1], types[o], f"variable {o}") for o in outs]
        return items[0] if len(items) == 1 else "(" + ", ".join(items) + ")"

    @staticmethod
    def proj(k, n):
        if n == 1:
            return ""
        return ".2" * k + (".1" if k < n - 1 else "")

    def unpack(self, outs, src, ind):
        return "".join(f"{ind}let {o} := {src}{self.proj(k, len(outs))}\n" for k, o in enumerate(outs))

    def is_none_test(self, test, env):
        if (isinstance(test, ast.Compare) and len(test.ops) == 1 and isinstance(test.ops[0], (ast.Is, ast.IsNot))
                and isinstance(test.left, ast.Name) and isinstance(test.comparators[0], ast.Constant)
                and test.comparators[0].value is None):
            x = test.left.id
            if x in env and isinstance(env[x][1], tuple) and env[x][1][0] == "opt" and env[x][1][1] is not None:
                return x, isinstance(test.ops[0], ast.Is)
            raise Untranslatable(f"`is None` test on {x}")
        return None

    def cond(self, test, env):
        c, t = self.ex(test, env)
        if t == BOOL:
            return c
        if isinstance(t, tuple) and t[0] in ("dict", "list"):
            return f"(!{paren(c)}.isEmpty)"
        raise Untranslatable(f"truth value of {t}")

    def block(self, stmts, env, ind, exc, tail):
        """Lean term text (starting at indentation `ind`, first line not indented by the caller's context) for: run `stmts`,
        then `tail(env)`.  `exc`: the term is an `Except PyErr _`."""
        env = dict(env)
        if not stmts:
            return ind + tail(env) + "\n"
        s, rest = stmts[0], stmts[1:]
        cont = lambda e: self.block(rest, e, ind, exc, tail)  # noqa: E731
        if isinstance(s, ast.Expr) and isinstance(s.value, ast.Constant) and isinstance(s.value.value, str):
            return cont(env)      # docstring
        if isinstance(s, ast.Return):
            if s.value is None:
                raise Untranslatable("return without a value")
            v, t = self.ex(s.value, env)
            if isinstance(t, tuple) and t[0] == "tuple":
                want = self.spec["ret"]
                if not (want[0] == "tuple" and len(want[1]) == len(t[1])):
                    raise Untranslatable(f"returns {t}")
                parts = [self.ex(e, env) for e in s.value.elts] if isinstance(s.value, ast.Tuple) else None
                if parts is None:
                    raise Untranslatable("returns a tuple-valued expression")
                v = "(" + ", ".join(self.coerce(a, (ta[1] if isinstance(ta, tuple) and ta[0] == "seldata" else ta), w, "returned value")
                                    for (a, ta), w in zip(parts, want[1])) + ")"
            else:
                if isinstance(t, tuple) and t[0] == "seldata":
                    t = t[1]
                v = self.coerce(v, t, self.spec["ret"], "returned value")
            return ind + (f"Except.ok {paren(v)}" if exc else v) + "\n"
        if isinstance(s, ast.Raise):
            if not exc:
                raise Untranslatable("raise in a function that is not expected to raise")
            if isinstance(s.exc, ast.Call) and self.attr_key(s.exc.func) == "AlignDatasetError" and not s.exc.args:
                return ind + "Except.error PyErr.alignDataset\n"
            raise Untranslatable("raise of something else than AlignDatasetError()")
        if isinstance(s, (ast.Assign, ast.AnnAssign)):
            if isinstance(s, ast.Assign) and len(s.targets) != 1:
                raise Untranslatable("chained assignment")
            tg = s.targets[0] if isinstance(s, ast.Assign) else s.target
            if s.value is None:
                raise Untranslatable("annotation without a value")
            v, t = self.ex(s.value, env)
            if isinstance(t, tuple) and t[0] == "seldata":
                t = t[1]
            if isinstance(tg, ast.Name):
                x = tg.id
                hint = self.spec["hints"].get(x)
                if t in (("opt", None), ("list", None), ("dict", None), ("list", ("opt", None))) or (hint is not None and x not in env):
                    if hint is None:
                        raise Untranslatable(f"type of {x} is not determined by its initial value")
                    v = self.coerce(v, t, hint, f"initial value of {x}")
                    env[x] = (x, hint)
                    return f"{ind}let {x} : {lean_type(hint)} := {v}\n" + cont(env)
                if t == LIT:
                    raise Untranslatable(f"integer literal assigned to {x}")
                env[x] = (x, t)
                return f"{ind}let {x} := {v}\n" + cont(env)
            if isinstance(tg, ast.Subscript) and isinstance(tg.value, ast.Name) and tg.value.id in env:
                x = tg.value.id
                xt = env[x][1]
                i, ti = self.ex(tg.slice, env)
                if isinstance(xt, tuple) and xt[0] == "dict" and ti == STR:
                    v = self.coerce(v, t, xt[1], f"value stored into {x}")
                    return f"{ind}let {x} := dictSet {env[x][0]} {paren(i)} {paren(v)}\n" + cont(env)
                if isinstance(xt, tuple) and xt[0] == "list" and ti in (NAT, LIT) and x in self.locals_:
                    v = self.coerce(v, t, xt[1], f"value stored into {x}")
                    return f"{ind}let {x} := {env[x][0]}.set {paren(i)} {paren(v)}\n" + cont(env)
                raise Untranslatable(f"store into {x}[…] ({'an array the function did not create' if x not in self.locals_ else xt})")
            raise Untranslatable("assignment target")
        if isinstance(s, ast.Expr) and isinstance(s.value, ast.Call) and isinstance(s.value.func, ast.Attribute) \
                and s.value.func.attr == "append" and isinstance(s.value.func.value, ast.Name) and len(s.value.args) == 1:
            x = s.value.func.value.id
            if x not in env or x not in self.locals_ or not (isinstance(env[x][1], tuple) and env[x][1][0] == "list"):
                raise Untranslatable(f"append to {x}")
            v, t = self.ex(s.value.args[0], env)
            if isinstance(t, tuple) and t[0] == "seldata":
                t = t[1]
            v = self.coerce(v, t, env[x][1][1], f"value appended to {x}")
            return f"{ind}let {x} := {env[x][0]} ++ [{v}]\n" + cont(env)
        if isinstance(s, ast.If):
            return self.if_stmt(s, rest, env, ind, exc, tail)
        if isinstance(s, ast.For):
            return self.for_stmt(s, rest, env, ind, exc, tail)
        raise Untranslatable(f"statement {type(s).__name__}")

    def branch_outs(self, s, env):
        a_then, a_else = self.assigned(s.body), self.assigned(s.orelse)
        outs = [x for x in a_then + [y for y in a_else if y not in a_then]
                if x in env or (x in a_then and x in a_else)]
        return outs

    def if_stmt(self, s, rest, env, ind, exc, tail):
        i2, i4 = ind + "  ", ind + "    "
        raising = self.may_raise([s])
        nt = self.is_none_test(s.test, env)
        outs = self.branch_outs(s, env)
        # `if c: …; raise` without else: the rest of the block is the else branch
        if raising and not s.orelse and isinstance(s.body[-1], ast.Raise) and nt is None:
            c = self.cond(s.test, env)
            return (f"{ind}if {c} then\n" + self.block(s.body, env, i2, exc, tail) + f"{ind}else\n"
                    + self.block(rest, env, i2, exc, tail))
        if raising and not exc:
            raise Untranslatable("raise in a function that is not expected to raise")
        types = {}
        for o in outs:
            types[o] = env[o][1] if o in env else None
        if any(t is None for t in types.values()):
            # defined in both branches only: type of the first branch, determined below
            pass
        results = {}

        def branch_tail(which):
            def f(e):
                for o in outs:
                    if types[o] is None:
                        types[o] = e[o][1]
                results[which] = dict(e)
                t = self.tuple_of(outs, e, types)
                return f"Except.ok {paren(t)}" if raising else t
            return f

        if not outs:
            raise Untranslatable("if statement without effect on the translated state")
        if nt is not None:
            x, is_none = nt
            inner = env[x][1][1]
            env_none = dict(env)
            env_some = dict(env, **{x: (x, inner)})
            b_none, b_some = (s.body, s.orelse) if is_none else (s.orelse, s.body)
            t_none = self.block(b_none, env_none, i4, raising, branch_tail("none"))
            t_some = self.block(b_some, env_some, i4, raising, branch_tail("some"))
            head = f"match {env[x][0]} with\n{i2}| none =>\n{t_none}{i2}| some {x} =>\n{t_some}"
        else:
            c = self.cond(s.test, env)
            t_then = self.block(s.body, env, i4, raising, branch_tail("then"))
            t_else = self.block(s.orelse, env, i4, raising, branch_tail("else"))
            head = f"if {c} then\n{t_then}{i2}else\n{t_else}"
        env2 = dict(env)
        for o in outs:
            env2[o] = (o, types[o])
        head = head.rstrip("\n")
        if raising:
            body = self.unpack(outs, "st", i2) if len(outs) > 1 else ""
            var = "st" if len(outs) > 1 else outs[0]
            return (f"{ind}bindE ({head}) (fun {var} =>\n" + body + self.block(rest, env2, i2, exc, tail).rstrip("\n") + ")\n")
        if len(outs) == 1:
            return f"{ind}let {outs[0]} := {head}\n" + self.block(rest, env2, ind, exc, tail)
        return f"{ind}let st := {head}\n" + self.unpack(outs, "st", ind) + self.block(rest, env2, ind, exc, tail)

    def for_stmt(self, s, rest, env, ind, exc, tail):
        if s.orelse:
            raise Untranslatable("for … else")
        i2 = ind + "  "
        raising = self.may_raise(s.body)
        if raising and not exc:
            raise Untranslatable("raise in a function that is not expected to raise")
        state = [x for x in self.assigned(s.body) if x in env]
        if not state:
            raise Untranslatable("loop without effect on the translated state")
        types = {x: env[x][1] for x in state}
        enum = None
        it, target = s.iter, s.target
        if isinstance(it, ast.Call) and self.attr_key(it.func) == "enumerate" and len(it.args) == 1 \
                and isinstance(target, ast.Tuple) and len(target.elts) == 2 and all(isinstance(e, ast.Name) for e in target.elts):
            enum = target.elts[0].id
            it, target = it.args[0], target.elts[1]
        xs, var, lets, add = self.iter_binding(target, it, env)
        for name in list(add) + ([enum] if enum else []):
            if name in state:
                raise Untranslatable(f"loop variable {name} is assigned in the loop")
        env_b = dict(env, **add)
        if enum:
            env_b[enum] = (enum, NAT)
        sv = state[0] if len(state) == 1 else "st"
        pre = (self.unpack(state, "st", i2) if len(state) > 1 else "") + "".join(f"{i2}{l}\n" for l in lets)

        def body_tail(e):
            t = self.tuple_of(state, e, types)
            return f"Except.ok {paren(t)}" if raising else t

        body = pre + self.block(s.body, env_b, i2, raising, body_tail).rstrip("\n")
        init = self.tuple_of(state, env, types)
        env2 = dict(env)
        if raising:
            if enum:
                raise Untranslatable("enumerate loop that raises")
            after = self.unpack(state, "st", i2) if len(state) > 1 else ""
            return (f"{ind}bindE (foldlE {paren(xs)} {paren(init)} (fun {sv} {var} =>\n{body})) (fun {sv} =>\n{after}"
                    + self.block(rest, env2, i2, exc, tail).rstrip("\n") + ")\n")
        if enum:
            loop = f"enumFold {paren(xs)} {paren(init)} (fun {enum} {var} {sv} =>\n{body})"
        else:
            loop = f"{paren(xs)}.foldl (fun {sv} {var} =>\n{body}) {paren(init)}"
        if len(state) == 1:
            return f"{ind}let {state[0]} := {loop}\n" + self.block(rest, env2, ind, exc, tail)
        return f"{ind}let st := {loop}\n" + self.unpack(state, "st", ind) + self.block(rest, env2, ind, exc, tail)

    def render(self):
        spec = self.spec
        params = param_list(spec)
        ret = ("except", spec["ret"]) if self.raises else spec["ret"]
        head = f"def {self.name} " + " ".join(f"({n} : {lean_type(t)})" for n, t in params) + f" : {lean_type(ret)} :="
        env = {n: (n, t) for n, t in spec["params"]}
        argnames = [a.arg for a in self.node.args.args if a.arg != "self"]
        # every Python parameter must be known: either a typed parameter or read only through the attribute table
        for a in argnames:
            if a not in env and not any(k.split(".")[0] == a for k in spec["attrs"]):
                raise Untranslatable(f"parameter {a} is not in the signature table")
        self.locals_ = set(self.assigned(self.node.body)) - {n for n, _ in spec["params"]}
        # a local that shadows a parameter and is stored into is an in-place write into the caller's array
        body = self.block(self.node.body, env, "  ", self.raises, lambda e: (_ for _ in ()).throw(Untranslatable("no return at the end")))
        return head + "\n" + body


def preprocess(fn_node):
    """`self.get_model_axis(label).size` is a function of the label in the signature table"""
    class R(ast.NodeTransformer):
        def visit_Attribute(self, node):
            self.generic_visit(node)
            if (node.attr == "size" and isinstance(node.value, ast.Call) and isinstance(node.value.func, ast.Attribute)
                    and ast.unparse(node.value.func) == "self.get_model_axis" and len(node.value.args) == 1):
                return ast.Call(func=ast.Attribute(value=ast.Name(id="self", ctx=ast.Load()), attr="get_model_axis_size", ctx=ast.Load()),
                                args=node.value.args, keywords=[])
            return node
    return ast.fix_missing_locations(R().visit(fn_node))


def find_functions(repo):
    src = (Path(repo) / SRC_FILE).read_text()
    tree = ast.parse(src)
    out = {}
    for node in tree.body:
        if isinstance(node, ast.ClassDef) and node.name == CLASS:
            for f in node.body:
                if isinstance(f, ast.FunctionDef) and f.name in SPECS:
                    out[f.name] = f
    return out, src


def source_sha1(repo):
    return hashlib.sha1((Path(repo) / SRC_FILE).read_bytes()).hexdigest()


HEADER = """/-
GENERATED by harness/props/_c09_translate.py (c09.generate) from the source of VERIF_REPO — do not edit.
Function-level translation of the alignment functions of DataProviderLinked (glotaran/optimization/data_provider.py)
over the vocabulary of GlotaranModel/C09Py.lean.
-/
import GlotaranModel.C09Py
namespace Glotaran.C09.Gen
open Glotaran.C09

"""


def stub(name, reason):
    spec = SPECS[name]
    ret = ("except", spec["ret"]) if spec.get("raises") else spec["ret"]
    reason = reason.replace("\\", "\\\\").replace('"', "'")
    return (f"def {name} " + " ".join(f"({n} : {lean_type(t)})" for n, t in param_list(spec))
            + f" : {lean_type(ret)} :=\n  untranslatable \"{reason}\"\n")


def render(repo, reject=None):
    """-> (text, table).  `reject`: {function name: reason} forces a stub (used when Lean rejected a translation)"""
    try:
        fns, _ = find_functions(repo)
    except (OSError, SyntaxError) as e:
        fns = {}
        missing = f"source not readable: {type(e).__name__}"
    else:
        missing = "function not found in class " + CLASS
    parts, table = [], []
    for name in ORDER:
        node = fns.get(name)
        row = {"function": name, "source": f"{SRC_FILE}:{node.lineno if node else '?'}"}
        try:
            if reject and name in reject:
                raise Untranslatable(reject[name])
            if node is None:
                raise Untranslatable(missing)
            text = Fn(name, preprocess(node), SPECS[name]).render()
            row["status"] = "translated"
        except Untranslatable as e:
            text = stub(name, str(e))
            row["status"] = "untranslatable: " + str(e)
        except Exception as e:  # a translator bug must not crash the check
            text = stub(name, f"translator error {type(e).__name__}: {e}")
            row["status"] = f"untranslatable: translator error {type(e).__name__}: {e}"
        parts.append(f"/-- {row['source']} `{name}` -/\n" + text)
        table.append(row)
    return HEADER + "\n".join(parts) + "\nend Glotaran.C09.Gen\n", table
