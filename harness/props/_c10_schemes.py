"""C10 helper: schemes built from glotaran's BUILTIN kinetic megacomplexes (decay with and without IRF — the numba
kernels —, coherent artifact, damped oscillation, spectral global model), plus penalties / relations / constraints /
scales / weights / expression, non-negative and fixed parameters.

Every builder returns a FRESH scheme (fresh model, parameters, data): nothing is shared between two builds.
Data are deterministic functions of the scheme name (closed-form decays + a fixed pseudo-noise pattern), no RNG.
"""
from __future__ import annotations

import numpy as np

NAMES = [
    "par-noirf", "seq-irf", "disp-irf", "shift-irf", "linked-two", "unlinked-two-pen", "artifact-osc",
    "full-model", "expr-nonneg", "backsweep", "two-groups-nnls", "expr-forward", "multi-irf-indep", "expr-forward-rate",
]
#: schemes with finite parameter bounds (scipy's 'lm' does not support bounds)
BOUNDED = {"expr-nonneg"}
#: extra vectors for the walks: {free label: value}; for "expr-forward" aux.c = 1 makes `1/$aux.b` raise
SPECIAL_VECTORS = {"expr-forward": [{"aux.c": 1.0}, {"aux.c": 2.0}]}
#: a megacomplex whose matrix does not depend on the parameters (baseline: a column of ones) combined with a
#: `megacomplex_scale` that is not a power of two (MatrixProvider.calculate_dataset_matrix scales the megacomplex output
#: IN PLACE: a matrix object that outlives the evaluation would be scaled once more per evaluation), next to a dataset
#: with the same model axis that does not scale its baseline (seeded change C10-8: the baseline matrix came from a cache)
NAMES.append("baseline-mcscale")
#: schemes for the history-length stream of c10.py (`history_stream`): {name: (min, max) number of evaluations of the walk};
#: scaled megacomplexes / datasets — state that survives an evaluation is multiplied once per evaluation, so it shows on
#: rounding level after one evaluation and leaves the double range after log(1e-324)/log(scale) evaluations
HISTORY_NAMES = {"baseline-mcscale": (330, 420), "linked-two": (40, 60), "unlinked-two-pen": (40, 60)}


def _time_axis(n=24):
    a = np.linspace(-0.6, 0.6, n // 2, endpoint=False)
    b = np.geomspace(0.6, 12.0, n - n // 2)
    return np.concatenate([a, b])


def _noise(shape, k):
    i = np.arange(int(np.prod(shape)), dtype=np.float64).reshape(shape)
    return 0.01 * np.sin(1.7 * i + 0.3 * k) + 0.005 * np.cos(0.37 * i * (k + 1))


def _decay_data(t, g, rates, k=0, center=0.0):
    """time x spectral data: sum_j step(t-center) exp(-r_j (t-center)) * s_j(g) + deterministic 'noise'"""
    import xarray as xr

    tt = np.clip(t - center, 0, None)
    c = np.stack([np.where(t >= center, np.exp(-r * tt), 0.0) for r in rates], axis=1)
    s = np.stack([1.0 + 0.5 * np.sin(0.01 * (j + 1) * g + j) for j in range(len(rates))], axis=0)
    d = c @ s + _noise((t.size, g.size), k)
    return xr.DataArray(d, coords=[("time", t), ("spectral", g)]).to_dataset(name="data")


def build(name: str, method: str = "TrustRegionReflection", max_nfev: int = 4, add_svd: bool = False):
    from glotaran.io import load_model
    from glotaran.io import load_parameters
    from glotaran.project import Scheme

    t = _time_axis()
    g3 = np.array([400.0, 450.0, 500.0])
    g4 = np.array([400.0, 430.0, 460.0, 500.0])
    kw = {}
    if name == "par-noirf":
        model = """
megacomplex:
  m1: {type: decay-parallel, compartments: [s1, s2], rates: [rates.1, rates.2]}
dataset:
  d1: {megacomplex: [m1]}
"""
        pars = """
rates:
  - ['1', 0.9]
  - ['2', 0.15]
"""
        tt = np.linspace(0.0, 8.0, 21)
        data = {"d1": _decay_data(tt, g4, [1.0, 0.2])}
    elif name == "seq-irf":
        model = """
megacomplex:
  m1: {type: decay-sequential, compartments: [s1, s2, s3], rates: [rates.1, rates.2, rates.3]}
irf:
  irf1: {type: gaussian, center: irf.center, width: irf.width}
dataset:
  d1: {megacomplex: [m1], irf: irf1}
"""
        pars = """
rates:
  - ['1', 2.1]
  - ['2', 0.6]
  - ['3', 0.11]
irf:
  - ['center', 0.05]
  - ['width', 0.12]
"""
        data = {"d1": _decay_data(t, g4, [2.0, 0.5, 0.1], 1)}
    elif name == "disp-irf":
        model = """
default_megacomplex: decay
megacomplex:
  m1: {k_matrix: [k1]}
k_matrix:
  k1:
    matrix:
      (s2, s1): kin.1
      (s2, s2): kin.2
initial_concentration:
  j1: {compartments: [s1, s2], parameters: [j.1, j.0]}
irf:
  irf1:
    type: spectral-multi-gaussian
    center: [irf.center1, irf.center2]
    width: [irf.width]
    scale: [irf.scale1, irf.scale2]
    dispersion_center: irf.dispc
    center_dispersion_coefficients: [irf.cdc1, irf.cdc2]
    width_dispersion_coefficients: [irf.wdc1]
dataset:
  d1: {megacomplex: [m1], initial_concentration: j1, irf: irf1}
"""
        pars = """
kin:
  - ['1', 1.4]
  - ['2', 0.25]
j:
  - ['1', 1, {vary: false, non-negative: false}]
  - ['0', 0, {vary: false, non-negative: false}]
irf:
  - ['center1', 0.02]
  - ['center2', 0.3]
  - ['width', 0.1]
  - ['scale1', 1, {vary: false}]
  - ['scale2', 0.2]
  - ['dispc', 450, {vary: false}]
  - ['cdc1', 0.1]
  - ['cdc2', 0.01]
  - ['wdc1', 0.02]
"""
        data = {"d1": _decay_data(t, g4, [1.5, 0.3], 2)}
    elif name == "shift-irf":
        model = """
megacomplex:
  m1: {type: decay-parallel, compartments: [s1, s2], rates: [rates.1, rates.2]}
irf:
  irf1:
    type: multi-gaussian
    center: [irf.center]
    width: [irf.width, irf.width2]
    scale: [irf.scale1, irf.scale2]
    shift: [shift.1, shift.2, shift.3]
    normalize: false
dataset:
  d1: {megacomplex: [m1], irf: irf1}
"""
        pars = """
rates:
  - ['1', 1.7]
  - ['2', 0.21]
irf:
  - ['center', 0.1]
  - ['width', 0.1]
  - ['width2', 0.3]
  - ['scale1', 1, {vary: false}]
  - ['scale2', 0.1]
shift:
  - ['1', 0.0, {vary: false}]
  - ['2', 0.05]
  - ['3', -0.02]
"""
        data = {"d1": _decay_data(t, g3, [1.5, 0.2], 3)}
    elif name == "multi-irf-indep":
        # index-INDEPENDENT multi-Gaussian IRF with two distinct centres: the single-index kernel is called directly from
        # Python and both Gaussians accumulate into the same matrix entries (seeded change C10-3: that kernel compiled
        # with parallel=True over the Gaussians)
        model = """
megacomplex:
  m1: {type: decay-parallel, compartments: [s1, s2, s3], rates: [rates.1, rates.2, rates.3]}
irf:
  irf1:
    type: multi-gaussian
    center: [irf.center1, irf.center2]
    width: [irf.width1, irf.width2]
    scale: [irf.scale1, irf.scale2]
dataset:
  d1: {megacomplex: [m1], irf: irf1}
"""
        pars = """
rates:
  - ['1', 1.7]
  - ['2', 0.21]
  - ['3', 0.05]
irf:
  - ['center1', 0.05]
  - ['center2', 0.45]
  - ['width1', 0.1]
  - ['width2', 0.25]
  - ['scale1', 1, {vary: false}]
  - ['scale2', 0.4]
"""
        data = {"d1": _decay_data(t, g3, [1.5, 0.2, 0.04], 5)}
    elif name in ("linked-two", "unlinked-two-pen"):
        link = "true" if name == "linked-two" else "false"
        model = f"""
dataset_groups:
  default: {{link_clp: {link}}}
megacomplex:
  m1: {{type: decay-sequential, compartments: [s1, s2, s3], rates: [rates.1, rates.2, rates.3]}}
  m2: {{type: decay-parallel, compartments: [s1, s2, s3], rates: [rates.1, rates.2, rates.3]}}
irf:
  irf1: {{type: gaussian, center: irf.center, width: irf.width}}
  irf2: {{type: gaussian, center: irf.center2, width: irf.width}}
dataset:
  d1: {{megacomplex: [m1], irf: irf1}}
  d2: {{megacomplex: [m2], irf: irf2, scale: scale.2}}
clp_penalties:
  - {{type: equal_area, source: s1, source_intervals: [[400, 460]], target: s2, target_intervals: [[430, 520]], parameter: pen.1, weight: 0.3}}
clp_relations:
  - {{source: s1, target: s3, parameter: rel.1, interval: [[440, 480]]}}
clp_constraints:
  - {{type: zero, target: s2, interval: [[300, 410]]}}
weights:
  - {{datasets: [d1], global_interval: [420, 470], model_interval: [0, 3], value: 0.5}}
"""
        pars = """
rates:
  - ['1', 2.2]
  - ['2', 0.55]
  - ['3', 0.09]
irf:
  - ['center', 0.05]
  - ['center2', 0.02]
  - ['width', 0.15]
scale:
  - ['2', 1.5]
pen:
  - ['1', 1.1]
rel:
  - ['1', 0.4]
"""
        data = {"d1": _decay_data(t, g4, [2.0, 0.5, 0.1], 4), "d2": _decay_data(t[2:], np.array([430.0, 460.0, 490.0, 520.0]), [2.0, 0.5, 0.1], 5)}
        kw = {"clp_link_tolerance": 1.0}
    elif name == "artifact-osc":
        model = """
megacomplex:
  m1: {type: decay-parallel, compartments: [s1, s2], rates: [rates.1, rates.2]}
  m2: {type: coherent-artifact, order: 3}
  m3: {type: damped-oscillation, labels: [osc1, osc2], frequencies: [osc.f1, osc.f2], rates: [osc.r1, osc.r2]}
irf:
  irf1: {type: gaussian, center: irf.center, width: irf.width}
dataset:
  d1: {megacomplex: [m1, m2, m3], megacomplex_scale: [mcs.1, mcs.2, mcs.3], irf: irf1}
"""
        pars = """
rates:
  - ['1', 1.9]
  - ['2', 0.3]
irf:
  - ['center', 0.05]
  - ['width', 0.12]
osc:
  - ['f1', 25.0]
  - ['f2', 60.0]
  - ['r1', 0.4]
  - ['r2', 0.9]
mcs:
  - ['1', 1.0, {vary: false}]
  - ['2', 0.5]
  - ['3', 2.0, {vary: false}]
"""
        tt = np.linspace(-0.5, 3.0, 40)
        data = {"d1": _decay_data(tt, g3, [2.0, 0.3], 6)}
    elif name == "full-model":
        model = """
megacomplex:
  m1: {type: decay-parallel, compartments: [s1, s2], rates: [rates.1, rates.2]}
  g1: {type: spectral, shape: {s1: sh1, s2: sh2}}
shape:
  sh1: {type: gaussian, amplitude: shapes.a1, location: shapes.l1, width: shapes.w1}
  sh2: {type: gaussian, amplitude: shapes.a2, location: shapes.l2, width: shapes.w2}
irf:
  irf1: {type: gaussian, center: irf.center, width: irf.width}
dataset:
  d1: {megacomplex: [m1], global_megacomplex: [g1], irf: irf1}
"""
        pars = """
rates:
  - ['1', 1.2]
  - ['2', 0.2]
irf:
  - ['center', 0.05]
  - ['width', 0.12]
shapes:
  - ['a1', 1.0, {vary: false}]
  - ['l1', 420.0]
  - ['w1', 40.0]
  - ['a2', 2.0, {vary: false}]
  - ['l2', 480.0]
  - ['w2', 30.0]
"""
        data = {"d1": _decay_data(t, g4, [1.0, 0.2], 7)}
    elif name == "expr-nonneg":
        model = """
megacomplex:
  m1: {type: decay-sequential, compartments: [s1, s2, s3], rates: [rates.1, rates.2, rates.3]}
irf:
  irf1: {type: gaussian, center: irf.center, width: irf.width}
dataset:
  d1: {megacomplex: [m1], irf: irf1}
"""
        pars = """
rates:
  - ['1', 2.1, {non-negative: true, min: 0.01, max: 20}]
  - ['2', 0.7, {expr: '$rates.3 * 5 + $fix.1'}]
  - ['3', 0.12, {non-negative: true}]
fix:
  - ['1', 0.1, {vary: false}]
irf:
  - ['center', 0.05, {min: -1, max: 1}]
  - ['width', 0.12, {vary: false}]
"""
        data = {"d1": _decay_data(t, g3, [2.0, 0.5, 0.1], 8)}
    elif name == "backsweep":
        model = """
megacomplex:
  m1: {type: decay-parallel, compartments: [s1, s2], rates: [rates.1, rates.2]}
irf:
  irf1: {type: multi-gaussian, center: [irf.center], width: [irf.width], backsweep: true, backsweep_period: irf.period}
dataset:
  d1: {megacomplex: [m1], irf: irf1}
"""
        pars = """
rates:
  - ['1', 1.3]
  - ['2', 0.08]
irf:
  - ['center', 0.05]
  - ['width', 0.12]
  - ['period', 13.0, {vary: false}]
"""
        data = {"d1": _decay_data(t, g3, [1.5, 0.1], 9)}
    elif name == "two-groups-nnls":
        model = """
dataset_groups:
  ga: {}
  gb: {residual_function: non_negative_least_squares}
megacomplex:
  m1: {type: decay-parallel, compartments: [s1, s2], rates: [rates.1, rates.2]}
  m2: {type: decay-sequential, compartments: [s1, s2], rates: [rates.1, rates.3]}
  b1: {type: baseline, dimension: time}
irf:
  irf1: {type: gaussian, center: irf.center, width: irf.width}
dataset:
  d1: {group: ga, megacomplex: [m1], irf: irf1}
  d2: {group: gb, megacomplex: [m2, b1]}
  d3: {group: ga, megacomplex: [m1]}
clp_penalties:
  - {type: equal_area, source: s1, source_intervals: [[400, 500]], target: s2, target_intervals: [[400, 500]], parameter: pen.1, weight: 0.2}
"""
        pars = """
rates:
  - ['1', 1.6]
  - ['2', 0.3]
  - ['3', 0.45]
irf:
  - ['center', 0.05]
  - ['width', 0.12]
pen:
  - ['1', 0.9]
"""
        tt = np.linspace(0.0, 6.0, 17)
        data = {"d1": _decay_data(t, g3, [1.5, 0.3], 10), "d2": _decay_data(tt, g4, [1.5, 0.4], 11),
                "d3": _decay_data(tt, np.array([410.0, 470.0]), [1.5, 0.3], 12)}
    elif name == "expr-forward":
        # aux.a refers to aux.b which is declared AFTER it and refers to the free aux.c
        model = """
megacomplex:
  m1: {type: decay-parallel, compartments: [s1, s2], rates: [rates.1, rates.2]}
irf:
  irf1: {type: gaussian, center: irf.center, width: irf.width}
dataset:
  d1: {megacomplex: [m1], irf: irf1, scale: aux.a}
"""
        pars = """
rates:
  - ['1', 1.4]
  - ['2', 0.25]
irf:
  - ['center', 0.05, {vary: false}]
  - ['width', 0.12, {vary: false}]
aux:
  - ['a', 2.5, {expr: '2 + 1/$aux.b'}]
  - ['b', 2.0, {expr: '$aux.c - 1'}]
  - ['c', 3.0]
"""
        data = {"d1": _decay_data(t, g3, [1.5, 0.3], 13)}
    elif name == "expr-forward-rate":
        # a RATE is an expression of an expression parameter declared after it, which depends on a free rate: a stale
        # value changes the model matrix and the penalty (a stale dataset scale, as in "expr-forward", does not)
        model = """
megacomplex:
  m1: {type: decay-parallel, compartments: [s1, s2], rates: [rates.1, rates.2]}
irf:
  irf1: {type: gaussian, center: irf.center, width: irf.width}
dataset:
  d1: {megacomplex: [m1], irf: irf1}
"""
        pars = """
rates:
  - ['1', 1.4]
  - ['2', 0.3, {expr: '$aux.b * 0.5'}]
irf:
  - ['center', 0.05]
  - ['width', 0.12, {vary: false}]
aux:
  - ['b', 0.6, {expr: '$rates.1 * 0.4 + 0.04'}]
"""
        data = {"d1": _decay_data(t, g3, [1.5, 0.3], 17)}
    elif name == "baseline-mcscale":
        model = """
dataset_groups:
  default: {link_clp: false}
megacomplex:
  m1: {type: decay-parallel, compartments: [s1, s2], rates: [rates.1, rates.2]}
  b1: {type: baseline, dimension: time}
irf:
  irf1: {type: gaussian, center: irf.center, width: irf.width}
dataset:
  d1: {megacomplex: [m1, b1], megacomplex_scale: [mcs.1, mcs.2], irf: irf1}
  d2: {megacomplex: [m1, b1], irf: irf1}
"""
        pars = """
rates:
  - ['1', 0.9]
  - ['2', 0.15]
irf:
  - ['center', 0.05]
  - ['width', 0.12, {vary: false}]
mcs:
  - ['1', 1.0, {vary: false}]
  - ['2', 0.1, {vary: false}]
"""
        tt = _time_axis(20)
        data = {"d1": _decay_data(tt, g4, [1.0, 0.2], 18), "d2": _decay_data(tt, g3, [1.0, 0.2], 19)}
        data["d1"]["data"] = data["d1"].data + 0.25          # the offsets the baselines fit
        data["d2"]["data"] = data["d2"].data + 0.1
    else:
        raise KeyError(name)
    m = load_model(model, format_name="yml_str")
    p = load_parameters(pars, format_name="yml_str")
    return Scheme(model=m, parameters=p, data=data, optimization_method=method,
                  maximum_number_function_evaluations=max_nfev, add_svd=add_svd, **kw)
