"""C05 — function-level translator: Python `ast` of the decay kernels / glue  ->  Lean functions.

Regenerates lean/GlotaranModel/Generated/C05Fns.lean from the source of VERIF_REPO on every run.  The theorems
`generated_*_eq_model*` of GlotaranProofs/Props/C05.lean equate every generated function with the hand-written
model definition the driver executes, so an edit of the source re-opens a proof obligation.

Translated subset (anything else makes the function `untranslatable "<reason>"`, a default value with which the
file still compiles and the function's theorem no longer does — never a crash, never a silent default):

  kernels (numba loop nests):   nested `for v in range(n) / nb.prange(n)` with `n` = `a.size` / `a.shape[0]`;
      scalar assignments (also tuple assignments) of arithmetic over array reads `a[i]`, parameters, module
      constants, float / int literals, `np.exp`, `np.sqrt(2)`, `abs`, `erf` / `erfcx` (resolved through the module's
      ctypes bindings to scipy's `__pyx_fuse_1erf` / `__pyx_fuse_1erfcx`); comparisons and `and` / `or` / `not`;
      `if / else`; stores `m[i, j] = e`, `m[i, j] += e` (also `-=`, `*=`, `/=`); calls of another translated kernel
      whose first argument is the output array or a slice `m[i]` of it.
      Scalar temporaries are INLINED at their uses, so hoisting / renaming a common subexpression does not change
      the generated text.  A scalar assigned inside a loop that is already bound outside it (loop-carried value)
      is refused.
  glue (util.py `decay_matrix_implementation_*`) and irf.py `parameter` / `is_index_dependent` /
      `calculate_dispersion`: see the pattern translators further down (each documents its subset).

Doubles: every literal becomes the exact rational of the double (`float.as_integer_ratio`), array reads and
scalar parameters are exact rationals embedded with `Num.ofRat`; `+ - * /`, unary minus, `exp`, `erf`, `erfcx`,
`abs`, `<` are the operations of the abstract number class (`Num` / `NumOrd`).
"""
from __future__ import annotations

import ast
import hashlib
from pathlib import Path

KERNEL_FILE = "glotaran/builtin/megacomplexes/decay/decay_matrix_gaussian_irf.py"
UTIL_FILE = "glotaran/builtin/megacomplexes/decay/util.py"
IRF_FILE = "glotaran/builtin/megacomplexes/decay/irf.py"

LEAN_KEYWORDS = {"at", "from", "end", "fun", "let", "in", "do", "then", "else", "if", "match", "with", "where", "have",
                 "show", "by", "open", "namespace", "section", "def", "theorem", "instance", "structure", "class",
                 "import", "for", "return", "mut", "Type", "Prop", "Sort", "local", "prefix", "infix", "notation"}


class Untranslatable(Exception):
    pass


def ident(name: str) -> str:
    return f"«{name}»" if name in LEAN_KEYWORDS else name


def lean_str(s: str) -> str:
    return '"' + s.replace("\\", "\\\\").replace('"', '\\"').replace("\n", " ") + '"'


def rat_of(v) -> str:
    """exact rational of a Python int / float literal, as Lean `Rat` syntax"""
    if isinstance(v, bool):
        raise Untranslatable("boolean literal in arithmetic")
    if isinstance(v, int):
        return str(v) if v >= 0 else f"({v})"
    if isinstance(v, float):
        if v != v or v in (float("inf"), float("-inf")):
            raise Untranslatable("non-finite float literal")
        p, q = v.as_integer_ratio()
        if q == 1:
            return str(p) if p >= 0 else f"({p})"
        return f"({p}/{q})"
    raise Untranslatable(f"literal of type {type(v).__name__}")


def dotted(node) -> str | None:
    if isinstance(node, ast.Name):
        return node.id
    if isinstance(node, ast.Attribute):
        b = dotted(node.value)
        return None if b is None else f"{b}.{node.attr}"
    return None


# ------------------------------------------------------------------------------------------
# module context: constants and the erf / erfcx bindings
# ------------------------------------------------------------------------------------------
class Module:
    def __init__(self, path: Path):
        self.path = path
        self.src = path.read_text() if path.exists() else ""
        try:
            self.tree = ast.parse(self.src)
        except SyntaxError:
            self.tree = ast.Module(body=[], type_ignores=[])
        self.assigns = {}
        self.funcs = {}
        self.classes = {}
        for st in self.tree.body:
            if isinstance(st, ast.Assign) and len(st.targets) == 1 and isinstance(st.targets[0], ast.Name):
                self.assigns[st.targets[0].id] = st.value
            elif isinstance(st, ast.FunctionDef):
                self.funcs[st.name] = st
            elif isinstance(st, ast.ClassDef):
                self.classes[st.name] = st

    def special_function(self, name: str) -> str | None:
        """`erf = functype(erf_addr)`, `erf_addr = get_cython_function_address("scipy.special.cython_special",
        "__pyx_fuse_1erf")`  ->  "erf"; likewise erfcx"""
        v = self.assigns.get(name)
        if not (isinstance(v, ast.Call) and len(v.args) == 1 and isinstance(v.args[0], ast.Name)):
            return None
        a = self.assigns.get(v.args[0].id)
        if not (isinstance(a, ast.Call) and dotted(a.func) == "get_cython_function_address" and len(a.args) == 2
                and all(isinstance(x, ast.Constant) and isinstance(x.value, str) for x in a.args)):
            return None
        if a.args[0].value != "scipy.special.cython_special":
            return None
        return {"__pyx_fuse_1erf": "erf", "__pyx_fuse_1erfcx": "erfcx"}.get(a.args[1].value)


# ------------------------------------------------------------------------------------------
# kernels
# ------------------------------------------------------------------------------------------
# parameter kinds: mat (2-D output array, the threaded state), mat3 (3-D output array), vec (1-D input), vec2 (2-D input,
# read by rows), bool, scalar (a double)
KIND_TYPE = {"mat": "Mat α", "mat3": "List (Mat α)", "vec": "List Rat", "vec2": "List (List Rat)", "bool": "Bool",
             "scalar": "Rat"}

KERNELS = {
    "calculate_decay_matrix_gaussian_irf_on_index": (KERNEL_FILE, [
        ("matrix", "mat"), ("rates", "vec"), ("times", "vec"), ("centers", "vec"), ("widths", "vec"), ("scales", "vec"),
        ("backsweep", "bool"), ("backsweep_period", "scalar")]),
    "calculate_decay_matrix_gaussian_irf": (KERNEL_FILE, [
        ("matrix", "mat3"), ("rates", "vec"), ("times", "vec"), ("all_centers", "vec2"), ("all_widths", "vec2"),
        ("scales", "vec"), ("backsweep", "bool"), ("backsweep_period", "scalar")]),
    "calculate_decay_matrix_no_irf": (UTIL_FILE, [("matrix", "mat"), ("rates", "vec"), ("times", "vec")]),
}


class KernelTranslator:
    """one numba kernel -> the body of a Lean function (a string)"""

    def __init__(self, mod: Module, fn: ast.FunctionDef, params, known_kernels):
        self.mod, self.fn, self.params = mod, fn, dict(params)
        self.state = params[0][0]                 # the output array
        self.state_kind = params[0][1]
        self.known = known_kernels
        # env: python name -> (kind, lean expression); kinds: num, bool, idx, vec
        self.env = {}

    # -- expressions ----------------------------------------------------------------------------
    def nat(self, e) -> str:
        if isinstance(e, ast.Name) and self.env.get(e.id, (None,))[0] == "idx":
            return ident(e.id)
        if isinstance(e, ast.Constant) and isinstance(e.value, int) and not isinstance(e.value, bool) and e.value >= 0:
            return str(e.value)
        raise Untranslatable(f"index expression `{ast.unparse(e)}`")

    def length(self, e) -> str:
        """`a.size`, `a.shape[0]` of an array parameter (or of a row of a vec2)"""
        if isinstance(e, ast.Attribute) and e.attr == "size":
            return f"{self.vec(e.value)}.length"
        if isinstance(e, ast.Subscript) and isinstance(e.value, ast.Attribute) and e.value.attr == "shape" \
                and isinstance(e.slice, ast.Constant) and e.slice.value == 0:
            a = e.value.value
            if isinstance(a, ast.Name) and self.params.get(a.id) in ("vec", "vec2", "mat3", "mat") and a.id not in self.env:
                return f"{ident(a.id)}.length"
        if isinstance(e, ast.Call) and dotted(e.func) == "len" and len(e.args) == 1:
            return f"{self.vec(e.args[0])}.length"
        raise Untranslatable(f"loop bound `{ast.unparse(e)}`")

    def vec(self, e) -> str:
        """an expression denoting a 1-D input array"""
        if isinstance(e, ast.Name):
            if e.id in self.env:
                k, v = self.env[e.id]
                if k == "vec":
                    return v
                raise Untranslatable(f"`{e.id}` is not an array")
            if self.params.get(e.id) == "vec":
                return ident(e.id)
        if isinstance(e, ast.Subscript) and isinstance(e.value, ast.Name) and self.params.get(e.value.id) == "vec2" \
                and e.value.id not in self.env:
            return f"({ident(e.value.id)}.getD {self.nat(e.slice)} [])"
        raise Untranslatable(f"array expression `{ast.unparse(e)}`")

    def num(self, e) -> str:
        if isinstance(e, ast.Constant):
            return f"(Num.ofRat {rat_of(e.value)})"
        if isinstance(e, ast.Name):
            if e.id in self.env:
                k, v = self.env[e.id]
                if k == "num":
                    return v
                raise Untranslatable(f"`{e.id}` ({k}) used as a number")
            if self.params.get(e.id) == "scalar":
                return f"(Num.ofRat {ident(e.id)})"
            if e.id in self.params:
                raise Untranslatable(f"parameter `{e.id}` ({self.params[e.id]}) used as a number")
            if e.id in self.mod.assigns:
                return self.module_constant(e.id)
            raise Untranslatable(f"unbound name `{e.id}`")
        if isinstance(e, ast.BinOp):
            op = {ast.Add: "add", ast.Sub: "sub", ast.Mult: "mul", ast.Div: "div"}.get(type(e.op))
            if op is None:
                raise Untranslatable(f"operator `{type(e.op).__name__}`")
            return f"(Num.{op} {self.num(e.left)} {self.num(e.right)})"
        if isinstance(e, ast.UnaryOp):
            if isinstance(e.op, ast.USub):
                return f"(Num.neg {self.num(e.operand)})"
            if isinstance(e.op, ast.UAdd):
                return self.num(e.operand)
            raise Untranslatable(f"unary operator `{type(e.op).__name__}`")
        if isinstance(e, ast.Subscript):
            if isinstance(e.value, ast.Name) and e.value.id == self.state:
                raise Untranslatable("the output array is read in an expression")
            return f"(Num.ofRat ({self.vec(e.value)}.getD {self.nat(e.slice)} 0))"
        if isinstance(e, ast.Call):
            f = dotted(e.func)
            if e.keywords:
                raise Untranslatable(f"keyword arguments in `{ast.unparse(e)}`")
            if f in ("np.exp", "numpy.exp", "math.exp") and len(e.args) == 1:
                return f"(Num.exp {self.num(e.args[0])})"
            if f in ("np.sqrt", "numpy.sqrt", "math.sqrt") and len(e.args) == 1:
                a = e.args[0]
                if isinstance(a, ast.Constant) and a.value in (2, 2.0) and not isinstance(a.value, bool):
                    return "Num.sqrt2"
                raise Untranslatable(f"`{ast.unparse(e)}` (only sqrt(2) is in the number class)")
            if f in ("abs", "np.abs", "numpy.abs", "math.fabs") and len(e.args) == 1:
                return f"(NumOrd.abs {self.num(e.args[0])})"
            if f is not None and "." not in f and f not in self.env and len(e.args) == 1:
                sp = self.mod.special_function(f)
                if sp is not None:
                    return f"(Num.{sp} {self.num(e.args[0])})"
            raise Untranslatable(f"call `{ast.unparse(e)[:60]}`")
        raise Untranslatable(f"expression `{ast.unparse(e)[:60]}`")

    def module_constant(self, name: str) -> str:
        v = self.mod.assigns[name]
        saved, self.env = self.env, {}
        try:
            return self.num(v)
        finally:
            self.env = saved

    def boolean(self, e) -> str:
        if isinstance(e, ast.Constant) and isinstance(e.value, bool):
            return "true" if e.value else "false"
        if isinstance(e, ast.Name):
            if e.id in self.env:
                k, v = self.env[e.id]
                if k == "bool":
                    return v
                raise Untranslatable(f"`{e.id}` ({k}) used as a truth value")
            if self.params.get(e.id) == "bool":
                return ident(e.id)
            raise Untranslatable(f"`{e.id}` used as a truth value")
        if isinstance(e, ast.BoolOp):
            op = " && " if isinstance(e.op, ast.And) else " || "
            return "(" + op.join(self.boolean(v) for v in e.values) + ")"
        if isinstance(e, ast.UnaryOp) and isinstance(e.op, ast.Not):
            return f"(!{self.boolean(e.operand)})"
        if isinstance(e, ast.Compare) and len(e.ops) == 1:
            a, b = self.num(e.left), self.num(e.comparators[0])
            op = type(e.ops[0])
            if op is ast.Lt:
                return f"(NumOrd.lt (α := α) {a} {b})"
            if op is ast.Gt:
                return f"(NumOrd.lt (α := α) {b} {a})"
            if op is ast.LtE:
                return f"(!(NumOrd.lt (α := α) {b} {a}))"
            if op is ast.GtE:
                return f"(!(NumOrd.lt (α := α) {a} {b}))"
            raise Untranslatable(f"comparison `{ast.unparse(e)}`")
        raise Untranslatable(f"condition `{ast.unparse(e)[:60]}`")

    def value(self, e):
        """(kind, lean) of the right-hand side of a scalar assignment"""
        if isinstance(e, (ast.Compare, ast.BoolOp)) or (isinstance(e, ast.UnaryOp) and isinstance(e.op, ast.Not)) \
                or (isinstance(e, ast.Constant) and isinstance(e.value, bool)):
            return "bool", self.boolean(e)
        if isinstance(e, ast.Name) and (self.env.get(e.id, (None,))[0] == "bool" or
                                        (e.id not in self.env and self.params.get(e.id) == "bool")):
            return "bool", self.boolean(e)
        return "num", self.num(e)

    # -- statements -----------------------------------------------------------------------------
    def store_fn(self, op, e) -> str:
        rhs = self.num(e)
        if op is None:
            return f"(fun _ => {rhs})"
        name = {ast.Add: "add", ast.Sub: "sub", ast.Mult: "mul", ast.Div: "div"}.get(type(op))
        if name is None:
            raise Untranslatable(f"augmented store `{type(op).__name__}`")
        return f"(fun x => Num.{name} x {rhs})"

    def store(self, target, op, e, ind) -> str:
        s = ident(self.state)
        if self.state_kind != "mat":
            raise Untranslatable("element store into a 3-D array")
        if not (isinstance(target, ast.Subscript) and isinstance(target.value, ast.Name) and target.value.id == self.state
                and isinstance(target.slice, ast.Tuple) and len(target.slice.elts) == 2):
            raise Untranslatable(f"store `{ast.unparse(target)}`")
        i, j = (self.nat(x) for x in target.slice.elts)
        return f"matUpd {s} {i} {j} {self.store_fn(op, e)}"

    def assign_scalar(self, name: str, kv, loop_bound):
        if name == self.state or name in self.params:
            raise Untranslatable(f"parameter `{name}` is reassigned")
        if name in loop_bound:
            raise Untranslatable(f"`{name}` is assigned inside a loop but bound outside it (loop-carried value)")
        self.env[name] = kv

    def block(self, stmts, ind, loop_bound, top=False) -> str:
        """the statements as an expression of the state's type; `loop_bound` = names bound outside the innermost loop"""
        s = ident(self.state)
        pad = " " * ind
        lines = []
        for st in stmts:
            if isinstance(st, ast.Expr) and isinstance(st.value, ast.Constant) and isinstance(st.value.value, str):
                continue
            if isinstance(st, ast.Pass):
                continue
            if isinstance(st, ast.Return) and (st.value is None or (isinstance(st.value, ast.Constant) and st.value.value is None)):
                if not (top and st is stmts[-1]):
                    raise Untranslatable("early return")
                continue
            if isinstance(st, ast.Assign) and len(st.targets) == 1:
                t = st.targets[0]
                if isinstance(t, ast.Name):
                    self.assign_scalar(t.id, self.value(st.value), loop_bound or ())
                    continue
                if isinstance(t, ast.Tuple) and isinstance(st.value, ast.Tuple) and len(t.elts) == len(st.value.elts) \
                        and all(isinstance(x, ast.Name) for x in t.elts):
                    vals = [self.value(v) for v in st.value.elts]         # right-hand sides first (Python semantics)
                    for x, kv in zip(t.elts, vals):
                        self.assign_scalar(x.id, kv, loop_bound or ())
                    continue
                if isinstance(t, ast.Subscript):
                    lines.append(f"{pad}let {s} := {self.store(t, None, st.value, ind)}")
                    continue
                raise Untranslatable(f"assignment `{ast.unparse(st)[:60]}`")
            if isinstance(st, ast.AugAssign):
                if isinstance(st.target, ast.Subscript):
                    lines.append(f"{pad}let {s} := {self.store(st.target, st.op, st.value, ind)}")
                    continue
                if isinstance(st.target, ast.Name) and st.target.id == self.state and isinstance(st.op, ast.Div):
                    f = "matDivScalar" if self.state_kind == "mat" else "slabDivScalar"
                    lines.append(f"{pad}let {s} := {f} {s} {self.num(st.value)}")
                    continue
                raise Untranslatable(f"augmented assignment `{ast.unparse(st)[:60]}`")
            if isinstance(st, ast.For):
                if st.orelse or not isinstance(st.target, ast.Name):
                    raise Untranslatable("for loop with else / tuple target")
                it = st.iter
                if not (isinstance(it, ast.Call) and dotted(it.func) in ("range", "nb.prange", "numba.prange", "prange")
                        and len(it.args) == 1 and not it.keywords):
                    raise Untranslatable(f"loop over `{ast.unparse(it)[:40]}`")
                n = self.length(it.args[0])
                v = st.target.id
                if v in self.env or v in self.params:
                    raise Untranslatable(f"loop variable `{v}` shadows a name")
                saved = dict(self.env)
                self.env[v] = ("idx", ident(v))
                body = self.block(st.body, ind + 2, set(saved) | {v})
                self.env = saved
                lines.append(f"{pad}let {s} := forRange {n} {s} (fun {ident(v)} {s} =>\n{body})")
                continue
            if isinstance(st, ast.If):
                c = self.boolean(st.test)
                saved = dict(self.env)
                b1 = self.block(st.body, ind + 2, loop_bound)
                env1, self.env = self.env, dict(saved)
                b2 = self.block(st.orelse, ind + 2, loop_bound)
                env2 = self.env
                merged = dict(saved)
                for name in sorted(set(env1) | set(env2)):
                    a, b = env1.get(name), env2.get(name)
                    if a == b:
                        if a is not None:
                            merged[name] = a
                    elif a is not None and b is not None and a[0] == b[0] and a[0] in ("num", "bool"):
                        merged[name] = (a[0], f"(if {c} then {a[1]} else {b[1]})")
                    elif name in saved:
                        raise Untranslatable(f"`{name}` changes kind in a branch")
                    # a name bound in one branch only stays unbound afterwards (its use would be refused)
                self.env = merged
                lines.append(f"{pad}let {s} := if {c} then\n{b1}\n{pad}else\n{b2}")
                continue
            if isinstance(st, ast.Expr) and isinstance(st.value, ast.Call):
                lines.append(f"{pad}let {s} := {self.kernel_call(st.value)}")
                continue
            raise Untranslatable(f"statement `{ast.unparse(st)[:60]}`")
        lines.append(f"{pad}{s}")
        return "\n".join(lines)

    def kernel_call(self, call) -> str:
        f = dotted(call.func)
        if f not in self.known or call.keywords:
            raise Untranslatable(f"call `{ast.unparse(call)[:60]}`")
        params = self.known[f]
        if len(call.args) != len(params):
            raise Untranslatable(f"`{f}` is called with {len(call.args)} arguments, it takes {len(params)}")
        s = ident(self.state)
        out = call.args[0]
        args = []
        for a, (pname, kind) in zip(call.args[1:], params[1:]):
            if kind == "vec":
                args.append(self.vec(a))
            elif kind == "bool":
                args.append(self.boolean(a))
            elif kind == "scalar":
                args.append(self.scalar_arg(a))
            elif kind == "vec2":
                args.append(self.vec2(a))
            else:
                raise Untranslatable(f"argument kind {kind}")
        tail = " ".join(args)
        if params[0][1] == "mat3":
            if isinstance(out, ast.Name) and out.id == self.state and self.state_kind == "mat3":
                return f"{ident(f)} {s} {tail}"
            raise Untranslatable(f"output argument `{ast.unparse(out)}` of `{f}`")
        if isinstance(out, ast.Name) and out.id == self.state and self.state_kind == "mat":
            return f"{ident(f)} {s} {tail}"
        if isinstance(out, ast.Subscript) and isinstance(out.value, ast.Name) and out.value.id == self.state \
                and self.state_kind == "mat3":
            return f"slabUpd {s} {self.nat(out.slice)} (fun m => {ident(f)} m {tail})"
        raise Untranslatable(f"output argument `{ast.unparse(out)}`")

    def vec2(self, e) -> str:
        if isinstance(e, ast.Name) and e.id not in self.env and self.params.get(e.id) == "vec2":
            return ident(e.id)
        raise Untranslatable(f"2-D array argument `{ast.unparse(e)}`")

    def scalar_arg(self, a) -> str:
        if isinstance(a, ast.Name) and a.id not in self.env and self.params.get(a.id) == "scalar":
            return ident(a.id)
        raise Untranslatable(f"scalar argument `{ast.unparse(a)}`")

    def translate(self) -> str:
        a = self.fn.args
        if a.vararg or a.kwarg or a.kwonlyargs or a.posonlyargs or a.defaults:
            raise Untranslatable("signature with defaults / varargs")
        names = [x.arg for x in a.args]
        if names != list(self.params):
            raise Untranslatable(f"signature changed: {names}")
        return self.block(self.fn.body, 2, None, top=True)


def kernel_signature(name, params) -> str:
    args = " ".join(f"({ident(p)} : {KIND_TYPE[k]})" for p, k in params)
    return f"def {ident(name)} {{α : Type}} [NumOrd α] {args} : {KIND_TYPE[params[0][1]]} :="


def translate_kernels(repo: Path):
    """[(name, file, lean text, status)] in dependency order"""
    mods = {}
    out = []
    known = {}
    for name, (file, params) in KERNELS.items():
        mod = mods.setdefault(file, Module(repo / file))
        fn = mod.funcs.get(name)
        sig = kernel_signature(name, params)
        try:
            if fn is None:
                raise Untranslatable(f"function `{name}` not found in {file}")
            body = KernelTranslator(mod, fn, params, known).translate()
            status = "translated"
        except Untranslatable as e:
            body = f"  untranslatable {lean_str(str(e))}"
            status = f"untranslatable: {e}"
        except RecursionError:
            body = f"  untranslatable {lean_str('expression too deep')}"
            status = "untranslatable: expression too deep"
        doc = f"/-- {file}:{fn.lineno if fn is not None else '?'} `{name}` -/"
        out.append((name, file, f"{doc}\n{sig}\n{body}\n", status))
        known[name] = params
    return out


# ------------------------------------------------------------------------------------------
# rendering
# ------------------------------------------------------------------------------------------
HEADER = """/-
GENERATED by harness/props/_c05_translate.py (c05.generate) from the source of VERIF_REPO — do not edit.
Function-level translation of the decay kernels, their glue and the IRF parameter functions.
-/
import GlotaranModel.C05Rt
namespace Glotaran.C05.Gen
open Glotaran.C05

"""


def render(repo: Path):
    parts = [HEADER]
    table = []
    for name, file, text, status in translate_kernels(repo):
        parts.append(text + "\n")
        table.append({"function": name, "file": file, "status": status})
    for name, file, text, status in translate_glue(repo) + translate_irf(repo):
        parts.append(text + "\n")
        table.append({"function": name, "file": file, "status": status})
    parts.append("end Glotaran.C05.Gen\n")
    return "".join(parts), table



# ------------------------------------------------------------------------------------------
# glue: util.py `decay_matrix_implementation_index_independent`
# ------------------------------------------------------------------------------------------
# Subset: straight-line code over the output array, with
#   `if isinstance(dataset_model.irf, IrfMultiGaussian): A else: B`  ->  `match irf with | some irf => A | none => B` (last statement)
#   `(c, w, s, shift, bs, T) = dataset_model.irf.parameter(None | index, global_axis)`  ->  bind of the model's `parameter`
#        (its six results by position; an exception of `parameter` propagates)
#   calls of translated kernels on the output array with array arguments `name`, `name - shift` (numpy broadcasting)
#   `if dataset_model.irf.normalize: matrix /= np.sum(irf_scales)`
# The A-matrix product, `np.zeros` and the finiteness check of `calculate_matrix` are not translated (model: `calculateMatrix`,
# tied by differential execution).
GLUE = {
    "decay_matrix_implementation_index_independent": (UTIL_FILE, [
        ("matrix", "mat"), ("rates", "vec"), ("global_axis", "vec"), ("model_axis", "vec"), ("dataset_model", "dsopt")]),
    # called only when `index_dependent(dataset_model)`, i.e. with a Gaussian IRF
    "decay_matrix_implementation_index_dependent": (UTIL_FILE, [
        ("matrix", "mat3"), ("rates", "vec"), ("global_axis", "vec"), ("model_axis", "vec"), ("dataset_model", "ds")]),
}
STATE_TYPE = {"vec": "List Rat", "vec2": "List (List Rat)", "bool": "Bool", "rat": "Rat"}
GLUE_TYPE = dict(KIND_TYPE, dsopt="Option Irf", ds="Irf")
PARAM_FIELDS = [("vec", "centers"), ("vec", "widths"), ("vec", "scales"), ("rat", "shift"), ("bool", "backsweep"), ("rat", "period")]


class GlueTranslator(KernelTranslator):
    def __init__(self, mod, fn, params, known_kernels):
        super().__init__(mod, fn, params, known_kernels)
        self.irf_bound = self.params.get("dataset_model") == "ds"
        self.nbind = 0

    def is_irf(self, e) -> bool:
        return dotted(e) == "dataset_model.irf"

    def need_irf(self):
        if not self.irf_bound:
            raise Untranslatable("`dataset_model.irf` is used as a Gaussian IRF outside an isinstance test")

    def rat(self, e) -> str:
        if isinstance(e, ast.Constant) and not isinstance(e.value, bool) and isinstance(e.value, (int, float)):
            return rat_of(e.value)
        if isinstance(e, ast.Name) and e.id in self.env and self.env[e.id][0] == "rat":
            return self.env[e.id][1]
        if isinstance(e, ast.Call) and dotted(e.func) in ("np.sum", "numpy.sum", "sum") and len(e.args) == 1 and not e.keywords:
            return f"({self.vec(e.args[0])}).sum"
        if isinstance(e, ast.BinOp):
            op = {ast.Add: "+", ast.Sub: "-", ast.Mult: "*", ast.Div: "/"}.get(type(e.op))
            if op:
                return f"({self.rat(e.left)} {op} {self.rat(e.right)})"
        raise Untranslatable(f"scalar expression `{ast.unparse(e)[:60]}`")

    def vec(self, e) -> str:
        if isinstance(e, ast.BinOp) and isinstance(e.op, (ast.Sub, ast.Add)):
            f = "vecSubScalar" if isinstance(e.op, ast.Sub) else "vecAddScalar"
            return f"({f} {self.vec(e.left)} {self.rat(e.right)})"
        return super().vec(e)

    def num(self, e) -> str:
        # a double computed by the glue is an exact rational embedded in the number class
        return f"(Num.ofRat {self.rat(e)})"

    def boolean(self, e) -> str:
        if dotted(e) == "dataset_model.irf.normalize":
            self.need_irf()
            return "irf.normalize"
        return super().boolean(e)

    def scalar_arg(self, a) -> str:
        return self.rat(a)

    def vec2(self, e) -> str:
        if isinstance(e, ast.Call) and dotted(e.func) in ("np.array", "np.asarray", "numpy.array", "numpy.asarray") \
                and len(e.args) == 1 and not e.keywords:
            return self.vec2(e.args[0])
        if isinstance(e, ast.Name) and self.env.get(e.id, (None,))[0] == "vec2":
            return self.env[e.id][1]
        return super().vec2(e)

    def glue_value(self, e):
        """(kind, lean) of a right-hand side in the glue: `[]`, `False`, `None`, arrays, scalars"""
        if isinstance(e, ast.List) and not e.elts:
            return "empty", "[]"
        if isinstance(e, ast.Constant) and e.value is None:
            return "none", "0"          # a placeholder that is overwritten before it is read (see the loop rule)
        if isinstance(e, ast.Constant) and isinstance(e.value, bool):
            return "bool", "true" if e.value else "false"
        if isinstance(e, ast.Name) and e.id in self.env and self.env[e.id][0] in ("vec", "vec2", "rat", "bool"):
            return self.env[e.id]
        for kind, f in (("vec", self.vec), ("rat", self.rat), ("bool", self.boolean)):
            try:
                return kind, f(e)
            except Untranslatable:
                pass
        raise Untranslatable(f"value `{ast.unparse(e)[:60]}`")

    def glue_assign(self, st) -> bool:
        """scalar / list bookkeeping of the glue; True when the statement was consumed"""
        if isinstance(st, ast.Assign) and len(st.targets) == 1:
            t, v = st.targets[0], st.value
            if isinstance(v, ast.Call) and dotted(v.func) == "dataset_model.irf.parameter":
                return False
            pairs = None
            if isinstance(t, ast.Name):
                pairs = [(t, v)]
            elif isinstance(t, ast.Tuple) and isinstance(v, ast.Tuple) and len(t.elts) == len(v.elts) \
                    and all(isinstance(x, ast.Name) for x in t.elts):
                pairs = list(zip(t.elts, v.elts))
            if pairs is None:
                return False
            vals = [self.glue_value(x) for _, x in pairs]
            for (n, _), kv in zip(pairs, vals):
                if n.id in self.params:
                    raise Untranslatable(f"parameter `{n.id}` is reassigned")
                self.env[n.id] = kv
            return True
        if isinstance(st, ast.Expr) and isinstance(st.value, ast.Call) and isinstance(st.value.func, ast.Attribute) \
                and st.value.func.attr == "append" and isinstance(st.value.func.value, ast.Name) and len(st.value.args) == 1:
            name = st.value.func.value.id
            kind, cur = self.env.get(name, (None, None))
            if kind not in ("empty", "vec2"):
                raise Untranslatable(f"`{name}.append` on a {kind}")
            self.env[name] = ("vec2", f"({cur} ++ [{self.vec(st.value.args[0])}])")
            return True
        return False

    def assigned_names(self, stmts):
        out = []
        for st in stmts:
            for n in ast.walk(st):
                if isinstance(n, ast.Name) and isinstance(n.ctx, ast.Store) and n.id not in out:
                    out.append(n.id)
                if isinstance(n, ast.Call) and isinstance(n.func, ast.Attribute) and n.func.attr == "append" \
                        and isinstance(n.func.value, ast.Name) and n.func.value.id not in out:
                    out.append(n.func.value.id)
        return out

    def loop(self, st, rest, ind) -> str:
        """a loop whose body calls irf.parameter: state = names bound before it and assigned in it (in binding order);
        every state name must be assigned in every iteration before the iteration ends (so a `None` / `[]`
        placeholder only survives a loop that runs zero times), and is used afterwards with the kind the body gives it"""
        pad = " " * ind
        it = st.iter
        if st.orelse or not isinstance(st.target, ast.Name) or not (
                isinstance(it, ast.Call) and dotted(it.func) == "range" and len(it.args) == 1 and not it.keywords):
            raise Untranslatable(f"loop `{ast.unparse(st)[:50]}`")
        n = self.length(it.args[0])
        v = st.target.id
        if v in self.env or v in self.params:
            raise Untranslatable(f"loop variable `{v}` shadows a name")
        assigned = self.assigned_names(st.body)
        if self.state in assigned:
            raise Untranslatable("the output array is written inside a loop that calls irf.parameter")
        state = [x for x in self.env if x in assigned]
        if not state:
            raise Untranslatable("loop without state")

        def proj(k, var):
            return var + "".join([".2"] * k) + (".1" if k < len(state) - 1 else "")

        saved = dict(self.env)
        for k, x in enumerate(state):
            self.env[x] = (saved[x][0], proj(k, "st"))
        self.env[v] = ("idx", ident(v))
        finals = {}

        def final(_ind):
            for x in state:
                if self.env[x][1] == proj(state.index(x), "st"):
                    raise Untranslatable(f"`{x}` is not assigned in every iteration")
                finals[x] = self.env[x]
            return " " * _ind + ".ok (" + ", ".join(self.env[x][1] for x in state) + ")"

        body = self.gblock(st.body, ind + 4, final=final)
        inits = []
        for x in state:
            k0, v0 = saved[x]
            k1 = finals[x][0]
            ok = (k0 == k1) or (k0 == "empty" and k1 in ("vec", "vec2")) or (k0 == "none" and k1 == "rat")
            if not ok or k1 not in STATE_TYPE:
                raise Untranslatable(f"`{x}` is a {k0} before the loop and a {k1} in it")
            inits.append(f"({v0} : {STATE_TYPE[k1]})")
        self.env = {x: kv for x, kv in saved.items()}
        for k, x in enumerate(state):
            self.env[x] = (finals[x][0], proj(k, "st"))
        tail = self.gblock(rest, ind + 2)
        return f"{pad}bindE (forRangeM {n} ({', '.join(inits)}) (fun {ident(v)} st =>\n{body})) (fun st =>\n{tail})"

    def monadic(self, st) -> bool:
        for n in ast.walk(st):
            if isinstance(n, ast.Call) and dotted(n.func) in ("dataset_model.irf.parameter", "isinstance"):
                return True
        return False

    def gblock(self, stmts, ind, final=None) -> str:
        """statements -> expression of type `Except IrfError <state>`"""
        s = ident(self.state)
        pad = " " * ind
        lines = []
        for k, st in enumerate(stmts):
            if isinstance(st, ast.Expr) and isinstance(st.value, ast.Constant) and isinstance(st.value.value, str):
                continue
            if self.glue_assign(st):
                continue
            if isinstance(st, ast.For) and self.monadic(st):
                lines.append(self.loop(st, stmts[k + 1:], ind))
                return "\n".join(lines)
            if not self.monadic(st):
                # pure statement: reuse the kernel translator (stores, kernel calls, `if`, `matrix /= e`)
                txt = self.block([st], ind, None)
                lines += txt.split("\n")[:-1]            # drop the trailing state line
                continue
            if isinstance(st, ast.If):
                t = st.test
                if not (isinstance(t, ast.Call) and dotted(t.func) == "isinstance" and len(t.args) == 2 and self.is_irf(t.args[0])
                        and dotted(t.args[1]) == "IrfMultiGaussian"):
                    raise Untranslatable(f"condition `{ast.unparse(t)[:60]}` around a call of irf.parameter")
                if k != len(stmts) - 1:
                    raise Untranslatable("statements after the isinstance test")
                if self.irf_bound or self.params.get("dataset_model") != "dsopt":
                    raise Untranslatable("nested isinstance test")
                saved = dict(self.env)
                self.irf_bound = True
                a = self.gblock(st.body, ind + 4)
                self.irf_bound = False
                self.env = dict(saved)
                b = self.gblock(st.orelse, ind + 4)
                self.env = saved
                lines.append(f"{pad}match irf with\n{pad}| some irf =>\n{a}\n{pad}| none =>\n{b}")
                return "\n".join(lines)
            if isinstance(st, ast.Assign) and len(st.targets) == 1 and isinstance(st.targets[0], ast.Tuple) \
                    and isinstance(st.value, ast.Call) and dotted(st.value.func) == "dataset_model.irf.parameter":
                self.need_irf()
                names = st.targets[0].elts
                c = st.value
                if len(names) != 6 or not all(isinstance(x, ast.Name) for x in names) or len(c.args) != 2 or c.keywords:
                    raise Untranslatable(f"`{ast.unparse(st)[:60]}`: irf.parameter returns six values")
                gi = c.args[0]
                if isinstance(gi, ast.Constant) and gi.value is None:
                    gis = "none"
                elif isinstance(gi, ast.Name) and self.env.get(gi.id, (None,))[0] == "idx":
                    gis = f"(some {ident(gi.id)})"
                else:
                    raise Untranslatable(f"global index `{ast.unparse(gi)}`")
                axis = self.vec(c.args[1])
                self.nbind += 1
                pv = "p" if self.nbind == 1 else f"p{self.nbind}"
                for x, (kind, field) in zip(names, PARAM_FIELDS):
                    if x.id in self.params:
                        raise Untranslatable(f"parameter `{x.id}` is reassigned")
                    self.env[x.id] = (kind, f"{pv}.{field}")
                rest = self.gblock(stmts[k + 1:], ind + 2, final=final)
                lines.append(f"{pad}bindE (parameter irf {gis} {axis}) (fun {pv} =>\n{rest})")
                return "\n".join(lines)
            raise Untranslatable(f"statement `{ast.unparse(st)[:60]}`")
        lines.append(final(ind) if final is not None else f"{pad}.ok {s}")
        return "\n".join(lines)

    def translate(self) -> str:
        a = self.fn.args
        if a.vararg or a.kwarg or a.kwonlyargs or a.posonlyargs or a.defaults:
            raise Untranslatable("signature with defaults / varargs")
        names = [x.arg for x in a.args]
        if names != list(self.params):
            raise Untranslatable(f"signature changed: {names}")
        return self.gblock(self.fn.body, 2)


def glue_signature(name, params) -> str:
    args = " ".join(f"({'irf' if k in ('ds', 'dsopt') else ident(p)} : {GLUE_TYPE[k]})" for p, k in params)
    return f"def {ident(name)} {{α : Type}} [NumOrd α] {args} : Except IrfError ({GLUE_TYPE[params[0][1]]}) :="


def translate_glue(repo: Path):
    out = []
    known = {n: p for n, (_, p) in KERNELS.items()}
    for name, (file, params) in GLUE.items():
        mod = Module(repo / file)
        fn = mod.funcs.get(name)
        try:
            if fn is None:
                raise Untranslatable(f"function `{name}` not found in {file}")
            body = GlueTranslator(mod, fn, params, known).translate()
            status = "translated"
        except Untranslatable as e:
            body = f"  .ok (untranslatable {lean_str(str(e))})"
            status = f"untranslatable: {e}"
        doc = f"/-- {file}:{fn.lineno if fn is not None else '?'} `{name}` -/"
        out.append((name, file, f"{doc}\n{glue_signature(name, params)}\n{body}\n", status))
    return out


# ------------------------------------------------------------------------------------------
# irf.py: is_index_dependent (both classes), the dispersion variable and the two dispersion loops of
# IrfSpectralMultiGaussian.parameter
# ------------------------------------------------------------------------------------------
OPT_FIELDS = {"shift": "shift", "dispersion_center": "dispersionCenter", "scale": "scale", "backsweep_period": "backsweepPeriod"}


class IrfTranslator:
    def __init__(self, mod: Module):
        self.mod = mod

    def method(self, cls: str, name: str):
        c = self.mod.classes.get(cls)
        if c is None:
            raise Untranslatable(f"class `{cls}` not found")
        for st in c.body:
            if isinstance(st, ast.FunctionDef) and st.name == name:
                return st
        raise Untranslatable(f"`{cls}.{name}` not found")

    # -- is_index_dependent ---------------------------------------------------------------------
    def cond(self, e, base_fn) -> str:
        if isinstance(e, ast.BoolOp):
            op = " && " if isinstance(e.op, ast.And) else " || "
            return "(" + op.join(self.cond(v, base_fn) for v in e.values) + ")"
        if isinstance(e, ast.UnaryOp) and isinstance(e.op, ast.Not):
            return f"(!{self.cond(e.operand, base_fn)})"
        if isinstance(e, ast.Compare) and len(e.ops) == 1 and isinstance(e.comparators[0], ast.Constant) \
                and e.comparators[0].value is None and dotted(e.left) in {f"self.{k}" for k in OPT_FIELDS}:
            fld = OPT_FIELDS[dotted(e.left)[5:]]
            if isinstance(e.ops[0], ast.IsNot):
                return f"irf.{fld}.isSome"
            if isinstance(e.ops[0], ast.Is):
                return f"irf.{fld}.isNone"
        if isinstance(e, ast.Call) and not e.args and isinstance(e.func, ast.Attribute) and e.func.attr == "is_index_dependent" \
                and isinstance(e.func.value, ast.Call) and dotted(e.func.value.func) == "super" and base_fn:
            return f"({base_fn} irf)"
        raise Untranslatable(f"condition `{ast.unparse(e)[:60]}`")

    def index_dependent(self, cls, base_fn):
        fn = self.method(cls, "is_index_dependent")
        body = [st for st in fn.body if not (isinstance(st, ast.Expr) and isinstance(st.value, ast.Constant))]
        if len(body) != 1 or not isinstance(body[0], ast.Return) or body[0].value is None:
            raise Untranslatable(f"`{cls}.is_index_dependent` is not a single return")
        return fn.lineno, "  " + self.cond(body[0].value, base_fn)

    # -- rational expressions of `parameter` --------------------------------------------------------
    def rat(self, e, names) -> str:
        if isinstance(e, ast.Constant) and isinstance(e.value, (int, float)) and not isinstance(e.value, bool):
            return rat_of(e.value)
        d = dotted(e)
        if d in names:
            return names[d]
        if isinstance(e, ast.BinOp):
            op = {ast.Add: "+", ast.Sub: "-", ast.Mult: "*", ast.Div: "/"}.get(type(e.op))
            if op:
                return f"({self.rat(e.left, names)} {op} {self.rat(e.right, names)})"
            if isinstance(e.op, ast.Pow):
                return f"({self.rat(e.left, names)} ^ {self.nat(e.right, names)})"
        if isinstance(e, ast.UnaryOp) and isinstance(e.op, ast.USub):
            return f"(-{self.rat(e.operand, names)})"
        if isinstance(e, ast.Call) and dotted(e.func) in ("np.power", "numpy.power", "pow") and len(e.args) == 2 and not e.keywords:
            return f"({self.rat(e.args[0], names)} ^ {self.nat(e.args[1], names)})"
        raise Untranslatable(f"expression `{ast.unparse(e)[:60]}`")

    def nat(self, e, names) -> str:
        if isinstance(e, ast.Constant) and isinstance(e.value, int) and not isinstance(e.value, bool) and e.value >= 0:
            return str(e.value)
        if isinstance(e, ast.Name) and names.get("#nat") == e.id:
            return ident(e.id)
        if isinstance(e, ast.BinOp) and isinstance(e.op, (ast.Add, ast.Mult)):
            return f"({self.nat(e.left, names)} {'+' if isinstance(e.op, ast.Add) else '*'} {self.nat(e.right, names)})"
        raise Untranslatable(f"exponent `{ast.unparse(e)[:40]}`")

    def dist(self):
        fn = self.method("IrfSpectralMultiGaussian", "parameter")
        found = [n for n in ast.walk(fn) if isinstance(n, ast.Assign) and len(n.targets) == 1
                 and isinstance(n.targets[0], ast.Name) and n.targets[0].id == "dist"]
        if len(found) != 1:
            raise Untranslatable(f"{len(found)} assignments to `dist`")
        v = found[0].value
        names = {"index": "index", "self.dispersion_center": "dispersion_center"}
        if isinstance(v, ast.IfExp):
            if dotted(v.test) != "self.model_dispersion_with_wavenumber":
                raise Untranslatable(f"switch `{ast.unparse(v.test)[:40]}`")
            return found[0].lineno, (f"  if model_dispersion_with_wavenumber then {self.rat(v.body, names)} "
                                     f"else {self.rat(v.orelse, names)}")
        return found[0].lineno, "  " + self.rat(v, names)

    def dispersion_loops(self):
        """the blocks `if len(self.<c>_dispersion_coefficients) != 0: ... for i, disp in enumerate(self.<c>_...): T += / T = T + e`
        in source order -> successive `let T := if coefs.length != 0 then enumFold coefs T (...) else T`"""
        fn = self.method("IrfSpectralMultiGaussian", "parameter")
        lines = []
        seen = []
        for st in fn.body:
            if not (isinstance(st, ast.If) and isinstance(st.test, ast.Compare) and len(st.test.ops) == 1
                    and isinstance(st.test.ops[0], ast.NotEq) and isinstance(st.test.left, ast.Call)
                    and dotted(st.test.left.func) == "len" and isinstance(st.test.comparators[0], ast.Constant)
                    and st.test.comparators[0].value == 0):
                continue
            coef = dotted(st.test.left.args[0]) or ""
            if coef not in ("self.center_dispersion_coefficients", "self.width_dispersion_coefficients"):
                continue
            cname = coef[5:]
            loops = [x for x in st.body if isinstance(x, ast.For)]
            others = [x for x in st.body if not isinstance(x, (ast.For, ast.If))]
            if len(loops) != 1 or others or st.orelse:
                raise Untranslatable(f"block of `{cname}`")
            lp = loops[0]
            if not (isinstance(lp.iter, ast.Call) and dotted(lp.iter.func) == "enumerate" and len(lp.iter.args) == 1
                    and dotted(lp.iter.args[0]) == coef and isinstance(lp.target, ast.Tuple) and len(lp.target.elts) == 2
                    and all(isinstance(x, ast.Name) for x in lp.target.elts) and len(lp.body) == 1):
                raise Untranslatable(f"loop of `{cname}`")
            iv, dv = (x.id for x in lp.target.elts)
            b = lp.body[0]
            if isinstance(b, ast.AugAssign) and isinstance(b.op, ast.Add) and isinstance(b.target, ast.Name):
                tgt, e = b.target.id, b.value
            elif isinstance(b, ast.Assign) and len(b.targets) == 1 and isinstance(b.targets[0], ast.Name) \
                    and isinstance(b.value, ast.BinOp) and isinstance(b.value.op, ast.Add) \
                    and isinstance(b.value.left, ast.Name) and b.value.left.id == b.targets[0].id:
                tgt, e = b.targets[0].id, b.value.right
            else:
                raise Untranslatable(f"loop body `{ast.unparse(b)[:50]}`")
            if tgt not in ("centers", "widths"):
                raise Untranslatable(f"dispersion applied to `{tgt}`")
            names = {dv: ident(dv), "dist": "dist", "#nat": iv}
            lines.append(f"  let {tgt} := if {cname}.length != 0 then enumFold {cname} {tgt} "
                         f"(fun {ident(iv)} {ident(dv)} {tgt} => vecAddScalar {tgt} {self.rat(e, names)}) else {tgt}")
            seen.append(cname)
        if sorted(seen) != ["center_dispersion_coefficients", "width_dispersion_coefficients"]:
            raise Untranslatable(f"dispersion blocks found: {seen}")
        lines.append("  (centers, widths)")
        return fn.lineno, "\n".join(lines)


def translate_irf(repo: Path):
    mod = Module(repo / IRF_FILE)
    tr = IrfTranslator(mod)
    items = [
        ("is_index_dependent_base", "def is_index_dependent_base (irf : Irf) : Bool :=",
         lambda: tr.index_dependent("IrfMultiGaussian", None), "  untranslatable"),
        ("is_index_dependent_spectral", "def is_index_dependent_spectral (irf : Irf) : Bool :=",
         lambda: tr.index_dependent("IrfSpectralMultiGaussian", "is_index_dependent_base"), "  untranslatable"),
        ("dispersion_dist", "def dispersion_dist (model_dispersion_with_wavenumber : Bool) (index dispersion_center : Rat) : Rat :=",
         tr.dist, "  untranslatable"),
        ("spectral_dispersion", "def spectral_dispersion (center_dispersion_coefficients width_dispersion_coefficients : List Rat) "
                                "(dist : Rat) (centers widths : List Rat) : List Rat × List Rat :=",
         tr.dispersion_loops, "  untranslatable"),
    ]
    out = []
    for name, sig, f, un in items:
        try:
            line, body = f()
            status = "translated"
        except Untranslatable as e:
            line, body, status = "?", f"{un} {lean_str(str(e))}", f"untranslatable: {e}"
        out.append((name, IRF_FILE, f"/-- {IRF_FILE}:{line} `{name}` -/\n{sig}\n{body}\n", status))
    return out


def source_sha1(repo: Path) -> dict:
    out = {}
    for f in (KERNEL_FILE, UTIL_FILE, IRF_FILE):
        p = repo / f
        out[f] = hashlib.sha1(p.read_bytes()).hexdigest() if p.exists() else None
    return out
