"""C05 — function-level translator: Python `ast` of the decay kernels / glue  ->  Lean functions.

Regenerates lean/GlotaranModel/Generated/C05Fns.lean from the source of VERIF_REPO on every run.  The theorems
`generated_*_eq_model*` of GlotaranProofs/Props/C05.lean equate every generated function with the hand-written
model definition the driver executes, so an edit of the source re-opens a proof obligation.

Translated subset (anything else makes the function `untranslatable "<reason>"`, a default value with which the
file still compiles and the function's theorem no longer does — never a crash, never a silent default):

  kernels (numba loop nests):   nested `for v in range(n) / nb.prange(n)` with `n` = `a.size` / `a.shape[0]`;
      scalar assignments (also tuple assignments) of arithmetic over array reads `a[i]`, parameters, module
      constants, float / int literals, `np.exp`, `np.sqrt(2)`, `abs`, `erf` / `erfcx` (resolved through the module's
      ctypes bindings to scipy's `__pyx_fuse_1erf` / `__pyx_fuse_1erfcx`); comparisons and `and` / `or` / `not`;
      `if / else`; stores `m[i, j] = e`, `m[i, j] += e` (also `-=`, `*=`, `/=`); calls of another translated kernel
      whose first argument is the output array or a slice `m[i]` of it.
      Scalar temporaries are INLINED at their uses, so hoisting / renaming a common subexpression does not change
      the generated text.  A scalar assigned inside a loop that is already bound outside it (loop-carried value)
      is refused.
  glue (util.py `decay_matrix_implementation_*`) and irf.py `parameter` / `is_index_dependent` /
      `calculate_dispersion`: see the pattern translators further down (each documents its subset).
  method level (second file Generated/C05Irf.lean, `render_irf`): `IrfMultiGaussian.parameter`, `calculate`,
      `calculate_dispersion`, `util.index_dependent`, `util.calculate_matrix`, `util.retrieve_irf` — see the section
      "method-level translation" at the end of this file.

Doubles: every literal becomes the exact rational of the double (`float.as_integer_ratio`), array reads and
scalar parameters are exact rationals embedded with `Num.ofRat`; `+ - * /`, unary minus, `exp`, `erf`, `erfcx`,
`abs`, `<` are the operations of the abstract number class (`Num` / `NumOrd`).
"""
from __future__ import annotations

import ast
import hashlib
from pathlib import Path

KERNEL_FILE = "glotaran/builtin/megacomplexes/decay/decay_matrix_gaussian_irf.py"
UTIL_FILE = "glotaran/builtin/megacomplexes/decay/util.py"
IRF_FILE = "glotaran/builtin/megacomplexes/decay/irf.py"

LEAN_KEYWORDS = {"at", "from", "end", "fun", "let", "in", "do", "then", "else", "if", "match", "with", "where", "have",
                 "show", "by", "open", "namespace", "section", "def", "theorem", "instance", "structure", "class",
                 "import", "for", "return", "mut", "Type", "Prop", "Sort", "local", "prefix", "infix", "notation"}


class Untranslatable(Exception):
    pass


def ident(name: str) -> str:
    return f"«{name}»" if name in LEAN_KEYWORDS else name


def lean_str(s: str) -> str:
    return '"' + s.replace("\\", "\\\\").replace('"', '\\"').replace("\n", " ") + '"'


def rat_of(v) -> str:
    """exact rational of a Python int / float literal, as Lean `Rat` syntax"""
    if isinstance(v, bool):
        raise Untranslatable("boolean literal in arithmetic")
    if isinstance(v, int):
        return str(v) if v >= 0 else f"({v})"
    if isinstance(v, float):
        if v != v or v in (float("inf"), float("-inf")):
            raise Untranslatable("non-finite float literal")
        p, q = v.as_integer_ratio()
        if q == 1:
            return str(p) if p >= 0 else f"({p})"
        return f"({p}/{q})"
    raise Untranslatable(f"literal of type {type(v).__name__}")


def dotted(node) -> str | None:
    if isinstance(node, ast.Name):
        return node.id
    if isinstance(node, ast.Attribute):
        b = dotted(node.value)
        return None if b is None else f"{b}.{node.attr}"
    return None


# ------------------------------------------------------------------------------------------
# module context: constants and the erf / erfcx bindings
# ------------------------------------------------------------------------------------------
class Module:
    def __init__(self, path: Path):
        self.path = path
        self.src = path.read_text() if path.exists() else ""
        try:
            self.tree = ast.parse(self.src)
        except SyntaxError:
            self.tree = ast.Module(body=[], type_ignores=[])
        self.assigns = {}
        self.funcs = {}
        self.classes = {}
        for st in self.tree.body:
            if isinstance(st, ast.Assign) and len(st.targets) == 1 and isinstance(st.targets[0], ast.Name):
                self.assigns[st.targets[0].id] = st.value
            elif isinstance(st, ast.FunctionDef):
                self.funcs[st.name] = st
            elif isinstance(st, ast.ClassDef):
                self.classes[st.name] = st

    def special_function(self, name: str) -> str | None:
        """`erf = functype(erf_addr)`, `erf_addr = get_cython_function_address("scipy.special.cython_special",
        "__pyx_fuse_1erf")`  ->  "erf"; likewise erfcx"""
        v = self.assigns.get(name)
        if not (isinstance(v, ast.Call) and len(v.args) == 1 and isinstance(v.args[0], ast.Name)):
            return None
        a = self.assigns.get(v.args[0].id)
        if not (isinstance(a, ast.Call) and dotted(a.func) == "get_cython_function_address" and len(a.args) == 2
                and all(isinstance(x, ast.Constant) and isinstance(x.value, str) for x in a.args)):
            return None
        if a.args[0].value != "scipy.special.cython_special":
            return None
        return {"__pyx_fuse_1erf": "erf", "__pyx_fuse_1erfcx": "erfcx"}.get(a.args[1].value)


# ------------------------------------------------------------------------------------------
# kernels
# ------------------------------------------------------------------------------------------
# parameter kinds: mat (2-D output array, the threaded state), mat3 (3-D output array), vec (1-D input), vec2 (2-D input,
# read by rows), bool, scalar (a double)
KIND_TYPE = {"mat": "Mat α", "mat3": "List (Mat α)", "vec": "List Rat", "vec2": "List (List Rat)", "bool": "Bool",
             "scalar": "Rat"}

KERNELS = {
    "calculate_decay_matrix_gaussian_irf_on_index": (KERNEL_FILE, [
        ("matrix", "mat"), ("rates", "vec"), ("times", "vec"), ("centers", "vec"), ("widths", "vec"), ("scales", "vec"),
        ("backsweep", "bool"), ("backsweep_period", "scalar")]),
    "calculate_decay_matrix_gaussian_irf": (KERNEL_FILE, [
        ("matrix", "mat3"), ("rates", "vec"), ("times", "vec"), ("all_centers", "vec2"), ("all_widths", "vec2"),
        ("scales", "vec"), ("backsweep", "bool"), ("backsweep_period", "scalar")]),
    "calculate_decay_matrix_no_irf": (UTIL_FILE, [("matrix", "mat"), ("rates", "vec"), ("times", "vec")]),
}


class KernelTranslator:
    """one numba kernel -> the body of a Lean function (a string)"""

    def __init__(self, mod: Module, fn: ast.FunctionDef, params, known_kernels):
        self.mod, self.fn, self.params = mod, fn, dict(params)
        self.state = params[0][0]                 # the output array
        self.state_kind = params[0][1]
        self.known = known_kernels
        # env: python name -> (kind, lean expression); kinds: num, bool, idx, vec
        self.env = {}

    # -- expressions ----------------------------------------------------------------------------
    def nat(self, e) -> str:
        if isinstance(e, ast.Name) and self.env.get(e.id, (None,))[0] == "idx":
            return ident(e.id)
        if isinstance(e, ast.Constant) and isinstance(e.value, int) and not isinstance(e.value, bool) and e.value >= 0:
            return str(e.value)
        raise Untranslatable(f"index expression `{ast.unparse(e)}`")

    def length(self, e) -> str:
        """`a.size`, `a.shape[0]` of an array parameter (or of a row of a vec2)"""
        if isinstance(e, ast.Attribute) and e.attr == "size":
            return f"{self.vec(e.value)}.length"
        if isinstance(e, ast.Subscript) and isinstance(e.value, ast.Attribute) and e.value.attr == "shape" \
                and isinstance(e.slice, ast.Constant) and e.slice.value == 0:
            a = e.value.value
            if isinstance(a, ast.Name) and self.params.get(a.id) in ("vec", "vec2", "mat3", "mat") and a.id not in self.env:
                return f"{ident(a.id)}.length"
        if isinstance(e, ast.Call) and dotted(e.func) == "len" and len(e.args) == 1:
            return f"{self.vec(e.args[0])}.length"
        raise Untranslatable(f"loop bound `{ast.unparse(e)}`")

    def vec(self, e) -> str:
        """an expression denoting a 1-D input array"""
        if isinstance(e, ast.Name):
            if e.id in self.env:
                k, v = self.env[e.id]
                if k == "vec":
                    return v
                raise Untranslatable(f"`{e.id}` is not an array")
            if self.params.get(e.id) == "vec":
                return ident(e.id)
        if isinstance(e, ast.Subscript) and isinstance(e.value, ast.Name) and self.params.get(e.value.id) == "vec2" \
                and e.value.id not in self.env:
            return f"({ident(e.value.id)}.getD {self.nat(e.slice)} [])"
        raise Untranslatable(f"array expression `{ast.unparse(e)}`")

    def num(self, e) -> str:
        if isinstance(e, ast.Constant):
            return f"(Num.ofRat {rat_of(e.value)})"
        if isinstance(e, ast.Name):
            if e.id in self.env:
                k, v = self.env[e.id]
                if k == "num":
                    return v
                raise Untranslatable(f"`{e.id}` ({k}) used as a number")
            if self.params.get(e.id) == "scalar":
                return f"(Num.ofRat {ident(e.id)})"
            if e.id in self.params:
                raise Untranslatable(f"parameter `{e.id}` ({self.params[e.id]}) used as a number")
            if e.id in self.mod.assigns:
                return self.module_constant(e.id)
            raise Untranslatable(f"unbound name `{e.id}`")
        if isinstance(e, ast.BinOp):
            op = {ast.Add: "add", ast.Sub: "sub", ast.Mult: "mul", ast.Div: "div"}.get(type(e.op))
            if op is None:
                raise Untranslatable(f"operator `{type(e.op).__name__}`")
            return f"(Num.{op} {self.num(e.left)} {self.num(e.right)})"
        if isinstance(e, ast.UnaryOp):
            if isinstance(e.op, ast.USub):
                return f"(Num.neg {self.num(e.operand)})"
            if isinstance(e.op, ast.UAdd):
                return self.num(e.operand)
            raise Untranslatable(f"unary operator `{type(e.op).__name__}`")
        if isinstance(e, ast.Subscript):
            if isinstance(e.value, ast.Name) and e.value.id == self.state:
                raise Untranslatable("the output array is read in an expression")
            return f"(Num.ofRat ({self.vec(e.value)}.getD {self.nat(e.slice)} 0))"
        if isinstance(e, ast.Call):
            f = dotted(e.func)
            if e.keywords:
                raise Untranslatable(f"keyword arguments in `{ast.unparse(e)}`")
            if f in ("np.exp", "numpy.exp", "math.exp") and len(e.args) == 1:
                return f"(Num.exp {self.num(e.args[0])})"
            if f in ("np.sqrt", "numpy.sqrt", "math.sqrt") and len(e.args) == 1:
                a = e.args[0]
                if isinstance(a, ast.Constant) and a.value in (2, 2.0) and not isinstance(a.value, bool):
                    return "Num.sqrt2"
                raise Untranslatable(f"`{ast.unparse(e)}` (only sqrt(2) is in the number class)")
            if f in ("abs", "np.abs", "numpy.abs", "math.fabs") and len(e.args) == 1:
                return f"(NumOrd.abs {self.num(e.args[0])})"
            if f is not None and "." not in f and f not in self.env and len(e.args) == 1:
                sp = self.mod.special_function(f)
                if sp is not None:
                    return f"(Num.{sp} {self.num(e.args[0])})"
            raise Untranslatable(f"call `{ast.unparse(e)[:60]}`")
        raise Untranslatable(f"expression `{ast.unparse(e)[:60]}`")

    def module_constant(self, name: str) -> str:
        v = self.mod.assigns[name]
        saved, self.env = self.env, {}
        try:
            return self.num(v)
        finally:
            self.env = saved

    def boolean(self, e) -> str:
        if isinstance(e, ast.Constant) and isinstance(e.value, bool):
            return "true" if e.value else "false"
        if isinstance(e, ast.Name):
            if e.id in self.env:
                k, v = self.env[e.id]
                if k == "bool":
                    return v
                raise Untranslatable(f"`{e.id}` ({k}) used as a truth value")
            if self.params.get(e.id) == "bool":
                return ident(e.id)
            raise Untranslatable(f"`{e.id}` used as a truth value")
        if isinstance(e, ast.BoolOp):
            op = " && " if isinstance(e.op, ast.And) else " || "
            return "(" + op.join(self.boolean(v) for v in e.values) + ")"
        if isinstance(e, ast.UnaryOp) and isinstance(e.op, ast.Not):
            return f"(!{self.boolean(e.operand)})"
        if isinstance(e, ast.Compare) and len(e.ops) == 1:
            a, b = self.num(e.left), self.num(e.comparators[0])
            op = type(e.ops[0])
            if op is ast.Lt:
                return f"(NumOrd.lt (α := α) {a} {b})"
            if op is ast.Gt:
                return f"(NumOrd.lt (α := α) {b} {a})"
            if op is ast.LtE:
                return f"(!(NumOrd.lt (α := α) {b} {a}))"
            if op is ast.GtE:
                return f"(!(NumOrd.lt (α := α) {a} {b}))"
            raise Untranslatable(f"comparison `{ast.unparse(e)}`")
        raise Untranslatable(f"condition `{ast.unparse(e)[:60]}`")

    def value(self, e):
        """(kind, lean) of the right-hand side of a scalar assignment"""
        if isinstance(e, (ast.Compare, ast.BoolOp)) or (isinstance(e, ast.UnaryOp) and isinstance(e.op, ast.Not)) \
                or (isinstance(e, ast.Constant) and isinstance(e.value, bool)):
            return "bool", self.boolean(e)
        if isinstance(e, ast.Name) and (self.env.get(e.id, (None,))[0] == "bool" or
                                        (e.id not in self.env and self.params.get(e.id) == "bool")):
            return "bool", self.boolean(e)
        return "num", self.num(e)

    # -- statements -----------------------------------------------------------------------------
    def store_fn(self, op, e) -> str:
        rhs = self.num(e)
        if op is None:
            return f"(fun _ => {rhs})"
        name = {ast.Add: "add", ast.Sub: "sub", ast.Mult: "mul", ast.Div: "div"}.get(type(op))
        if name is None:
            raise Untranslatable(f"augmented store `{type(op).__name__}`")
        return f"(fun x => Num.{name} x {rhs})"

    def store(self, target, op, e, ind) -> str:
        s = ident(self.state)
        if self.state_kind != "mat":
            raise Untranslatable("element store into a 3-D array")
        if not (isinstance(target, ast.Subscript) and isinstance(target.value, ast.Name) and target.value.id == self.state
                and isinstance(target.slice, ast.Tuple) and len(target.slice.elts) == 2):
            raise Untranslatable(f"store `{ast.unparse(target)}`")
        i, j = (self.nat(x) for x in target.slice.elts)
        return f"matUpd {s} {i} {j} {self.store_fn(op, e)}"

    def assign_scalar(self, name: str, kv, loop_bound):
        if name == self.state or name in self.params:
            raise Untranslatable(f"parameter `{name}` is reassigned")
        if name in loop_bound:
            raise Untranslatable(f"`{name}` is assigned inside a loop but bound outside it (loop-carried value)")
        self.env[name] = kv

    def block(self, stmts, ind, loop_bound, top=False) -> str:
        """the statements as an expression of the state's type; `loop_bound` = names bound outside the innermost loop"""
        s = ident(self.state)
        pad = " " * ind
        lines = []
        for st in stmts:
            if isinstance(st, ast.Expr) and isinstance(st.value, ast.Constant) and isinstance(st.value.value, str):
                continue
            if isinstance(st, ast.Pass):
                continue
            if isinstance(st, ast.Return) and (st.value is None or (isinstance(st.value, ast.Constant) and st.value.value is None)):
                if not (top and st is stmts[-1]):
                    raise Untranslatable("early return")
                continue
            if isinstance(st, ast.Assign) and len(st.targets) == 1:
                t = st.targets[0]
                if isinstance(t, ast.Name):
                    self.assign_scalar(t.id, self.value(st.value), loop_bound or ())
                    continue
                if isinstance(t, ast.Tuple) and isinstance(st.value, ast.Tuple) and len(t.elts) == len(st.value.elts) \
                        and all(isinstance(x, ast.Name) for x in t.elts):
                    vals = [self.value(v) for v in st.value.elts]         # right-hand sides first (Python semantics)
                    for x, kv in zip(t.elts, vals):
                        self.assign_scalar(x.id, kv, loop_bound or ())
                    continue
                if isinstance(t, ast.Subscript):
                    lines.append(f"{pad}let {s} := {self.store(t, None, st.value, ind)}")
                    continue
                raise Untranslatable(f"assignment `{ast.unparse(st)[:60]}`")
            if isinstance(st, ast.AugAssign):
                if isinstance(st.target, ast.Subscript):
                    lines.append(f"{pad}let {s} := {self.store(st.target, st.op, st.value, ind)}")
                    continue
                if isinstance(st.target, ast.Name) and st.target.id == self.state and isinstance(st.op, ast.Div):
                    f = "matDivScalar" if self.state_kind == "mat" else "slabDivScalar"
                    lines.append(f"{pad}let {s} := {f} {s} {self.num(st.value)}")
                    continue
                raise Untranslatable(f"augmented assignment `{ast.unparse(st)[:60]}`")
            if isinstance(st, ast.For):
                if st.orelse or not isinstance(st.target, ast.Name):
                    raise Untranslatable("for loop with else / tuple target")
                it = st.iter
                if not (isinstance(it, ast.Call) and dotted(it.func) in ("range", "nb.prange", "numba.prange", "prange")
                        and len(it.args) == 1 and not it.keywords):
                    raise Untranslatable(f"loop over `{ast.unparse(it)[:40]}`")
                n = self.length(it.args[0])
                v = st.target.id
                if v in self.env or v in self.params:
                    raise Untranslatable(f"loop variable `{v}` shadows a name")
                saved = dict(self.env)
                self.env[v] = ("idx", ident(v))
                body = self.block(st.body, ind + 2, set(saved) | {v})
                self.env = saved
                lines.append(f"{pad}let {s} := forRange {n} {s} (fun {ident(v)} {s} =>\n{body})")
                continue
            if isinstance(st, ast.If):
                c = self.boolean(st.test)
                saved = dict(self.env)
                b1 = self.block(st.body, ind + 2, loop_bound)
                env1, self.env = self.env, dict(saved)
                b2 = self.block(st.orelse, ind + 2, loop_bound)
                env2 = self.env
                merged = dict(saved)
                for name in sorted(set(env1) | set(env2)):
                    a, b = env1.get(name), env2.get(name)
                    if a == b:
                        if a is not None:
                            merged[name] = a
                    elif a is not None and b is not None and a[0] == b[0] and a[0] in ("num", "bool"):
                        merged[name] = (a[0], f"(if {c} then {a[1]} else {b[1]})")
                    elif name in saved:
                        raise Untranslatable(f"`{name}` changes kind in a branch")
                    # a name bound in one branch only stays unbound afterwards (its use would be refused)
                self.env = merged
                lines.append(f"{pad}let {s} := if {c} then\n{b1}\n{pad}else\n{b2}")
                continue
            if isinstance(st, ast.Expr) and isinstance(st.value, ast.Call):
                lines.append(f"{pad}let {s} := {self.kernel_call(st.value)}")
                continue
            raise Untranslatable(f"statement `{ast.unparse(st)[:60]}`")
        lines.append(f"{pad}{s}")
        return "\n".join(lines)

    def kernel_call(self, call) -> str:
        f = dotted(call.func)
        if f not in self.known or call.keywords:
            raise Untranslatable(f"call `{ast.unparse(call)[:60]}`")
        params = self.known[f]
        if len(call.args) != len(params):
            raise Untranslatable(f"`{f}` is called with {len(call.args)} arguments, it takes {len(params)}")
        s = ident(self.state)
        out = call.args[0]
        args = []
        for a, (pname, kind) in zip(call.args[1:], params[1:]):
            if kind == "vec":
                args.append(self.vec(a))
            elif kind == "bool":
                args.append(self.boolean(a))
            elif kind == "scalar":
                args.append(self.scalar_arg(a))
            elif kind == "vec2":
                args.append(self.vec2(a))
            else:
                raise Untranslatable(f"argument kind {kind}")
        tail = " ".join(args)
        if params[0][1] == "mat3":
            if isinstance(out, ast.Name) and out.id == self.state and self.state_kind == "mat3":
                return f"{ident(f)} {s} {tail}"
            raise Untranslatable(f"output argument `{ast.unparse(out)}` of `{f}`")
        if isinstance(out, ast.Name) and out.id == self.state and self.state_kind == "mat":
            return f"{ident(f)} {s} {tail}"
        if isinstance(out, ast.Subscript) and isinstance(out.value, ast.Name) and out.value.id == self.state \
                and self.state_kind == "mat3":
            return f"slabUpd {s} {self.nat(out.slice)} (fun m => {ident(f)} m {tail})"
        raise Untranslatable(f"output argument `{ast.unparse(out)}`")

    def vec2(self, e) -> str:
        if isinstance(e, ast.Name) and e.id not in self.env and self.params.get(e.id) == "vec2":
            return ident(e.id)
        raise Untranslatable(f"2-D array argument `{ast.unparse(e)}`")

    def scalar_arg(self, a) -> str:
        if isinstance(a, ast.Name) and a.id not in self.env and self.params.get(a.id) == "scalar":
            return ident(a.id)
        raise Untranslatable(f"scalar argument `{ast.unparse(a)}`")

    def translate(self) -> str:
        a = self.fn.args
        if a.vararg or a.kwarg or a.kwonlyargs or a.posonlyargs or a.defaults:
            raise Untranslatable("signature with defaults / varargs")
        names = [x.arg for x in a.args]
        if names != list(self.params):
            raise Untranslatable(f"signature changed: {names}")
        return self.block(self.fn.body, 2, None, top=True)


def kernel_signature(name, params) -> str:
    args = " ".join(f"({ident(p)} : {KIND_TYPE[k]})" for p, k in params)
    return f"def {ident(name)} {{α : Type}} [NumOrd α] {args} : {KIND_TYPE[params[0][1]]} :="


def translate_kernels(repo: Path):
    """[(name, file, lean text, status)] in dependency order"""
    mods = {}
    out = []
    known = {}
    for name, (file, params) in KERNELS.items():
        mod = mods.setdefault(file, Module(repo / file))
        fn = mod.funcs.get(name)
        sig = kernel_signature(name, params)
        try:
            if fn is None:
                raise Untranslatable(f"function `{name}` not found in {file}")
            body = KernelTranslator(mod, fn, params, known).translate()
            status = "translated"
        except Untranslatable as e:
            body = f"  untranslatable {lean_str(str(e))}"
            status = f"untranslatable: {e}"
        except RecursionError:
            body = f"  untranslatable {lean_str('expression too deep')}"
            status = "untranslatable: expression too deep"
        doc = f"/-- {file}:{fn.lineno if fn is not None else '?'} `{name}` -/"
        out.append((name, file, f"{doc}\n{sig}\n{body}\n", status))
        known[name] = params
    return out


# ------------------------------------------------------------------------------------------
# rendering
# ------------------------------------------------------------------------------------------
HEADER = """/-
GENERATED by harness/props/_c05_translate.py (c05.generate) from the source of VERIF_REPO — do not edit.
Function-level translation of the decay kernels, their glue and the IRF parameter functions.
-/
import GlotaranModel.C05Rt
namespace Glotaran.C05.Gen
open Glotaran.C05

"""


def render(repo: Path):
    parts = [HEADER]
    table = []
    for name, file, text, status in translate_kernels(repo):
        parts.append(text + "\n")
        table.append({"function": name, "file": file, "status": status})
    for name, file, text, status in translate_glue(repo) + translate_irf(repo):
        parts.append(text + "\n")
        table.append({"function": name, "file": file, "status": status})
    parts.append("end Glotaran.C05.Gen\n")
    return "".join(parts), table



# ------------------------------------------------------------------------------------------
# glue: util.py `decay_matrix_implementation_index_independent`
# ------------------------------------------------------------------------------------------
# Subset: straight-line code over the output array, with
#   `if isinstance(dataset_model.irf, IrfMultiGaussian): A else: B`  ->  `match irf with | some irf => A | none => B` (last statement)
#   `(c, w, s, shift, bs, T) = dataset_model.irf.parameter(None | index, global_axis)`  ->  bind of the model's `parameter`
#        (its six results by position; an exception of `parameter` propagates)
#   calls of translated kernels on the output array with array arguments `name`, `name - shift` (numpy broadcasting)
#   `if dataset_model.irf.normalize: matrix /= np.sum(irf_scales)`
# The A-matrix product, `np.zeros` and the finiteness check of `calculate_matrix` are not translated (model: `calculateMatrix`,
# tied by differential execution).
GLUE = {
    "decay_matrix_implementation_index_independent": (UTIL_FILE, [
        ("matrix", "mat"), ("rates", "vec"), ("global_axis", "vec"), ("model_axis", "vec"), ("dataset_model", "dsopt")]),
    # called only when `index_dependent(dataset_model)`, i.e. with a Gaussian IRF
    "decay_matrix_implementation_index_dependent": (UTIL_FILE, [
        ("matrix", "mat3"), ("rates", "vec"), ("global_axis", "vec"), ("model_axis", "vec"), ("dataset_model", "ds")]),
}
STATE_TYPE = {"vec": "List Rat", "vec2": "List (List Rat)", "bool": "Bool", "rat": "Rat"}
GLUE_TYPE = dict(KIND_TYPE, dsopt="Option Irf", ds="Irf")
PARAM_FIELDS = [("vec", "centers"), ("vec", "widths"), ("vec", "scales"), ("rat", "shift"), ("bool", "backsweep"), ("rat", "period")]


class GlueTranslator(KernelTranslator):
    def __init__(self, mod, fn, params, known_kernels):
        super().__init__(mod, fn, params, known_kernels)
        self.irf_bound = self.params.get("dataset_model") == "ds"
        self.nbind = 0

    def is_irf(self, e) -> bool:
        return dotted(e) == "dataset_model.irf"

    def need_irf(self):
        if not self.irf_bound:
            raise Untranslatable("`dataset_model.irf` is used as a Gaussian IRF outside an isinstance test")

    def rat(self, e) -> str:
        if isinstance(e, ast.Constant) and not isinstance(e.value, bool) and isinstance(e.value, (int, float)):
            return rat_of(e.value)
        if isinstance(e, ast.Name) and e.id in self.env and self.env[e.id][0] == "rat":
            return self.env[e.id][1]
        if isinstance(e, ast.Call) and dotted(e.func) in ("np.sum", "numpy.sum", "sum") and len(e.args) == 1 and not e.keywords:
            return f"({self.vec(e.args[0])}).sum"
        if isinstance(e, ast.BinOp):
            op = {ast.Add: "+", ast.Sub: "-", ast.Mult: "*", ast.Div: "/"}.get(type(e.op))
            if op:
                return f"({self.rat(e.left)} {op} {self.rat(e.right)})"
        raise Untranslatable(f"scalar expression `{ast.unparse(e)[:60]}`")

    def vec(self, e) -> str:
        if isinstance(e, ast.BinOp) and isinstance(e.op, (ast.Sub, ast.Add)):
            f = "vecSubScalar" if isinstance(e.op, ast.Sub) else "vecAddScalar"
            return f"({f} {self.vec(e.left)} {self.rat(e.right)})"
        return super().vec(e)

    def num(self, e) -> str:
        # a double computed by the glue is an exact rational embedded in the number class
        return f"(Num.ofRat {self.rat(e)})"

    def boolean(self, e) -> str:
        if dotted(e) == "dataset_model.irf.normalize":
            self.need_irf()
            return "irf.normalize"
        return super().boolean(e)

    def scalar_arg(self, a) -> str:
        return self.rat(a)

    def vec2(self, e) -> str:
        if isinstance(e, ast.Call) and dotted(e.func) in ("np.array", "np.asarray", "numpy.array", "numpy.asarray") \
                and len(e.args) == 1 and not e.keywords:
            return self.vec2(e.args[0])
        if isinstance(e, ast.Name) and self.env.get(e.id, (None,))[0] == "vec2":
            return self.env[e.id][1]
        return super().vec2(e)

    def glue_value(self, e):
        """(kind, lean) of a right-hand side in the glue: `[]`, `False`, `None`, arrays, scalars"""
        if isinstance(e, ast.List) and not e.elts:
            return "empty", "[]"
        if isinstance(e, ast.Constant) and e.value is None:
            return "none", "0"          # a placeholder that is overwritten before it is read (see the loop rule)
        if isinstance(e, ast.Constant) and isinstance(e.value, bool):
            return "bool", "true" if e.value else "false"
        if isinstance(e, ast.Name) and e.id in self.env and self.env[e.id][0] in ("vec", "vec2", "rat", "bool"):
            return self.env[e.id]
        for kind, f in (("vec", self.vec), ("rat", self.rat), ("bool", self.boolean)):
            try:
                return kind, f(e)
            except Untranslatable:
                pass
        raise Untranslatable(f"value `{ast.unparse(e)[:60]}`")

    def glue_assign(self, st) -> bool:
        """scalar / list bookkeeping of the glue; True when the statement was consumed"""
        if isinstance(st, ast.Assign) and len(st.targets) == 1:
            t, v = st.targets[0], st.value
            if isinstance(v, ast.Call) and dotted(v.func) == "dataset_model.irf.parameter":
                return False
            pairs = None
            if isinstance(t, ast.Name):
                pairs = [(t, v)]
            elif isinstance(t, ast.Tuple) and isinstance(v, ast.Tuple) and len(t.elts) == len(v.elts) \
                    and all(isinstance(x, ast.Name) for x in t.elts):
                pairs = list(zip(t.elts, v.elts))
            if pairs is None:
                return False
            vals = [self.glue_value(x) for _, x in pairs]
            for (n, _), kv in zip(pairs, vals):
                if n.id in self.params:
                    raise Untranslatable(f"parameter `{n.id}` is reassigned")
                self.env[n.id] = kv
            return True
        if isinstance(st, ast.Expr) and isinstance(st.value, ast.Call) and isinstance(st.value.func, ast.Attribute) \
                and st.value.func.attr == "append" and isinstance(st.value.func.value, ast.Name) and len(st.value.args) == 1:
            name = st.value.func.value.id
            kind, cur = self.env.get(name, (None, None))
            if kind not in ("empty", "vec2"):
                raise Untranslatable(f"`{name}.append` on a {kind}")
            self.env[name] = ("vec2", f"({cur} ++ [{self.vec(st.value.args[0])}])")
            return True
        return False

    def assigned_names(self, stmts):
        out = []
        for st in stmts:
            for n in ast.walk(st):
                if isinstance(n, ast.Name) and isinstance(n.ctx, ast.Store) and n.id not in out:
                    out.append(n.id)
                if isinstance(n, ast.Call) and isinstance(n.func, ast.Attribute) and n.func.attr == "append" \
                        and isinstance(n.func.value, ast.Name) and n.func.value.id not in out:
                    out.append(n.func.value.id)
        return out

    def loop(self, st, rest, ind) -> str:
        """a loop whose body calls irf.parameter: state = names bound before it and assigned in it (in binding order);
        every state name must be assigned in every iteration before the iteration ends (so a `None` / `[]`
        placeholder only survives a loop that runs zero times), and is used afterwards with the kind the body gives it"""
        pad = " " * ind
        it = st.iter
        if st.orelse or not isinstance(st.target, ast.Name) or not (
                isinstance(it, ast.Call) and dotted(it.func) == "range" and len(it.args) == 1 and not it.keywords):
            raise Untranslatable(f"loop `{ast.unparse(st)[:50]}`")
        n = self.length(it.args[0])
        v = st.target.id
        if v in self.env or v in self.params:
            raise Untranslatable(f"loop variable `{v}` shadows a name")
        assigned = self.assigned_names(st.body)
        if self.state in assigned:
            raise Untranslatable("the output array is written inside a loop that calls irf.parameter")
        state = [x for x in self.env if x in assigned]
        if not state:
            raise Untranslatable("loop without state")

        def proj(k, var):
            return var + "".join([".2"] * k) + (".1" if k < len(state) - 1 else "")

        saved = dict(self.env)
        for k, x in enumerate(state):
            self.env[x] = (saved[x][0], proj(k, "st"))
        self.env[v] = ("idx", ident(v))
        finals = {}

        def final(_ind):
            for x in state:
                if self.env[x][1] == proj(state.index(x), "st"):
                    raise Untranslatable(f"`{x}` is not assigned in every iteration")
                finals[x] = self.env[x]
            return " " * _ind + ".ok (" + ", ".join(self.env[x][1] for x in state) + ")"

        body = self.gblock(st.body, ind + 4, final=final)
        inits = []
        for x in state:
            k0, v0 = saved[x]
            k1 = finals[x][0]
            ok = (k0 == k1) or (k0 == "empty" and k1 in ("vec", "vec2")) or (k0 == "none" and k1 == "rat")
            if not ok or k1 not in STATE_TYPE:
                raise Untranslatable(f"`{x}` is a {k0} before the loop and a {k1} in it")
            inits.append(f"({v0} : {STATE_TYPE[k1]})")
        self.env = {x: kv for x, kv in saved.items()}
        for k, x in enumerate(state):
            self.env[x] = (finals[x][0], proj(k, "st"))
        tail = self.gblock(rest, ind + 2)
        return f"{pad}bindE (forRangeM {n} ({', '.join(inits)}) (fun {ident(v)} st =>\n{body})) (fun st =>\n{tail})"

    def monadic(self, st) -> bool:
        for n in ast.walk(st):
            if isinstance(n, ast.Call) and dotted(n.func) in ("dataset_model.irf.parameter", "isinstance"):
                return True
        return False

    def gblock(self, stmts, ind, final=None) -> str:
        """statements -> expression of type `Except IrfError <state>`"""
        s = ident(self.state)
        pad = " " * ind
        lines = []
        for k, st in enumerate(stmts):
            if isinstance(st, ast.Expr) and isinstance(st.value, ast.Constant) and isinstance(st.value.value, str):
                continue
            if self.glue_assign(st):
                continue
            if isinstance(st, ast.For) and self.monadic(st):
                lines.append(self.loop(st, stmts[k + 1:], ind))
                return "\n".join(lines)
            if not self.monadic(st):
                # pure statement: reuse the kernel translator (stores, kernel calls, `if`, `matrix /= e`)
                txt = self.block([st], ind, None)
                lines += txt.split("\n")[:-1]            # drop the trailing state line
                continue
            if isinstance(st, ast.If):
                t = st.test
                if not (isinstance(t, ast.Call) and dotted(t.func) == "isinstance" and len(t.args) == 2 and self.is_irf(t.args[0])
                        and dotted(t.args[1]) == "IrfMultiGaussian"):
                    raise Untranslatable(f"condition `{ast.unparse(t)[:60]}` around a call of irf.parameter")
                if k != len(stmts) - 1:
                    raise Untranslatable("statements after the isinstance test")
                if self.irf_bound or self.params.get("dataset_model") != "dsopt":
                    raise Untranslatable("nested isinstance test")
                saved = dict(self.env)
                self.irf_bound = True
                a = self.gblock(st.body, ind + 4)
                self.irf_bound = False
                self.env = dict(saved)
                b = self.gblock(st.orelse, ind + 4)
                self.env = saved
                lines.append(f"{pad}match irf with\n{pad}| some irf =>\n{a}\n{pad}| none =>\n{b}")
                return "\n".join(lines)
            if isinstance(st, ast.Assign) and len(st.targets) == 1 and isinstance(st.targets[0], ast.Tuple) \
                    and isinstance(st.value, ast.Call) and dotted(st.value.func) == "dataset_model.irf.parameter":
                self.need_irf()
                names = st.targets[0].elts
                c = st.value
                if len(names) != 6 or not all(isinstance(x, ast.Name) for x in names) or len(c.args) != 2 or c.keywords:
                    raise Untranslatable(f"`{ast.unparse(st)[:60]}`: irf.parameter returns six values")
                gi = c.args[0]
                if isinstance(gi, ast.Constant) and gi.value is None:
                    gis = "none"
                elif isinstance(gi, ast.Name) and self.env.get(gi.id, (None,))[0] == "idx":
                    gis = f"(some {ident(gi.id)})"
                else:
                    raise Untranslatable(f"global index `{ast.unparse(gi)}`")
                axis = self.vec(c.args[1])
                self.nbind += 1
                pv = "p" if self.nbind == 1 else f"p{self.nbind}"
                for x, (kind, field) in zip(names, PARAM_FIELDS):
                    if x.id in self.params:
                        raise Untranslatable(f"parameter `{x.id}` is reassigned")
                    self.env[x.id] = (kind, f"{pv}.{field}")
                rest = self.gblock(stmts[k + 1:], ind + 2, final=final)
                lines.append(f"{pad}bindE (parameter irf {gis} {axis}) (fun {pv} =>\n{rest})")
                return "\n".join(lines)
            raise Untranslatable(f"statement `{ast.unparse(st)[:60]}`")
        lines.append(final(ind) if final is not None else f"{pad}.ok {s}")
        return "\n".join(lines)

    def translate(self) -> str:
        a = self.fn.args
        if a.vararg or a.kwarg or a.kwonlyargs or a.posonlyargs or a.defaults:
            raise Untranslatable("signature with defaults / varargs")
        names = [x.arg for x in a.args]
        if names != list(self.params):
            raise Untranslatable(f"signature changed: {names}")
        return self.gblock(self.fn.body, 2)


def glue_signature(name, params) -> str:
    args = " ".join(f"({'irf' if k in ('ds', 'dsopt') else ident(p)} : {GLUE_TYPE[k]})" for p, k in params)
    return f"def {ident(name)} {{α : Type}} [NumOrd α] {args} : Except IrfError ({GLUE_TYPE[params[0][1]]}) :="


def translate_glue(repo: Path):
    out = []
    known = {n: p for n, (_, p) in KERNELS.items()}
    for name, (file, params) in GLUE.items():
        mod = Module(repo / file)
        fn = mod.funcs.get(name)
        try:
            if fn is None:
                raise Untranslatable(f"function `{name}` not found in {file}")
            body = GlueTranslator(mod, fn, params, known).translate()
            status = "translated"
        except Untranslatable as e:
            body = f"  .ok (untranslatable {lean_str(str(e))})"
            status = f"untranslatable: {e}"
        doc = f"/-- {file}:{fn.lineno if fn is not None else '?'} `{name}` -/"
        out.append((name, file, f"{doc}\n{glue_signature(name, params)}\n{body}\n", status))
    return out


# ------------------------------------------------------------------------------------------
# irf.py: is_index_dependent (both classes), the dispersion variable and the two dispersion loops of
# IrfSpectralMultiGaussian.parameter
# ------------------------------------------------------------------------------------------
OPT_FIELDS = {"shift": "shift", "dispersion_center": "dispersionCenter", "scale": "scale", "backsweep_period": "backsweepPeriod"}


class IrfTranslator:
    def __init__(self, mod: Module):
        self.mod = mod

    def method(self, cls: str, name: str):
        c = self.mod.classes.get(cls)
        if c is None:
            raise Untranslatable(f"class `{cls}` not found")
        for st in c.body:
            if isinstance(st, ast.FunctionDef) and st.name == name:
                return st
        raise Untranslatable(f"`{cls}.{name}` not found")

    # -- is_index_dependent ---------------------------------------------------------------------
    def cond(self, e, base_fn) -> str:
        if isinstance(e, ast.BoolOp):
            op = " && " if isinstance(e.op, ast.And) else " || "
            return "(" + op.join(self.cond(v, base_fn) for v in e.values) + ")"
        if isinstance(e, ast.UnaryOp) and isinstance(e.op, ast.Not):
            return f"(!{self.cond(e.operand, base_fn)})"
        if isinstance(e, ast.Compare) and len(e.ops) == 1 and isinstance(e.comparators[0], ast.Constant) \
                and e.comparators[0].value is None and dotted(e.left) in {f"self.{k}" for k in OPT_FIELDS}:
            fld = OPT_FIELDS[dotted(e.left)[5:]]
            if isinstance(e.ops[0], ast.IsNot):
                return f"irf.{fld}.isSome"
            if isinstance(e.ops[0], ast.Is):
                return f"irf.{fld}.isNone"
        if isinstance(e, ast.Call) and not e.args and isinstance(e.func, ast.Attribute) and e.func.attr == "is_index_dependent" \
                and isinstance(e.func.value, ast.Call) and dotted(e.func.value.func) == "super" and base_fn:
            return f"({base_fn} irf)"
        raise Untranslatable(f"condition `{ast.unparse(e)[:60]}`")

    def index_dependent(self, cls, base_fn):
        fn = self.method(cls, "is_index_dependent")
        body = [st for st in fn.body if not (isinstance(st, ast.Expr) and isinstance(st.value, ast.Constant))]
        if len(body) != 1 or not isinstance(body[0], ast.Return) or body[0].value is None:
            raise Untranslatable(f"`{cls}.is_index_dependent` is not a single return")
        return fn.lineno, "  " + self.cond(body[0].value, base_fn)

    # -- rational expressions of `parameter` --------------------------------------------------------
    def rat(self, e, names) -> str:
        if isinstance(e, ast.Constant) and isinstance(e.value, (int, float)) and not isinstance(e.value, bool):
            return rat_of(e.value)
        d = dotted(e)
        if d in names:
            return names[d]
        if isinstance(e, ast.BinOp):
            op = {ast.Add: "+", ast.Sub: "-", ast.Mult: "*", ast.Div: "/"}.get(type(e.op))
            if op:
                return f"({self.rat(e.left, names)} {op} {self.rat(e.right, names)})"
            if isinstance(e.op, ast.Pow):
                return f"({self.rat(e.left, names)} ^ {self.nat(e.right, names)})"
        if isinstance(e, ast.UnaryOp) and isinstance(e.op, ast.USub):
            return f"(-{self.rat(e.operand, names)})"
        if isinstance(e, ast.Call) and dotted(e.func) in ("np.power", "numpy.power", "pow") and len(e.args) == 2 and not e.keywords:
            return f"({self.rat(e.args[0], names)} ^ {self.nat(e.args[1], names)})"
        raise Untranslatable(f"expression `{ast.unparse(e)[:60]}`")

    def nat(self, e, names) -> str:
        if isinstance(e, ast.Constant) and isinstance(e.value, int) and not isinstance(e.value, bool) and e.value >= 0:
            return str(e.value)
        if isinstance(e, ast.Name) and names.get("#nat") == e.id:
            return ident(e.id)
        if isinstance(e, ast.BinOp) and isinstance(e.op, (ast.Add, ast.Mult)):
            return f"({self.nat(e.left, names)} {'+' if isinstance(e.op, ast.Add) else '*'} {self.nat(e.right, names)})"
        raise Untranslatable(f"exponent `{ast.unparse(e)[:40]}`")

    def dist(self):
        fn = self.method("IrfSpectralMultiGaussian", "parameter")
        found = [n for n in ast.walk(fn) if isinstance(n, ast.Assign) and len(n.targets) == 1
                 and isinstance(n.targets[0], ast.Name) and n.targets[0].id == "dist"]
        if len(found) != 1:
            raise Untranslatable(f"{len(found)} assignments to `dist`")
        v = found[0].value
        names = {"index": "index", "self.dispersion_center": "dispersion_center"}
        if isinstance(v, ast.IfExp):
            if dotted(v.test) != "self.model_dispersion_with_wavenumber":
                raise Untranslatable(f"switch `{ast.unparse(v.test)[:40]}`")
            return found[0].lineno, (f"  if model_dispersion_with_wavenumber then {self.rat(v.body, names)} "
                                     f"else {self.rat(v.orelse, names)}")
        return found[0].lineno, "  " + self.rat(v, names)

    def dispersion_loops(self):
        """the blocks `if len(self.<c>_dispersion_coefficients) != 0: ... for i, disp in enumerate(self.<c>_...): T += / T = T + e`
        in source order -> successive `let T := if coefs.length != 0 then enumFold coefs T (...) else T`"""
        fn = self.method("IrfSpectralMultiGaussian", "parameter")
        lines = []
        seen = []
        for st in fn.body:
            if not (isinstance(st, ast.If) and isinstance(st.test, ast.Compare) and len(st.test.ops) == 1
                    and isinstance(st.test.ops[0], ast.NotEq) and isinstance(st.test.left, ast.Call)
                    and dotted(st.test.left.func) == "len" and isinstance(st.test.comparators[0], ast.Constant)
                    and st.test.comparators[0].value == 0):
                continue
            coef = dotted(st.test.left.args[0]) or ""
            if coef not in ("self.center_dispersion_coefficients", "self.width_dispersion_coefficients"):
                continue
            cname = coef[5:]
            loops = [x for x in st.body if isinstance(x, ast.For)]
            others = [x for x in st.body if not isinstance(x, (ast.For, ast.If))]
            if len(loops) != 1 or others or st.orelse:
                raise Untranslatable(f"block of `{cname}`")
            lp = loops[0]
            if not (isinstance(lp.iter, ast.Call) and dotted(lp.iter.func) == "enumerate" and len(lp.iter.args) == 1
                    and dotted(lp.iter.args[0]) == coef and isinstance(lp.target, ast.Tuple) and len(lp.target.elts) == 2
                    and all(isinstance(x, ast.Name) for x in lp.target.elts) and len(lp.body) == 1):
                raise Untranslatable(f"loop of `{cname}`")
            iv, dv = (x.id for x in lp.target.elts)
            b = lp.body[0]
            if isinstance(b, ast.AugAssign) and isinstance(b.op, ast.Add) and isinstance(b.target, ast.Name):
                tgt, e = b.target.id, b.value
            elif isinstance(b, ast.Assign) and len(b.targets) == 1 and isinstance(b.targets[0], ast.Name) \
                    and isinstance(b.value, ast.BinOp) and isinstance(b.value.op, ast.Add) \
                    and isinstance(b.value.left, ast.Name) and b.value.left.id == b.targets[0].id:
                tgt, e = b.targets[0].id, b.value.right
            else:
                raise Untranslatable(f"loop body `{ast.unparse(b)[:50]}`")
            if tgt not in ("centers", "widths"):
                raise Untranslatable(f"dispersion applied to `{tgt}`")
            names = {dv: ident(dv), "dist": "dist", "#nat": iv}
            lines.append(f"  let {tgt} := if {cname}.length != 0 then enumFold {cname} {tgt} "
                         f"(fun {ident(iv)} {ident(dv)} {tgt} => vecAddScalar {tgt} {self.rat(e, names)}) else {tgt}")
            seen.append(cname)
        if sorted(seen) != ["center_dispersion_coefficients", "width_dispersion_coefficients"]:
            raise Untranslatable(f"dispersion blocks found: {seen}")
        lines.append("  (centers, widths)")
        return fn.lineno, "\n".join(lines)


def translate_irf(repo: Path):
    mod = Module(repo / IRF_FILE)
    tr = IrfTranslator(mod)
    items = [
        ("is_index_dependent_base", "def is_index_dependent_base (irf : Irf) : Bool :=",
         lambda: tr.index_dependent("IrfMultiGaussian", None), "  untranslatable"),
        ("is_index_dependent_spectral", "def is_index_dependent_spectral (irf : Irf) : Bool :=",
         lambda: tr.index_dependent("IrfSpectralMultiGaussian", "is_index_dependent_base"), "  untranslatable"),
        ("dispersion_dist", "def dispersion_dist (model_dispersion_with_wavenumber : Bool) (index dispersion_center : Rat) : Rat :=",
         tr.dist, "  untranslatable"),
        ("spectral_dispersion", "def spectral_dispersion (center_dispersion_coefficients width_dispersion_coefficients : List Rat) "
                                "(dist : Rat) (centers widths : List Rat) : List Rat × List Rat :=",
         tr.dispersion_loops, "  untranslatable"),
    ]
    out = []
    for name, sig, f, un in items:
        try:
            line, body = f()
            status = "translated"
        except Untranslatable as e:
            line, body, status = "?", f"{un} {lean_str(str(e))}", f"untranslatable: {e}"
        out.append((name, IRF_FILE, f"/-- {IRF_FILE}:{line} `{name}` -/\n{sig}\n{body}\n", status))
    return out


def source_sha1(repo: Path) -> dict:
    out = {}
    for f in (KERNEL_FILE, UTIL_FILE, IRF_FILE):
        p = repo / f
        out[f] = hashlib.sha1(p.read_bytes()).hexdigest() if p.exists() else None
    return out


# ==========================================================================================
# method-level translation (second generated file, lean/GlotaranModel/Generated/C05Irf.lean — imported by the proofs of
# C05 only): irf.py `IrfMultiGaussian.parameter`, `IrfMultiGaussian.calculate`, `IrfSpectralMultiGaussian.
# calculate_dispersion`; util.py `index_dependent`, `calculate_matrix` (np.zeros, the two glue calls, the finiteness check,
# the A-matrix product) and `retrieve_irf`.
#
# Subset: straight-line code with `if` / `raise` / `return` over values of the kinds
#     rats (list / 1-D array of doubles or Parameters), rat (a double or a Parameter: `.value` is the identity), nat, bool,
#     onat (`global_index`: an int or None), orats / orat (optional attributes), lit (a numeric literal), str (ignored)
# into the exception monad `Except IrfError`:  an expression that may raise is bound with `bindE` in evaluation order
# (`xs[i]` -> listGet, a numeric use of `global_index` -> needIndex, `.value` of an optional Parameter -> optValue), a `raise
# ModelError(f"...")` first evaluates the interpolated expressions and then is `.error <class chosen by the message text>`, an
# `if` that assigns names yields them as a tuple.  `x if isinstance(x, list) else [x]`, `np.asarray(x)`, `[p.value for p in x]`
# are the identity (the model's item holds lists of numbers; a single centre is a list of one).  Pure assignments are INLINED,
# bound names are numbered in order of appearance — renaming or hoisting a temporary does not change the generated text.
# ==========================================================================================
IRF_FIELDS = {
    "center": ("rats", "irf.center"), "width": ("rats", "irf.width"), "scale": ("orats", "irf.scale"),
    "shift": ("orats", "irf.shift"), "normalize": ("bool", "irf.normalize"), "backsweep": ("bool", "irf.backsweep"),
    "backsweep_period": ("orat", "irf.backsweepPeriod"), "dispersion_center": ("orat", "irf.dispersionCenter"),
    "center_dispersion_coefficients": ("rats", "irf.centerDisp"), "width_dispersion_coefficients": ("rats", "irf.widthDisp"),
    "model_dispersion_with_wavenumber": ("bool", "irf.wavenumber"), "label": ("str", '""'),
}
INNER = {"orats": "rats", "orat": "rat", "onat": "nat"}
RAISES = [("len(centers)", "lenMismatch"), ("len(scales)", "scaleMismatch"), ("No shift parameter", "noShift"),
          ("No dispersion center", "noDispersionCenter"), ("Non-finite", "nonFiniteMatrix")]


def same_ast(a, b) -> bool:
    return ast.dump(a) == ast.dump(b)


class Ctx:
    """pending binds of one statement, in evaluation order"""

    def __init__(self, tr, bind_fn="bindE"):
        self.tr = tr
        self.binds = []
        self.bind_fn = bind_fn

    def bind(self, kind, eff) -> tuple:
        v = self.tr.fresh()
        self.binds.append((v, eff))
        return kind, v

    def wrap(self, body: str) -> str:
        for v, eff in reversed(self.binds):
            body = f"{self.bind_fn} {eff} (fun {v} =>\n{body})"
        return body


class MethodTranslator:
    def __init__(self, self_name="self", self_prefix=None):
        self.n = 0
        self.self_name = self_name
        self.self_prefix = self_prefix or self_name       # dotted prefix denoting the IRF item

    def fresh(self) -> str:
        self.n += 1
        return f"v{self.n}"

    # -- helpers --------------------------------------------------------------------------------------
    def field(self, e, env):
        """(kind, lean) when `e` is `<item>.<field>`"""
        d = dotted(e)
        if d and d.startswith(self.self_prefix + ".") and d[len(self.self_prefix) + 1:] in IRF_FIELDS:
            f = d[len(self.self_prefix) + 1:]
            return env.get(("narrow", f)) or IRF_FIELDS[f]
        return None

    def as_rat(self, kv) -> str:
        k, v = kv
        if k == "rat":
            return v
        if k == "lit":
            return f"({rat_of(v)} : Rat)"
        raise Untranslatable(f"a {k} is used as a number")

    def as_nat(self, kv, ctx) -> str:
        k, v = kv
        if k == "nat":
            return v
        if k == "lit" and isinstance(v, int) and v >= 0:
            return str(v)
        if k == "onat":
            return ctx.bind("nat", f"(needIndex {v})")[1]
        raise Untranslatable(f"a {k} is used as an index / count")

    def none_test(self, t):
        """(field, positive) for `<item>.<f> is not None` / `is None`"""
        if isinstance(t, ast.Compare) and len(t.ops) == 1 and isinstance(t.comparators[0], ast.Constant) \
                and t.comparators[0].value is None and isinstance(t.ops[0], (ast.Is, ast.IsNot)):
            d = dotted(t.left)
            if d and d.startswith(self.self_prefix + "."):
                f = d[len(self.self_prefix) + 1:]
                if IRF_FIELDS.get(f, ("",))[0] in INNER:
                    return f, isinstance(t.ops[0], ast.IsNot)
        return None

    # -- expressions -----------------------------------------------------------------------------------
    def expr(self, e, env, ctx):
        f = self.field(e, env)
        if f is not None:
            return f
        if isinstance(e, ast.Constant):
            if isinstance(e.value, bool):
                return "bool", "true" if e.value else "false"
            if isinstance(e.value, (int, float)):
                rat_of(e.value)
                return "lit", e.value
            if isinstance(e.value, str):
                return "str", '""'
            raise Untranslatable(f"constant `{e.value!r}`")
        if isinstance(e, ast.Name):
            if e.id in env:
                return env[e.id]
            raise Untranslatable(f"unbound name `{e.id}`")
        if isinstance(e, ast.Attribute) and e.attr in ("value", "data", "values"):
            k, v = self.expr(e.value, env, ctx)
            if k in ("rat", "rats", "nums"):
                return k, v
            if k == "orat" and e.attr == "value":
                return ctx.bind("rat", f"(optValue {v})")
            raise Untranslatable(f"`.{e.attr}` of a {k}")
        if isinstance(e, ast.IfExp):
            return self.ifexp(e, env, ctx)
        if isinstance(e, ast.Call):
            return self.call(e, env, ctx)
        if isinstance(e, ast.ListComp):
            return self.listcomp(e, env, ctx)
        if isinstance(e, ast.Subscript):
            k, v = self.expr(e.value, env, ctx)
            if k != "rats":
                raise Untranslatable(f"subscript of a {k}")
            i = self.as_nat(self.expr(e.slice, env, ctx), ctx)
            return ctx.bind("rat", f"(listGet {v} {i})")
        if isinstance(e, ast.BinOp):
            op = {ast.Add: "+", ast.Sub: "-", ast.Mult: "*"}.get(type(e.op))
            a, b = self.expr(e.left, env, ctx), self.expr(e.right, env, ctx)
            if op and a[0] in ("rat", "lit") and b[0] in ("rat", "lit"):
                return "rat", f"({self.as_rat(a)} {op} {self.as_rat(b)})"
            if op and a[0] in ("nat",) and b[0] in ("nat", "lit") and op in "+*":
                return "nat", f"({self.as_nat(a, ctx)} {op} {self.as_nat(b, ctx)})"
            raise Untranslatable(f"`{ast.unparse(e)[:50]}` on {a[0]} and {b[0]}")
        if isinstance(e, (ast.Compare, ast.BoolOp)) or (isinstance(e, ast.UnaryOp) and isinstance(e.op, ast.Not)):
            return "bool", self.cond(e, env, ctx)
        if isinstance(e, ast.JoinedStr):
            for part in e.values:
                if isinstance(part, ast.FormattedValue):
                    self.expr(part.value, env, ctx)          # evaluated for its exceptions
            return "str", '""'
        raise Untranslatable(f"expression `{ast.unparse(e)[:60]}`")

    def cond(self, e, env, ctx) -> str:
        if isinstance(e, ast.BoolOp):
            # `and` / `or` short-circuit: an operand that may raise must not be hoisted over the ones before it
            parts = [self.cond(e.values[0], env, ctx)]
            for v in e.values[1:]:
                sub = Ctx(self)
                parts.append(self.cond(v, env, sub))
                if sub.binds:
                    raise Untranslatable("an operand of and / or that may raise")
            return "(" + (" && " if isinstance(e.op, ast.And) else " || ").join(parts) + ")"
        if isinstance(e, ast.UnaryOp) and isinstance(e.op, ast.Not):
            return f"(!{self.cond(e.operand, env, ctx)})"
        nt = self.none_test(e)
        if nt is not None:
            kind, lean = IRF_FIELDS[nt[0]]
            return f"{lean}.isSome" if nt[1] else f"{lean}.isNone"
        if isinstance(e, ast.Compare) and len(e.ops) == 1:
            a, b = self.expr(e.left, env, ctx), self.expr(e.comparators[0], env, ctx)
            op = type(e.ops[0])
            if {a[0], b[0]} <= {"nat", "onat", "lit"} and ("nat" in (a[0], b[0]) or "onat" in (a[0], b[0])):
                x, y = self.as_nat(a, ctx), self.as_nat(b, ctx)
            elif {a[0], b[0]} <= {"rat", "lit"} and "rat" in (a[0], b[0]):
                x, y = self.as_rat(a), self.as_rat(b)
            else:
                raise Untranslatable(f"comparison of a {a[0]} with a {b[0]}")
            if op is ast.Eq:
                return f"({x} == {y})"
            if op is ast.NotEq:
                return f"({x} != {y})"
            if op is ast.Lt:
                return f"(decide ({x} < {y}))"
            if op is ast.LtE:
                return f"(decide ({x} ≤ {y}))"
            if op is ast.Gt:
                return f"(decide ({y} < {x}))"
            if op is ast.GtE:
                return f"(decide ({y} ≤ {x}))"
            raise Untranslatable(f"comparison `{ast.unparse(e)}`")
        k, v = self.expr(e, env, ctx)
        if k == "bool":
            return v
        if k in ("orat", "orats"):          # truthiness of an optional attribute (a Parameter object is always true)
            return f"{v}.isSome"
        raise Untranslatable(f"a {k} is used as a condition")

    def branch(self, e, env):
        """an expression in its own context: (kind, value, binds)"""
        sub = Ctx(self)
        kv = self.expr(e, env, sub)
        return kv, sub

    def pure_or_eff(self, kv, sub, kind):
        """the branch as an `Except` expression"""
        val = self.coerce(kv, kind)
        return sub.wrap(f".ok {val}")

    def coerce(self, kv, kind) -> str:
        if kind == "rat":
            return self.as_rat(kv)
        if kv[0] != kind:
            raise Untranslatable(f"a {kv[0]} where a {kind} is expected")
        return kv[1]

    def join_kind(self, a, b) -> str:
        if a[0] == b[0] and a[0] != "lit":
            return a[0]
        if {a[0], b[0]} <= {"rat", "lit"}:
            return "rat"
        raise Untranslatable(f"the branches give a {a[0]} and a {b[0]}")

    def ifexp(self, e, env, ctx):
        # `x if isinstance(x, list) else [x]`: a single Parameter is a list of one
        t = e.test
        if isinstance(t, ast.Call) and dotted(t.func) == "isinstance" and len(t.args) == 2 and dotted(t.args[1]) == "list" \
                and same_ast(t.args[0], e.body) and isinstance(e.orelse, ast.List) and len(e.orelse.elts) == 1 \
                and same_ast(e.orelse.elts[0], e.body):
            k, v = self.expr(e.body, env, ctx)
            if k != "rats":
                raise Untranslatable(f"list normalisation of a {k}")
            return k, v
        nt = self.none_test(t)
        if nt is not None:
            f, positive = nt
            okind, olean = IRF_FIELDS[f]
            x = self.fresh()
            env_some = dict(env)
            env_some[("narrow", f)] = (INNER[okind], x)
            some_e, none_e = (e.body, e.orelse) if positive else (e.orelse, e.body)
            (a, sa), (b, sb) = self.branch(some_e, env_some), self.branch(none_e, env)
            kind = self.join_kind(a, b)
            if sa.binds or sb.binds:
                return ctx.bind(kind, f"(match {olean} with\n| some {x} => {self.pure_or_eff(a, sa, kind)}\n"
                                      f"| none => {self.pure_or_eff(b, sb, kind)})")
            return kind, f"(match {olean} with | some {x} => {self.coerce(a, kind)} | none => {self.coerce(b, kind)})"
        c = self.cond(t, env, ctx)
        (a, sa), (b, sb) = self.branch(e.body, env), self.branch(e.orelse, env)
        kind = self.join_kind(a, b)
        if sa.binds or sb.binds:
            return ctx.bind(kind, f"(if {c} then {self.pure_or_eff(a, sa, kind)} else {self.pure_or_eff(b, sb, kind)})")
        return kind, f"(if {c} then {self.coerce(a, kind)} else {self.coerce(b, kind)})"

    def call(self, e, env, ctx):
        f = dotted(e.func)
        if e.keywords:
            raise Untranslatable(f"keyword arguments in `{ast.unparse(e)[:50]}`")
        if f in ("np.asarray", "np.array", "numpy.asarray", "numpy.array") and len(e.args) == 1:
            k, v = self.expr(e.args[0], env, ctx)
            if k not in ("rats", "ratss"):
                raise Untranslatable(f"np.asarray of a {k}")
            return k, v
        if f == "len" and len(e.args) == 1:
            k, v = self.expr(e.args[0], env, ctx)
            if k not in ("rats", "ratss"):
                raise Untranslatable(f"len of a {k}")
            return "nat", f"{v}.length"
        if f in ("min", "max") and len(e.args) == 2:
            a, b = (self.as_nat(self.expr(x, env, ctx), ctx) for x in e.args)
            return "nat", f"({f} {a} {b})"
        raise Untranslatable(f"call `{ast.unparse(e)[:60]}`")

    def listcomp(self, e, env, ctx):
        if len(e.generators) != 1 or e.generators[0].ifs or e.generators[0].is_async \
                or not isinstance(e.generators[0].target, ast.Name):
            raise Untranslatable(f"comprehension `{ast.unparse(e)[:60]}`")
        g = e.generators[0]
        var = g.target.id
        uses_var = any(isinstance(n, ast.Name) and n.id == var for n in ast.walk(e.elt))
        if isinstance(g.iter, ast.Call) and dotted(g.iter.func) == "range" and len(g.iter.args) == 1 and not g.iter.keywords:
            n = self.as_nat(self.expr(g.iter.args[0], env, ctx), ctx)
            if uses_var:
                raise Untranslatable("a comprehension over range that uses its variable")
            kv, sub = self.branch(e.elt, env)
            x = self.as_rat(kv)
            if sub.binds:       # the element expression is evaluated once per element: not at all for n = 0
                return ctx.bind("rats", f"(if {n} = 0 then .ok [] else {sub.wrap(f'.ok (List.replicate {n} {x})')})")
            return "rats", f"(List.replicate {n} {x})"
        k, it = self.expr(g.iter, env, ctx)
        if k != "rats":
            raise Untranslatable(f"comprehension over a {k}")
        if isinstance(e.elt, ast.Attribute) and e.elt.attr == "value" and isinstance(e.elt.value, ast.Name) and e.elt.value.id == var:
            return "rats", it                                   # [p.value for p in ps]
        x = self.fresh()
        env2 = dict(env)
        env2[var] = ("rat", x)
        kv, sub = self.branch(e.elt, env2)
        val = self.as_rat(kv)
        if sub.binds:
            if any(x in eff for _, eff in sub.binds):
                raise Untranslatable("an element expression that may raise depending on the element")
            return ctx.bind("rats", f"(if {it}.isEmpty then .ok [] else {sub.wrap(f'.ok ({it}.map (fun {x} => {val}))')})")
        return "rats", f"({it}.map (fun {x} => {val}))"

    # -- statements ------------------------------------------------------------------------------------
    def assigned(self, stmts):
        out = []
        for st in stmts:
            for n in ast.walk(st):
                if isinstance(n, (ast.Assign, ast.AugAssign, ast.AnnAssign)):
                    for t in (n.targets if isinstance(n, ast.Assign) else [n.target]):
                        for x in ast.walk(t):
                            if isinstance(x, ast.Name) and isinstance(x.ctx, ast.Store) and x.id not in out:
                                out.append(x.id)
        return out

    def raise_(self, st, env):
        ctx = Ctx(self)
        exc = st.exc
        if not (isinstance(exc, ast.Call) and dotted(exc.func) in ("ModelError", "ValueError") and len(exc.args) == 1):
            raise Untranslatable(f"`{ast.unparse(st)[:60]}`")
        msg = exc.args[0]
        text = ""
        if isinstance(msg, ast.JoinedStr):
            text = "".join(p.value for p in msg.values if isinstance(p, ast.Constant) and isinstance(p.value, str))
        elif isinstance(msg, ast.Constant) and isinstance(msg.value, str):
            text = msg.value
        self.expr(msg, env, ctx)
        for key, ctor in RAISES:
            if key in text:
                return ctx.wrap(f".error .{ctor}")
        raise Untranslatable(f"an exception the harness has no class for: `{text[:40]}`")

    def block(self, stmts, env, final, ret_kinds=None):
        """statements -> an `Except IrfError _` expression; `final(env)` is what follows the last statement"""
        stmts = [st for st in stmts if not (isinstance(st, ast.Expr) and isinstance(st.value, ast.Constant))
                 and not isinstance(st, ast.Pass)]
        if not stmts:
            return final(env)
        st, rest = stmts[0], stmts[1:]
        if isinstance(st, ast.Raise):
            return self.raise_(st, env)
        if isinstance(st, ast.Return):
            if ret_kinds is None or st.value is None:
                raise Untranslatable("return")
            return self.ret(st.value, env, ret_kinds)
        if isinstance(st, ast.Assign) and len(st.targets) == 1 and isinstance(st.targets[0], ast.Name):
            ctx = Ctx(self)
            kv = self.expr(st.value, env, ctx)
            env2 = dict(env)
            env2[st.targets[0].id] = kv
            return ctx.wrap(self.block(rest, env2, final, ret_kinds))
        if isinstance(st, ast.If):
            return self.if_(st, rest, env, final, ret_kinds)
        raise Untranslatable(f"statement `{ast.unparse(st)[:60]}`")

    def if_(self, st, rest, env, final, ret_kinds):
        names_a, names_b = self.assigned(st.body), self.assigned(st.orelse)
        merged = [n for n in dict.fromkeys(names_a + names_b) if n in env or (n in names_a and n in names_b)]
        kinds = {}

        def tail(env_b):
            vals = []
            for n in merged:
                kv = env_b[n]
                kinds.setdefault(n, []).append(kv)
                vals.append(kv)
            return vals

        def render(body, env_b):
            got = []

            def fin(e2):
                got.append(tail(e2))
                return "\0"          # placeholder, the values are rendered once both branches are known

            txt = self.block(body, env_b, fin)
            return txt, got

        nt = self.none_test(st.test)
        ctx = Ctx(self)
        if nt is not None:
            f, positive = nt
            okind, olean = IRF_FIELDS[f]
            x = self.fresh()
            env_some = dict(env)
            env_some[("narrow", f)] = (INNER[okind], x)
            some_b, none_b = (st.body, st.orelse) if positive else (st.orelse, st.body)
            (ta, ga), (tb, gb) = render(some_b, env_some), render(none_b, env)
            head = lambda a, b: f"(match {olean} with\n| some {x} =>\n{a}\n| none =>\n{b})"  # noqa: E731
        else:
            c = self.cond(st.test, env, ctx)
            (ta, ga), (tb, gb) = render(st.body, env), render(st.orelse, env)
            head = lambda a, b: f"(if {c} then\n{a}\nelse\n{b})"  # noqa: E731
        out_kinds = []
        for i, n in enumerate(merged):
            ks = [g[0][i] for g in (ga, gb) if g]
            k = ks[0]
            for k2 in ks[1:]:
                k = (self.join_kind(k, k2), None)
            out_kinds.append(k[0] if k[0] != "lit" else "rat")

        def fill(txt, got):
            if not got:
                return txt
            vals = [self.coerce(kv, k) for kv, k in zip(got[0], out_kinds)]
            return txt.replace("\0", ".ok (" + ", ".join(vals) + ")" if vals else ".ok ()")

        env2 = dict(env)
        news = []
        for n, k in zip(merged, out_kinds):
            v = self.fresh()
            news.append(v)
            env2[n] = (k, v)
        for n in set(names_a + names_b) - set(merged):
            env2.pop(n, None)
        pat = "(_ : Unit)" if not news else news[0] if len(news) == 1 else "(" + ", ".join(news) + ")"
        body = self.block(rest, env2, final, ret_kinds)
        return ctx.wrap(f"bindE {head(fill(ta, ga), fill(tb, gb))} (fun {pat} =>\n{body})")

    def ret(self, value, env, ret_kinds):
        elts = value.elts if isinstance(value, ast.Tuple) else [value]
        if len(elts) != len(ret_kinds):
            raise Untranslatable(f"{len(elts)} values are returned, {len(ret_kinds)} are expected")
        ctx = Ctx(self)
        vals = [self.coerce(self.expr(x, env, ctx), k) for x, k in zip(elts, ret_kinds)]
        return ctx.wrap(".ok ⟨" + ", ".join(vals) + "⟩")


def method_of(mod: Module, cls: str, name: str) -> ast.FunctionDef:
    c = mod.classes.get(cls)
    if c is None:
        raise Untranslatable(f"class `{cls}` not found")
    for st in c.body:
        if isinstance(st, ast.FunctionDef) and st.name == name:
            return st
    raise Untranslatable(f"`{cls}.{name}` not found")


def arg_names(fn) -> list:
    a = fn.args
    if a.vararg or a.kwonlyargs or a.posonlyargs or a.defaults:
        raise Untranslatable("signature with defaults / varargs")
    return [x.arg for x in a.args]


def tr_base_parameter(mod: Module):
    fn = method_of(mod, "IrfMultiGaussian", "parameter")
    if arg_names(fn) != ["self", "global_index", "global_axis"] or fn.args.kwarg:
        raise Untranslatable(f"signature changed: {arg_names(fn)}")
    tr = MethodTranslator()
    env = {"global_index": ("onat", "global_index"), "global_axis": ("rats", "global_axis")}
    body = tr.block(fn.body, env, lambda _e: (_ for _ in ()).throw(Untranslatable("the function ends without a return")),
                    ret_kinds=["rats", "rats", "rats", "rat", "bool", "rat"])
    return fn.lineno, body


# -- Irf.calculate: `sum(<elementwise expression> for c, w, s in zip(centers, widths, scales))` ------------------------------
class NumExpr:
    """an elementwise numpy expression over the model axis -> one element, in the abstract number class"""

    def __init__(self, names):
        self.names = names          # python name -> lean term of type α

    def num(self, e) -> str:
        if isinstance(e, ast.Constant) and isinstance(e.value, (int, float)) and not isinstance(e.value, bool):
            return f"(Num.ofRat {rat_of(e.value)})"
        if isinstance(e, ast.Name) and e.id in self.names:
            return self.names[e.id]
        if isinstance(e, ast.BinOp):
            op = {ast.Add: "add", ast.Sub: "sub", ast.Mult: "mul", ast.Div: "div"}.get(type(e.op))
            if op:
                return f"(Num.{op} {self.num(e.left)} {self.num(e.right)})"
            if isinstance(e.op, ast.Pow) and isinstance(e.right, ast.Constant) and e.right.value in (2, 2.0) \
                    and not isinstance(e.right.value, bool):
                x = self.num(e.left)
                return f"(Num.mul {x} {x})"
            raise Untranslatable(f"operator in `{ast.unparse(e)[:40]}`")
        if isinstance(e, ast.UnaryOp) and isinstance(e.op, ast.USub):
            return f"(Num.neg {self.num(e.operand)})"
        if isinstance(e, ast.Call) and dotted(e.func) in ("np.exp", "numpy.exp") and len(e.args) == 1 and not e.keywords:
            return f"(Num.exp {self.num(e.args[0])})"
        raise Untranslatable(f"expression `{ast.unparse(e)[:60]}`")


PARAM_RESULT = ["centers", "widths", "scales", "shift", "backsweep", "period"]


def tr_calculate(mod: Module):
    fn = method_of(mod, "IrfMultiGaussian", "calculate")
    if arg_names(fn) != ["self", "index", "global_axis", "model_axis"]:
        raise Untranslatable(f"signature changed: {arg_names(fn)}")
    body = [st for st in fn.body if not (isinstance(st, ast.Expr) and isinstance(st.value, ast.Constant))]
    if len(body) != 2:
        raise Untranslatable("`calculate` is not `<tuple> = self.parameter(..); return sum(..)`")
    a, r = body
    if not (isinstance(a, ast.Assign) and len(a.targets) == 1 and isinstance(a.targets[0], ast.Tuple)
            and len(a.targets[0].elts) == 6 and all(isinstance(x, ast.Name) for x in a.targets[0].elts)
            and isinstance(a.value, ast.Call) and dotted(a.value.func) == "self.parameter" and not a.value.keywords
            and [dotted(x) for x in a.value.args] == ["index", "global_axis"]):
        raise Untranslatable(f"`{ast.unparse(a)[:60]}`")
    fields = {x.id: f"p.{f}" for x, f in zip(a.targets[0].elts, PARAM_RESULT) if x.id != "_"}
    if not (isinstance(r, ast.Return) and isinstance(r.value, ast.Call) and dotted(r.value.func) == "sum"
            and len(r.value.args) == 1 and isinstance(r.value.args[0], ast.GeneratorExp)):
        raise Untranslatable("`calculate` does not return `sum(<generator>)`")
    g = r.value.args[0]
    if len(g.generators) != 1 or g.generators[0].ifs:
        raise Untranslatable("generator of `calculate`")
    gen = g.generators[0]
    if not (isinstance(gen.iter, ast.Call) and dotted(gen.iter.func) == "zip" and len(gen.iter.args) == 3
            and isinstance(gen.target, ast.Tuple) and len(gen.target.elts) == 3
            and all(isinstance(x, ast.Name) for x in gen.target.elts)):
        raise Untranslatable(f"`{ast.unparse(gen.iter)[:40]}` is not a zip of three arrays")
    arrays = []
    for x in gen.iter.args:
        d = dotted(x)
        if d in fields and fields[d] in ("p.centers", "p.widths", "p.scales"):
            arrays.append(fields[d])
        elif isinstance(x, ast.BinOp) and isinstance(x.op, (ast.Sub, ast.Add)) and fields.get(dotted(x.left)) in \
                ("p.centers", "p.widths", "p.scales") and fields.get(dotted(x.right)) == "p.shift":
            f = "vecSubScalar" if isinstance(x.op, ast.Sub) else "vecAddScalar"      # numpy broadcasting of the scalar shift
            arrays.append(f"{f} {fields[dotted(x.left)]} p.shift")
        else:
            raise Untranslatable(f"zip over `{ast.unparse(x)[:30]}`")
    names = {"model_axis": "(Num.ofRat t)"}
    for x, proj in zip(gen.target.elts, ("g.1", "g.2.1", "g.2.2")):
        names[x.id] = f"(Num.ofRat {proj})"
    elt = NumExpr(names).num(g.elt)
    return fn.lineno, (f"  bindE (parameter irf (some index) global_axis) (fun p =>\n"
                       f"    .ok (model_axis.map (fun t => (({arrays[0]}).zip (({arrays[1]}).zip ({arrays[2]}))).foldl (fun acc g =>\n"
                       f"      Num.add acc {elt}) (Num.ofRat 0))))")


# -- IrfSpectralMultiGaussian.calculate_dispersion ----------------------------------------------------------------------------
def tr_calculate_dispersion(mod: Module):
    """`dispersion = []; for index, _ in enumerate(axis): center, .. = self.parameter(index, axis); dispersion.append(center);
    return np.asarray(dispersion).T`"""
    fn = method_of(mod, "IrfSpectralMultiGaussian", "calculate_dispersion")
    if arg_names(fn) != ["self", "axis"]:
        raise Untranslatable(f"signature changed: {arg_names(fn)}")
    body = [st for st in fn.body if not (isinstance(st, ast.Expr) and isinstance(st.value, ast.Constant))]
    if len(body) != 3:
        raise Untranslatable("shape of `calculate_dispersion`")
    init, loop, ret = body
    if not (isinstance(init, ast.Assign) and isinstance(init.targets[0], ast.Name) and isinstance(init.value, ast.List)
            and not init.value.elts):
        raise Untranslatable(f"`{ast.unparse(init)[:40]}`")
    acc = init.targets[0].id
    if not (isinstance(loop, ast.For) and not loop.orelse and isinstance(loop.iter, ast.Call)):
        raise Untranslatable("loop of `calculate_dispersion`")
    f = dotted(loop.iter.func)
    if f == "enumerate" and [dotted(x) for x in loop.iter.args] == ["axis"] and isinstance(loop.target, ast.Tuple) \
            and len(loop.target.elts) == 2 and isinstance(loop.target.elts[0], ast.Name):
        iv = loop.target.elts[0].id
    elif f == "range" and len(loop.iter.args) == 1 and ast.unparse(loop.iter.args[0]) in ("len(axis)", "axis.size") \
            and isinstance(loop.target, ast.Name):
        iv = loop.target.id
    else:
        raise Untranslatable(f"loop over `{ast.unparse(loop.iter)[:40]}`")
    if len(loop.body) != 2:
        raise Untranslatable("loop body of `calculate_dispersion`")
    a, ap = loop.body
    if not (isinstance(a, ast.Assign) and isinstance(a.targets[0], ast.Tuple) and len(a.targets[0].elts) == 6
            and all(isinstance(x, ast.Name) for x in a.targets[0].elts) and isinstance(a.value, ast.Call)
            and dotted(a.value.func) == "self.parameter" and not a.value.keywords
            and [dotted(x) for x in a.value.args] == [iv, "axis"]):
        raise Untranslatable(f"`{ast.unparse(a)[:60]}`")
    fields = {x.id: f for x, f in zip(a.targets[0].elts, PARAM_RESULT) if x.id != "_"}
    if not (isinstance(ap, ast.Expr) and isinstance(ap.value, ast.Call) and dotted(ap.value.func) == f"{acc}.append"
            and len(ap.value.args) == 1 and dotted(ap.value.args[0]) in fields
            and fields[dotted(ap.value.args[0])] in ("centers", "widths", "scales")):
        raise Untranslatable(f"`{ast.unparse(ap)[:60]}`")
    what = fields[dotted(ap.value.args[0])]
    if not (isinstance(ret, ast.Return) and ast.unparse(ret.value) in (f"np.asarray({acc}).T", f"np.array({acc}).T",
                                                                        f"np.transpose(np.asarray({acc}))")):
        raise Untranslatable(f"`{ast.unparse(ret)[:60]}`")
    return fn.lineno, (f"  bindE (forRangeM axis.length ([] : List (List Rat)) (fun {ident(iv)} st =>\n"
                       f"      bindE (spectralParameter irf (some {ident(iv)}) axis) (fun p => .ok (st ++ [p.{what}])))) (fun rows =>\n"
                       f"    .ok (transposeRows rows))")


# -- util.index_dependent ---------------------------------------------------------------------------------------------------
def tr_index_dependent(mod: Module):
    fn = mod.funcs.get("index_dependent")
    if fn is None or arg_names(fn) != ["dataset_model"]:
        raise Untranslatable("`index_dependent` not found / signature changed")
    body = [st for st in fn.body if not (isinstance(st, ast.Expr) and isinstance(st.value, ast.Constant))]
    if len(body) != 1 or not isinstance(body[0], ast.Return):
        raise Untranslatable("`index_dependent` is not a single return")
    v = body[0].value
    if not (isinstance(v, ast.BoolOp) and isinstance(v.op, ast.And) and len(v.values) == 2
            and ast.unparse(v.values[0]) == "isinstance(dataset_model.irf, IrfMultiGaussian)"
            and ast.unparse(v.values[1]) == "dataset_model.irf.is_index_dependent()"):
        raise Untranslatable(f"`{ast.unparse(v)[:70]}`")
    return fn.lineno, "  match irf with\n  | some i => isIndexDependent i\n  | none => false"


# -- util.calculate_matrix --------------------------------------------------------------------------------------------------
class CalcMatrix:
    """`rates`, the compartments and the A-matrix come from the megacomplex (property C04): parameters of the generated function.
    Translated: the shape expression and np.zeros, the two glue calls under their conditions, the finiteness check with its raise,
    the product with the A-matrix, in source order."""

    SIZES = {"global_axis.size": "global_axis.length", "model_axis.size": "model_axis.length", "rates.size": "rates.length",
             "len(global_axis)": "global_axis.length", "len(model_axis)": "model_axis.length", "len(rates)": "rates.length"}

    def __init__(self, mod):
        self.mod = mod
        self.env = {}

    def cond(self, e) -> str:
        if isinstance(e, ast.Call) and dotted(e.func) == "index_dependent" and [dotted(x) for x in e.args] == ["dataset_model"] \
                and not e.keywords:
            return "(index_dependent irf)"
        if isinstance(e, ast.UnaryOp) and isinstance(e.op, ast.Not):
            return f"(!{self.cond(e.operand)})"
        if isinstance(e, ast.Call) and dotted(e.func) in ("np.all", "numpy.all") and len(e.args) == 1 and not e.keywords:
            a = e.args[0]
            if isinstance(a, ast.Call) and dotted(a.func) in ("np.isfinite", "numpy.isfinite") and len(a.args) == 1 \
                    and dotted(a.args[0]) == "matrix" and self.env.get("matrix") == "matrix":
                return "(Matrix.all isfinite matrix)"
        raise Untranslatable(f"condition `{ast.unparse(e)[:60]}`")

    def shape(self, e) -> str:
        if isinstance(e, ast.Tuple):
            dims = []
            for x in e.elts:
                s = self.SIZES.get(ast.unparse(x))
                if s is None:
                    raise Untranslatable(f"dimension `{ast.unparse(x)[:30]}`")
                dims.append(s)
            return "[" + ", ".join(dims) + "]"
        if isinstance(e, ast.IfExp):
            return f"(if {self.cond(e.test)} then {self.shape(e.body)} else {self.shape(e.orelse)})"
        if isinstance(e, ast.Name) and self.env.get(e.id, "").startswith("shape:"):
            return self.env[e.id][6:]
        raise Untranslatable(f"shape `{ast.unparse(e)[:50]}`")

    def glue_call(self, st) -> str:
        if not (isinstance(st, ast.Expr) and isinstance(st.value, ast.Call) and not st.value.keywords):
            raise Untranslatable(f"`{ast.unparse(st)[:60]}`")
        c = st.value
        f = dotted(c.func)
        args = [dotted(x) for x in c.args]
        if args != ["matrix", "rates", "global_axis", "model_axis", "dataset_model"] or self.env.get("matrix") != "matrix":
            raise Untranslatable(f"arguments of `{ast.unparse(c)[:60]}`")
        if f == "decay_matrix_implementation_index_dependent":
            return "callDep matrix irf (fun m i => decay_matrix_implementation_index_dependent m rates global_axis model_axis i)"
        if f == "decay_matrix_implementation_index_independent":
            return "callIndep matrix (fun m => decay_matrix_implementation_index_independent m rates global_axis model_axis irf)"
        raise Untranslatable(f"call `{f}`")

    def stmts(self, body) -> str:
        body = [st for st in body if not (isinstance(st, ast.Expr) and isinstance(st.value, ast.Constant))]
        if not body:
            raise Untranslatable("`calculate_matrix` ends without a return")
        st, rest = body[0], body[1:]
        if isinstance(st, ast.Assign) and len(st.targets) == 1 and isinstance(st.targets[0], ast.Name):
            name, v = st.targets[0].id, st.value
            src = ast.unparse(v)
            # what the megacomplex provides (inputs of the generated function)
            provided = {"compartments": "megacomplex.get_compartments(dataset_model)",
                        "initial_concentration": "megacomplex.get_initial_concentration(dataset_model)",
                        "k_matrix": "megacomplex.get_k_matrix()",
                        "rates": "k_matrix.rates(compartments, initial_concentration)"}
            if provided.get(name) == src:
                self.env[name] = "input"
                return self.stmts(rest)
            if isinstance(v, (ast.Tuple, ast.IfExp)) and name != "matrix":
                self.env[name] = "shape:" + self.shape(v)
                return self.stmts(rest)
            if name == "matrix" and isinstance(v, ast.Call) and dotted(v.func) in ("np.zeros", "numpy.zeros") and len(v.args) == 1 \
                    and all(k.arg == "dtype" and ast.unparse(k.value) in ("np.float64", "float", "numpy.float64") for k in v.keywords):
                if "matrix" in self.env:
                    raise Untranslatable("`matrix` is allocated twice")
                self.env["matrix"] = "matrix"
                return f"  let matrix : Matrix α := zerosOfShape {self.shape(v.args[0])}\n" + self.stmts(rest)
            if name == "matrix" and isinstance(v, ast.BinOp) and isinstance(v.op, ast.MatMult) and dotted(v.left) == "matrix" \
                    and ast.unparse(v.right) == "megacomplex.get_a_matrix(dataset_model)" and self.env.get("matrix") == "matrix":
                return "  let matrix := Matrix.matmul matrix a_matrix ncomp\n" + self.stmts(rest)
            raise Untranslatable(f"assignment `{ast.unparse(st)[:60]}`")
        if isinstance(st, ast.If):
            c = self.cond(st.test)
            if len(st.body) == 1 and isinstance(st.body[0], ast.Raise) and not st.orelse:
                r = MethodTranslator().raise_(st.body[0], {"k_matrix": ("str", '""')}) if self.raise_ok(st.body[0]) else None
                return f"  bindE (if {c} then {r} else .ok ()) (fun (_ : Unit) =>\n" + self.stmts(rest) + ")"
            if len(st.body) == 1 and len(st.orelse) == 1:
                a, b = self.glue_call(st.body[0]), self.glue_call(st.orelse[0])
                return f"  bindE (if {c} then {a} else {b}) (fun matrix =>\n" + self.stmts(rest) + ")"
            raise Untranslatable(f"`if {ast.unparse(st.test)[:40]}`")
        if isinstance(st, ast.Return):
            if rest or ast.unparse(st.value) != "(compartments, matrix)" or self.env.get("matrix") != "matrix":
                raise Untranslatable(f"`{ast.unparse(st)[:50]}`")
            return "  .ok matrix"
        raise Untranslatable(f"statement `{ast.unparse(st)[:60]}`")

    @staticmethod
    def raise_ok(st) -> bool:
        # the message interpolates the K-matrix (markdown): no exception of its own
        exc = st.exc
        if not (isinstance(exc, ast.Call) and len(exc.args) == 1 and isinstance(exc.args[0], (ast.JoinedStr, ast.Constant))):
            raise Untranslatable(f"`{ast.unparse(st)[:60]}`")
        if isinstance(exc.args[0], ast.JoinedStr):
            exc.args[0].values = [p for p in exc.args[0].values if isinstance(p, ast.Constant)]
        return True


def tr_calculate_matrix(mod: Module):
    fn = mod.funcs.get("calculate_matrix")
    if fn is None:
        raise Untranslatable("`calculate_matrix` not found")
    a = fn.args
    if [x.arg for x in a.args] != ["megacomplex", "dataset_model", "global_axis", "model_axis"] or a.vararg or a.defaults:
        raise Untranslatable("signature changed")
    return fn.lineno, CalcMatrix(mod).stmts(fn.body)


# -- util.retrieve_irf ------------------------------------------------------------------------------------------------------
class RetrieveIrf:
    """`dataset[name] = (dims, value)` stores -> the fields of the result record, in source order.  Values: `irf.calculate(index=c,
    global_axis=<global coordinate>, model_axis=<model coordinate>).data`, lists over the declared centres / widths / shifts,
    `irf.calculate_dispersion(<spectral coordinate>)`, `.sel(irf_nr=c)` of an earlier variable."""

    FIELDS = ["irf", "irf_center", "irf_width", "irf_shift", "irf_center_location", "center_dispersion_1"]

    def __init__(self):
        self.tr = MethodTranslator(self_name="irf", self_prefix="irf")
        self.env = {}
        self.stored = {}          # dataset variable -> (kind, lean, optional?)

    def coord(self, e):
        s = ast.unparse(e)
        if s in ("dataset.coords[global_dimension].values", "dataset.coords['spectral'].values"):
            return "global_axis"
        if s == "dataset.coords[model_dimension].values" and self.env.get("model_dimension") == "model":
            return "model_axis"
        raise Untranslatable(f"coordinate `{s[:50]}`")

    def value(self, name, e, ctx):
        """(dims, kind, lean) of the right-hand side of `dataset[name] = ...`"""
        dims = None
        if isinstance(e, ast.Tuple) and len(e.elts) == 2:
            dims, e = ast.unparse(e.elts[0]), e.elts[1]
        # `("irf_nr", x) if len(x) > 1 else x[0]`: a 0-d value is a list of one
        if isinstance(e, ast.IfExp) and isinstance(e.body, ast.Tuple) and len(e.body.elts) == 2 \
                and ast.unparse(e.body.elts[0]) == "'irf_nr'" and isinstance(e.body.elts[1], ast.Name):
            x = e.body.elts[1].id
            if ast.unparse(e.test) == f"len({x}) > 1" and ast.unparse(e.orelse) == f"{x}[0]":
                k, v = self.tr.expr(e.body.elts[1], self.env, ctx)
                if k != "rats":
                    raise Untranslatable(f"`{x}` is a {k}")
                return "irf_nr", "rats", ctx.bind("rats", f"(liftIrf (scalarOrList {v}))")[1]
        if isinstance(e, ast.Attribute) and e.attr == "data":
            e = e.value
        if isinstance(e, ast.Call) and dotted(e.func) == "irf.calculate" and not e.args:
            kw = {k.arg: k.value for k in e.keywords}
            if sorted(kw) != ["global_axis", "index", "model_axis"] or not isinstance(kw["index"], ast.Constant) \
                    or not isinstance(kw["index"].value, int) or isinstance(kw["index"].value, bool) or kw["index"].value < 0:
                raise Untranslatable(f"`{ast.unparse(e)[:60]}`")
            if self.coord(kw["global_axis"]) != "global_axis" or self.coord(kw["model_axis"]) != "model_axis":
                raise Untranslatable("coordinates handed to irf.calculate")
            v = ctx.bind("nums", f"(liftIrf (irf_calculate irf {kw['index'].value} global_axis model_axis))")[1]
            return dims, "nums", v
        if isinstance(e, ast.Call) and dotted(e.func) == "irf.calculate_dispersion" and len(e.args) == 1 and not e.keywords:
            if ast.unparse(e.args[0]) != "dataset.coords['spectral'].values":
                raise Untranslatable(f"`{ast.unparse(e)[:60]}`")
            v = ctx.bind("ratss", "(liftIrf (calculate_dispersion irf global_axis))")[1]
            return dims, "ratss", v
        if isinstance(e, ast.Call) and isinstance(e.func, ast.Attribute) and e.func.attr == "sel" and not e.args \
                and len(e.keywords) == 1 and e.keywords[0].arg == "irf_nr" and isinstance(e.keywords[0].value, ast.Constant):
            src = e.func.value
            if isinstance(src, ast.Subscript) and dotted(src.value) == "dataset" and isinstance(src.slice, ast.Constant) \
                    and src.slice.value in self.stored and self.stored[src.slice.value][0] == "ratss":
                i = e.keywords[0].value.value
                if not isinstance(i, int) or isinstance(i, bool) or i < 0:
                    raise Untranslatable("irf_nr")
                return "global", "rats", f"(({self.stored[src.slice.value][1]}).getD {i} [])"
            raise Untranslatable(f"`{ast.unparse(e)[:60]}`")
        sub = Ctx(self.tr)
        k, v = self.tr.expr(e, self.env, sub)
        if k != "rats":
            raise Untranslatable(f"`dataset[{name!r}]` is a {k}")
        if sub.binds:
            lifted = Ctx(self.tr)
            lifted.binds = sub.binds
            v = ctx.bind("rats", "(liftIrf (" + lifted.wrap(f".ok {v}") + "))")[1]
        return dims, "rats", v

    def store(self, st, ctx):
        t = st.targets[0]
        if not (isinstance(t, ast.Subscript) and dotted(t.value) == "dataset" and isinstance(t.slice, ast.Constant)
                and isinstance(t.slice.value, str)):
            return None
        name = t.slice.value
        if name not in self.FIELDS or name in self.stored:
            raise Untranslatable(f"dataset variable `{name}`")
        dims, kind, v = self.value(name, st.value, ctx)
        want = {"irf": ("model_dimension", "nums"), "irf_center": ("irf_nr", "rats"), "irf_width": ("irf_nr", "rats"),
                "irf_shift": ("global_dimension", "rats"), "irf_center_location": ("('irf_nr', global_dimension)", "ratss"),
                "center_dispersion_1": ("global", "rats")}[name]
        if (dims, kind) != want:
            raise Untranslatable(f"`dataset[{name!r}]` has dims {dims} and is a {kind}")
        if name == "irf_shift":
            v = ctx.bind("rats", f"(onGlobalDim global_axis {v})")[1]
        if name == "irf_center_location":
            v = ctx.bind("ratss", f"(onGlobalDimRows global_axis {v})")[1]
        return name, kind, v

    def cond(self, e, ctx) -> str:
        if isinstance(e, ast.BoolOp) and isinstance(e.op, ast.And):
            return "(" + " && ".join(self.cond(v, ctx) for v in e.values) + ")"
        if ast.unparse(e) == "isinstance(irf, IrfSpectralMultiGaussian)":
            return "irf.spectral"
        return self.tr.cond(e, self.env, ctx)

    def block(self, stmts, opt_names):
        """-> text of an Except expression ending in the record; `opt_names`: variables stored under a condition"""
        ctx = Ctx(self.tr, "bindR")
        for st in stmts:
            if isinstance(st, ast.Expr) and isinstance(st.value, ast.Constant):
                continue
            if isinstance(st, ast.Assign) and len(st.targets) == 1:
                got = self.store(st, ctx)
                if got is not None:
                    self.stored[got[0]] = (got[1], got[2])
                    continue
                if isinstance(st.targets[0], ast.Name):
                    n = st.targets[0].id
                    if n == "irf" and ast.unparse(st.value) == "dataset_model.irf":
                        continue
                    if n == "model_dimension" and ast.unparse(st.value) == "get_dataset_model_model_dimension(dataset_model)":
                        self.env[n] = "model"
                        continue
                    self.env[n] = self.tr.expr(st.value, self.env, ctx)
                    continue
            if isinstance(st, ast.If) and not st.orelse:
                nt = self.tr.none_test(st.test)
                before = dict(self.stored)
                sub = Ctx(self.tr, "bindR")
                if nt is not None and nt[1]:
                    f = nt[0]
                    x = self.tr.fresh()
                    saved = dict(self.env)
                    self.env[("narrow", f)] = (INNER[IRF_FIELDS[f][0]], x)
                    inner = RetrieveIrf.inner_stores(self, st.body, sub)
                    self.env = saved
                    head = lambda a, b: f"(match {IRF_FIELDS[f][1]} with\n| some {x} => {a}\n| none => {b})"  # noqa: E731
                else:
                    c = self.cond(st.test, ctx)
                    inner = RetrieveIrf.inner_stores(self, st.body, sub)
                    head = lambda a, b: f"(if {c} then {a} else {b})"  # noqa: E731
                names = [n for n in self.stored if n not in before]
                vals = [self.stored[n] for n in names]
                somes = ", ".join(f"some {v}" for _, v in vals)
                nones = ", ".join("none" for _ in vals)
                outs = [self.tr.fresh() for _ in names]
                pat = outs[0] if len(outs) == 1 else "(" + ", ".join(outs) + ")"
                eff = head(sub.wrap(f".ok ({somes})"), f".ok ({nones})")
                ctx.binds.append((pat, eff))
                for n, (k, _), o in zip(names, vals, outs):
                    self.stored[n] = ("o" + k, o)
                continue
            raise Untranslatable(f"statement `{ast.unparse(st)[:60]}`")
        missing = [n for n in self.FIELDS if n not in self.stored]
        if missing:
            raise Untranslatable(f"variables not stored: {missing}")
        kinds = {n: self.stored[n][0] for n in self.FIELDS}
        if kinds != {"irf": "nums", "irf_center": "rats", "irf_width": "rats", "irf_shift": "orats",
                     "irf_center_location": "oratss", "center_dispersion_1": "orats"}:
            raise Untranslatable(f"optional / unconditional variables changed: {kinds}")
        rec = ".ok ⟨" + ", ".join(self.stored[n][1] for n in self.FIELDS) + "⟩"
        return ctx.wrap(rec)

    def inner_stores(self, body, sub):
        for st in body:
            got = self.store(st, sub) if isinstance(st, ast.Assign) and len(st.targets) == 1 else None
            if got is None:
                raise Untranslatable(f"statement `{ast.unparse(st)[:60]}` under a condition")
            self.stored[got[0]] = (got[1], got[2])


def tr_retrieve_irf(mod: Module):
    fn = mod.funcs.get("retrieve_irf")
    if fn is None or arg_names(fn) != ["dataset_model", "dataset", "global_dimension"]:
        raise Untranslatable("`retrieve_irf` not found / signature changed")
    body = [st for st in fn.body if not (isinstance(st, ast.Expr) and isinstance(st.value, ast.Constant))]
    # the guard `if not isinstance(dataset_model.irf, IrfMultiGaussian) or "irf" in dataset: return` (the generated function is
    # for a Gaussian IRF and a dataset without `irf`)
    g = body[0] if body else None
    if not (isinstance(g, ast.If) and not g.orelse and len(g.body) == 1 and isinstance(g.body[0], ast.Return) and g.body[0].value is None
            and ast.unparse(g.test) == "not isinstance(dataset_model.irf, IrfMultiGaussian) or 'irf' in dataset"):
        raise Untranslatable("guard of `retrieve_irf`")
    r = RetrieveIrf()
    txt = r.block(body[1:], None)
    return fn.lineno, txt


IRF_HEADER = """/-
GENERATED by harness/props/_c05_translate.py (c05.generate) from the source of VERIF_REPO — do not edit.
Method-level translation of irf.py (`IrfMultiGaussian.parameter`, `calculate`, `calculate_dispersion`) and of util.py
(`index_dependent`, `calculate_matrix`, `retrieve_irf`).  Imported by the proofs of C05 only.
-/
import GlotaranModel.Generated.C05Fns
set_option linter.unusedVariables false
namespace Glotaran.C05.Gen
open Glotaran.C05

"""

IRF_ITEMS = [
    ("base_parameter", IRF_FILE, tr_base_parameter,
     "def base_parameter (irf : Irf) (global_index : Option Nat) (global_axis : List Rat) : Except IrfError Params :="),
    ("irf_calculate", IRF_FILE, tr_calculate,
     "def irf_calculate {α : Type} [Num α] (irf : Irf) (index : Nat) (global_axis model_axis : List Rat) : Except IrfError (List α) :="),
    ("calculate_dispersion", IRF_FILE, tr_calculate_dispersion,
     "def calculate_dispersion (irf : Irf) (axis : List Rat) : Except IrfError (List (List Rat)) :="),
    ("index_dependent", UTIL_FILE, tr_index_dependent,
     "def index_dependent (irf : Option Irf) : Bool :="),
    ("calculate_matrix", UTIL_FILE, tr_calculate_matrix,
     "def calculate_matrix {α : Type} [NumOrd α] (isfinite : α → Bool) (irf : Option Irf) (rates global_axis model_axis : List Rat) "
     "(a_matrix : List (List Rat)) (ncomp : Nat) : Except IrfError (Matrix α) :="),
    ("retrieve_irf", UTIL_FILE, tr_retrieve_irf,
     "def retrieve_irf {α : Type} [Num α] (irf : Irf) (global_axis model_axis : List Rat) : Except RetrieveError (IrfResult α) :="),
]


def render_irf(repo: Path):
    mods = {f: Module(repo / f) for f in (IRF_FILE, UTIL_FILE)}
    parts, table = [IRF_HEADER], []
    for name, file, f, sig in IRF_ITEMS:
        try:
            line, body = f(mods[file])
            status = "translated"
        except Untranslatable as e:
            line, status = "?", f"untranslatable: {e}"
            body = ("  untranslatable " if name == "index_dependent" else "  .ok (untranslatable ") + lean_str(str(e)) + \
                   ("" if name == "index_dependent" else ")")
        except RecursionError:
            line, status = "?", "untranslatable: expression too deep"
            body = "  untranslatable \"expression too deep\"" if name == "index_dependent" else "  .ok (untranslatable \"expression too deep\")"
        parts.append(f"/-- {file}:{line} `{name}` -/\n{sig}\n{body}\n\n")
        table.append({"function": name, "file": file, "status": status})
    parts.append("end Glotaran.C05.Gen\n")
    return "".join(parts), table
