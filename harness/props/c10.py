"""C10 — the objective is pure and deterministic; optimize() leaves its inputs unchanged.

Correspondence: operation sequences on a real `Optimizer` (random walks, repeats, returns to earlier points,
exceptions injected at the n-th `calculate_matrix` / `calculate_residual` call, parameter vectors for which
`set_from_label_and_value_arrays` raises) are fed to the Lean state machine (GlotaranModel/C10.lean, values =
provenance sets); after every operation the outcome, the history and the CONTENT PROVENANCE of every container of
the real providers (which evaluation wrote it — found by bit-comparison with fresh optimisers) are diffed with the
model's containers.
Oracle (independent of the model): after every operation the penalty vector is bit-equal to a FRESH optimiser's at
the same vector; result datasets likewise; deep snapshots of the caller's scheme around Optimizer operations and
around optimize() for the three methods; optimize() twice bit-equal; subprocess runs with different
NUMBA_NUM_THREADS bit-equal.
"""
from __future__ import annotations

import contextlib
import hashlib
import json
import os
import subprocess
import sys
import time
import warnings
from pathlib import Path

import numpy as np

from harness import core, gen_scheme
from harness.core import bool_, enc, lst, strs
from harness.props import _c10_kernels as kernels_mod
from harness.props import _c10_schemes as builtin
from harness.props import _c10_steps as steps_mod

PROP = "C10"
REQUIRED_THEOREMS = [
    "containers_overwritten_before_read",
    "generated_steps_eq_model",
    "generated_objective_eq_model",
    "source_containers_overwritten_before_read",
    "outputs_not_aliased_partial",
    "outputs_not_aliased_counterexample",
    "penalty_output_is_copy",
    "objective_history_independent_partial",
    "objective_equals_fresh_optimizer_partial",
    "c12_parameters_history_independent",
    "objective_history_independent_c12_partial",
    "objective_history_independent_counterexample",
    "inputs_unchanged",
    "inputs_unchanged_optimize",
    "optimize_twice_equal",
    "kernels_race_free",
    "kernels_no_aliasing",
    "race_free_check_sound",
    "schedule_result_is_solo",
    "disjoint_writes_schedule_independent",
    "kernel_schedule_independent",
]
TRUSTED = [
    "hand-written model lean/GlotaranModel/C10.lean of the container data flow of Optimizer.__init__/objective_function/"
    "calculate_penalty/optimize/create_result (optimizer.py), OptimizationGroup.__init__/calculate/get_full_penalty "
    "(optimization_group.py), MatrixProvider*/EstimationProvider* calculate/estimate (matrix_provider.py, "
    "estimation_provider.py), DatasetGroup.set_parameters, add_svd_to_dataset — tied to the code by differential "
    "execution (outcomes, history, content provenance of every provider container) only",
    "the numerical computations are uninterpreted in the model (`fn`): that they are functions of the values they read "
    "from the containers (no hidden state in megacomplexes, LAPACK, scipy.optimize.nnls) is observed by the oracle only",
    "extractor harness/props/_c10_kernels.py (Python ast) of the Kernels table lean/GlotaranModel/Generated/C10.lean",
    "translator harness/props/_c10_steps.py (Python ast + abstract interpretation of data flow / live references) of the Steps "
    "table lean/GlotaranModel/Generated/C10Steps.lean; hard-wired in it: which attribute holds an object of which class, that "
    "fill_item results hold the Parameter objects of their parameters argument, that IntervalItem.applies / has_interval are pure, "
    "that megacomplex.calculate_matrix and EstimationProvider.calculate_residual are the external calls; objects of classes "
    "outside the six analysed files (TeeContext, Parameters, ParameterHistory, xarray) are opaque",
    "output provenance (Result fields): hand-written `provenance` in GlotaranModel/C10.lean, tied by object identity / "
    "np.shares_memory / digests on real Optimizers only",
    "numba: compiles the loop nests the source shows; with parallel=True distributes only `prange` loops that are not "
    "nested in another `prange` (inner ones and those of parallel=False functions are sequential); variables assigned in "
    "the loop body are private; whole-array expressions are element-wise; a double store is not torn — observed by "
    "subprocess runs with NUMBA_NUM_THREADS in {1,2,16} only",
    "the parameter object: model of C12 (lean/GlotaranModel/C12.lean), tied to the code by C12's correspondence",
    "harness instrumentation: wrappers around <Megacomplex>.calculate_matrix and EstimationProvider.calculate_residual "
    "(fault injection), readers of the providers' private containers",
]
ASSUMPTIONS = [
    "the control-flow structure of an evaluation (groups, datasets, number of megacomplexes, axis sizes, aligned points, "
    "weights, full models) does not depend on the parameter values; it is read from the real objects and given to the model",
    "whether set_from_label_and_value_arrays raises for a vector, and whether the expression refresh of "
    "ParameterHistory.append raises in a state left by a failed update, are inputs of the model (observed on the real run); "
    "the C12 instance of the theorems says when they can (never after a successful update)",
    "scipy.optimize.least_squares is a deterministic function of the objective values it has seen (Strategy in the model)",
    "BLAS/LAPACK threading, numba code generation and scheduling and process-level nondeterminism are observed by "
    "repeated / subprocess runs only (partial)",
    "snapshot of the caller's scheme: parameter label/value/minimum/maximum/vary/non_negative/expression/standard_error, "
    "Model.as_dict(), every variable of every dataset (bytes, dims), coordinates, attrs, scheme options; with add_svd=True "
    "the SVD variables added to the caller's datasets are ignored (they are not data values)",
]
RULE = (
    "walk case = (scheme, pool of 3-5 distinct free-parameter vectors incl. the initial one, sequence of 6-14 operations "
    "eval(vector id, fault) / calculate_penalty(fault) with fault in {none, n-th calculate_matrix call raises, n-th "
    "calculate_residual call raises} and n uniform over all calls of an evaluation (+1 = none hit); schemes = 12 builtin "
    "kinetic schemes (decay parallel/sequential/k-matrix with and without Gaussian IRF, multi-Gaussian, dispersion and "
    "shift (index dependent), backsweep, coherent artifact + damped oscillation, spectral global model (full model), "
    "linked / unlinked two-dataset schemes with scale, equal-area penalty, relation, constraint, model weight, two groups "
    "with NNLS, expression / non-negative / bounded / fixed parameters, forward-referencing expressions that can raise) + "
    "random specs of harness/gen_scheme.py (C02 space: 1-4 datasets, 1-2 groups, linked/unlinked/auto, index-(in)dependent, "
    "full models, weights, constraints, relations, penalties, VP/NNLS). fault sweep = for a scheme EVERY call position of "
    "one evaluation is interrupted once ([eval v1 with the fault, eval v0, eval v1]); thorough: every history of two "
    "operations over two vectors x every fault position on three schemes (unlinked with penalties, two groups with NNLS, "
    "full model). optimize case = (builtin scheme, method in trf/"
    "dogbox/lm, add_svd, stale expression value yes/no): snapshots + run twice + fresh scheme; optimize-vs-model = the "
    "observed trial/result vectors of least_squares are given to the model's optimizeRun as strategy and the final "
    "containers are compared. outputs case = (builtin scheme, method): "
    "optimize() + create_result() on a real Optimizer, every output held over two more evaluations (live at hand-out / still the "
    "container's object / changed vs model provenance / aliased); every penalty vector of every walk is held until the walk ends; "
    "the first Result is held over the second optimize(). non-finite walk case (ORACLE ONLY, the model has no non-finite values) = "
    "(builtin or random scheme, optionally one positive free parameter declared non-negative by the caller, pool of 4 finite "
    "vectors + 1-3 vectors with one or two NON-FINITE entries: a log-space entry of a non-negative parameter in (709.8, 5000) "
    "(exp overflows) or below -746 (exp underflows to 0), or NaN / +inf / -inf; walk = random ids + for every non-finite vector "
    "[finite a, it, finite b != a, it, finite]): the outcome of every evaluation (penalty vector, NaN-aware equality, or the type "
    "of the exception) equals the outcome on a fresh optimiser at that vector. thread case = (builtin scheme, NUMBA_NUM_THREADS). "
    "builtin scheme 'baseline-mcscale' = a parameter-independent megacomplex matrix (baseline) under a megacomplex_scale that is "
    "not a power of two, next to an unscaled baseline on a model axis of the same length (all streams). history case (oracle "
    "only, no model) = (scaled builtin scheme of _c10_schemes.HISTORY_NAMES, walk length n drawn from the scheme's range — 330-420 "
    "evaluations for 'baseline-mcscale', enough for a factor 0.1 per evaluation to leave the double range, 40-60 for the linked / "
    "unlinked two-dataset schemes with a dataset scale —, walk seed, relative step): penalty and result datasets at the initial "
    "vector after the walk vs the first evaluation, vs a new optimiser of the used process, vs a FRESH process started before "
    "anything was evaluated (penalties and optimize() digests), then optimize() twice + on a freshly built scheme. A case is "
    "non-trivial when at least one evaluation completed after a different vector or an interrupted evaluation; distinct = "
    "distinct (scheme, vectors, operations)."
)

LEAN_GEN = core.LEAN / "GlotaranModel" / "Generated" / "C10.lean"
LEAN_GEN_STEPS = core.LEAN / "GlotaranModel" / "Generated" / "C10Steps.lean"
FAULT_MSG = "verif-c10-fault"
METHODS = ["TrustRegionReflection", "Dogbox", "Levenberg-Marquardt"]
SVD_SUFFIXES = ("_left_singular_vectors", "_singular_values", "_right_singular_vectors")


# ------------------------------------------------------------------------------------------
# regenerated table
# ------------------------------------------------------------------------------------------
def generate(ck):
    ks = kernels_mod.extract(core.REPO)
    text = kernels_mod.render_lean(ks)
    LEAN_GEN.parent.mkdir(parents=True, exist_ok=True)
    if not LEAN_GEN.exists() or LEAN_GEN.read_text() != text:
        LEAN_GEN.write_text(text)
    ck.extra["kernels"] = [{"name": k["name"], "file": k["file"], "parallel": k["parallel"], "ast_sha1": k["ast_sha1"],
                            "stores": sum(1 for a in k["accesses"] if a["write"]), "calls": len(k["calls"])} for k in ks]
    ck._kernels = ks
    # steps table: the container data flow of one objective evaluation as the source has it
    table = steps_mod.extract(core.REPO)
    stext = steps_mod.render_lean(table)
    if not LEAN_GEN_STEPS.exists() or LEAN_GEN_STEPS.read_text() != stext:
        LEAN_GEN_STEPS.write_text(stext)
    ck._steps = table
    bad = [st[1] for b in table["blocks"] for st in b["steps"] if st[0] == "untranslatable"]
    ck.extra["steps_table"] = {"blocks": len(table["blocks"]), "steps": sum(len(b["steps"]) for b in table["blocks"]),
                               "untranslatable": bad[:5],
                               "in_place_updates": [st[2] for b in table["blocks"] for st in b["steps"] if st[0] == "inplace"][:8]}
    return [{"table": "Kernels (lean/GlotaranModel/Generated/C10.lean)",
             "source": sorted({k["file"] for k in ks}),
             "sha1": hashlib.sha1(text.encode()).hexdigest(), "kernels": len(ks)},
            {"table": "Steps (lean/GlotaranModel/Generated/C10Steps.lean): container reads / overwrites / clears / appends / "
                      "in-place updates, method calls, loops and branches of one objective evaluation in program order",
             "source": sorted(table["sha"]), "sha1": hashlib.sha1(stext.encode()).hexdigest(),
             "blocks": len(table["blocks"])}]


# ------------------------------------------------------------------------------------------
# schemes
# ------------------------------------------------------------------------------------------
def build_scheme(ref: dict):
    """a FRESH scheme for a JSON-able reference"""
    if ref["kind"] == "builtin":
        sch = builtin.build(ref["name"], method=ref.get("method", "TrustRegionReflection"),
                            max_nfev=ref.get("max_nfev", 3), add_svd=ref.get("add_svd", False))
    elif ref["kind"] == "spec":
        spec = dict(ref["spec"])
        spec["optimization_method"] = ref.get("method", "TrustRegionReflection")
        spec["max_nfev"] = ref.get("max_nfev", 3)
        sch = gen_scheme.build(spec)[0]
        if ref.get("add_svd"):
            sch.add_svd = True
    else:
        raise core.HarnessError(f"unknown scheme reference {ref}")
    for label, value in (ref.get("stale") or {}).items():
        # the caller changes a value after construction: expression parameters depending on it are stale
        sch.parameters.get(label).value = value
    return sch


def free_vector(scheme):
    labels, x0, lo, hi = scheme.parameters.copy().get_label_value_and_bounds_arrays(exclude_non_vary=True)
    return list(labels), np.array(x0, dtype=float), np.array(lo, dtype=float), np.array(hi, dtype=float)


def make_optimizer(scheme):
    from glotaran.optimization.optimizer import Optimizer

    opt = Optimizer(scheme, verbose=False, raise_exception=True)
    opt._free_parameter_labels = free_vector(scheme)[0]
    return opt


def vector_pool(rng, ref, scheme, n):
    """distinct free-parameter vectors (lists of floats), the first one is the scheme's initial vector"""
    labels, x0, lo, hi = free_vector(scheme)
    pool = [x0.tolist()]
    special = builtin.SPECIAL_VECTORS.get(ref.get("name"), []) if ref["kind"] == "builtin" else []
    for sp in special:
        v = x0.copy()
        for label, val in sp.items():
            v[labels.index(label)] = val
        pool.append(v.tolist())
    tries = 0
    while len(pool) < n and tries < 50:
        tries += 1
        if ref["kind"] == "spec":
            f = np.array([rng.choice([1.0, 1.0, 2.0, 0.5, 1.5]) for _ in x0])
            v = x0 * f
        else:
            f = np.array([1.0 + rng.choice([-1, 1]) * rng.choice([0.0, 0.01, 0.03, 0.08]) for _ in x0])
            v = x0 * f + np.array([rng.choice([0.0, 0.0, 0.004]) for _ in x0])
        v = np.minimum(np.maximum(v, lo), hi)
        if all(not np.array_equal(v, np.array(p)) for p in pool):
            pool.append(v.tolist())
    # a finite-difference neighbour of an existing vector (relative step 2^-26 on one entry): what least_squares evaluates
    # for the Jacobian (seeded change C10-2: the expression fixpoint loop stopped on np.isclose for such steps)
    if len(x0):
        base = np.array(pool[rng.randrange(len(pool))], dtype=float)
        # every entry moves (a late, tiny optimiser step), so whichever parameter an expression depends on has changed
        base = np.where(base != 0, base * (1.0 + 2.0 ** -26), 2.0 ** -30)
        base = np.minimum(np.maximum(base, lo), hi)
        vector_pool.fd_pair = None
        if all(not np.array_equal(base, np.array(p)) for p in pool):
            src = min(range(len(pool)), key=lambda i: float(np.max(np.abs(np.array(pool[i]) - base))))
            pool.append(base.tolist())
            vector_pool.fd_pair = (src, len(pool) - 1)
    return pool


# ------------------------------------------------------------------------------------------
# digests of the real containers
# ------------------------------------------------------------------------------------------
def _h(*parts) -> str:
    m = hashlib.sha1()
    for p in parts:
        if isinstance(p, np.ndarray):
            m.update(str(p.shape).encode())
            m.update(np.ascontiguousarray(p, dtype=np.float64).tobytes() if p.dtype.kind in "fiu" else repr(p.tolist()).encode())
        elif isinstance(p, bytes):
            m.update(p)
        else:
            m.update(repr(p).encode())
        m.update(b"|")
    return m.hexdigest()[:16]


def _item_digest(obj, depth=0):
    """values of all parameters inside a filled model item (recursively), plus plain values"""
    import attrs
    from glotaran.parameter import Parameter

    if depth > 12:
        return "deep"
    if isinstance(obj, Parameter):
        return ("P", obj.label, float(obj.value).hex())
    if isinstance(obj, (list, tuple)):
        return [_item_digest(x, depth + 1) for x in obj]
    if isinstance(obj, dict):
        return {repr(k): _item_digest(v, depth + 1) for k, v in obj.items()}
    if attrs.has(type(obj)):
        return {a.name: _item_digest(getattr(obj, a.name), depth + 1) for a in attrs.fields(type(obj))}
    if isinstance(obj, np.ndarray):
        return _h(obj)
    return repr(obj)


def _params_digest(parameters):
    return _h([(p.label, float(p.value).hex()) for p in parameters.all()])


def _mc(c):
    return None if c is None else _h(list(c.clp_labels), np.asarray(c.matrix))


def snapshot_state(opt) -> dict:
    """loc (the model's names) -> list of element digests"""
    from glotaran.model.dataset_model import has_dataset_model_global_model
    from glotaran.optimization.matrix_provider import MatrixProviderLinked

    st = {"params": [_params_digest(opt._parameters)]}
    st["hist"] = [_h(np.asarray(r[1:], dtype=float)) for r in opt._parameter_history.parameters]
    for g, grp in enumerate(opt._optimization_groups):
        dg, mp, ep = grp._dataset_group, grp._matrix_provider, grp._estimation_provider
        st[f"gp:{g}"] = [] if dg.parameters is None else [_params_digest(dg.parameters)]
        pen = list(ep._clp_penalty)
        st[f"pen:{g}"] = [_h(float(v).hex()) for v in pen]
        for d, dm in dg.dataset_models.items():
            st[f"dm:{g}:{enc(d)}"] = [_h(_item_digest(dm))]
            c = mp._matrix_containers.get(d)
            st[f"mat:{g}:{enc(d)}"] = [] if c is None else [_mc(c)]
        if isinstance(mp, MatrixProviderLinked):
            n = len(mp._aligned_matrices)
            for i in range(n):
                al = mp._aligned_full_clp_labels[i]
                st[f"alab:{g}:{i}"] = [] if al is None else [_h(list(al))]
                st[f"amat:{g}:{i}"] = [] if mp._aligned_matrices[i] is None else [_mc(mp._aligned_matrices[i])]
                st[f"lclps:{g}:{i}"] = [] if ep._clps[i] is None else [_h(np.asarray(ep._clps[i], dtype=float))]
                st[f"lres:{g}:{i}"] = [] if ep._residuals[i] is None else [_h(np.asarray(ep._residuals[i], dtype=float))]
        else:
            for d, dm in dg.dataset_models.items():
                e = enc(d)
                if has_dataset_model_global_model(dm):
                    c = mp._global_matrix_containers.get(d)
                    st[f"gmat:{g}:{e}"] = [] if c is None else [_mc(c)]
                    f = mp._full_matrices.get(d)
                    st[f"full:{g}:{e}"] = [] if f is None else [_h(np.asarray(f, dtype=float))]
                    for name, box in (("clps", ep._clps), ("res", ep._residuals)):
                        v = box[d]
                        st[f"{name}:{g}:{e}"] = ([] if len(v) == 0 else [_h(np.asarray(v, dtype=float))]) if isinstance(v, list) \
                            else [_h(np.asarray(v, dtype=float))]
                else:
                    p = mp._prepared_matrix_container.get(d)
                    st[f"prep:{g}:{e}"] = [] if p is None else [_h([_mc(c) for c in p])]
                    st[f"clps:{g}:{e}"] = [_h(np.asarray(v, dtype=float)) for v in ep._clps[d]]
                    st[f"res:{g}:{e}"] = [_h(np.asarray(v, dtype=float)) for v in ep._residuals[d]]
    return st


def structure_of(opt) -> dict:
    """the control-flow structure of an evaluation, read from the real objects (input of the model)"""
    from glotaran.model.dataset_model import has_dataset_model_global_model
    from glotaran.optimization.matrix_provider import MatrixProviderLinked

    groups = []
    for grp in opt._optimization_groups:
        dg, mp, dp = grp._dataset_group, grp._matrix_provider, grp._data_provider
        linked = isinstance(mp, MatrixProviderLinked)
        dsets = []
        for d, dm in dg.dataset_models.items():
            full = has_dataset_model_global_model(dm)
            dsets.append({"label": d, "nGlobal": int(dp.get_global_axis(d).size), "nMc": len(dm.megacomplex),
                          "nGmc": len(dm.global_megacomplex) if full else 0,
                          "weighted": dp.get_weight(d) is not None})
        aligned = []
        if linked:
            for i in range(dp.aligned_global_axis.size):
                aligned.append([str(x) for x in dp.group_definitions[dp.get_aligned_group_label(i)]])
        groups.append({"linked": linked, "datasets": dsets, "aligned": aligned})
    return {"groups": groups}


def spec_line(struct) -> str:
    gs = []
    for g in struct["groups"]:
        ds = lst(lst([enc(d["label"]), str(d["nGlobal"]), str(d["nMc"]), str(d["nGmc"]), bool_(d["weighted"])]) for d in g["datasets"])
        al = lst(strs(a) for a in g["aligned"])
        gs.append(lst([bool_(g["linked"]), ds, al]))
    return "spec " + lst(gs)


def calls_per_evaluation(struct):
    m = r = 0
    for g in struct["groups"]:
        for d in g["datasets"]:
            m += d["nMc"] + d["nGmc"]
            if not g["linked"]:
                r += 1 if d["nGmc"] else d["nGlobal"]
        if g["linked"]:
            r += len(g["aligned"])
    return m, r


# ------------------------------------------------------------------------------------------
# fault injection
# ------------------------------------------------------------------------------------------
class Injector:
    def __init__(self):
        self.reset(None)

    def reset(self, fault):
        self.fault = fault          # None | ("m", n) | ("r", n)
        self.count = {"m": 0, "r": 0}
        self.hit = False

    def tick(self, kind):
        self.count[kind] += 1
        f = self.fault
        if f is not None and f[0] == kind and self.count[kind] == f[1]:
            self.hit = True
            raise RuntimeError(FAULT_MSG)


INJ = Injector()


@contextlib.contextmanager
def instrumented(scheme):
    """wrap calculate_matrix of every megacomplex class of the scheme's model and calculate_residual"""
    from glotaran.optimization import estimation_provider as ep

    classes = {type(m) for m in scheme.model.megacomplex.values()}
    saved = []
    for cls in classes:
        orig = cls.__dict__.get("calculate_matrix")
        if orig is None:
            continue

        def make(orig):
            def calculate_matrix(self, *a, **kw):
                INJ.tick("m")
                return orig(self, *a, **kw)
            return calculate_matrix
        saved.append((cls, orig))
        setattr(cls, "calculate_matrix", make(orig))
    o_res = ep.EstimationProvider.calculate_residual

    def calculate_residual(self, matrix, data):
        INJ.tick("r")
        return o_res(self, matrix, data)
    ep.EstimationProvider.calculate_residual = calculate_residual
    try:
        yield
    finally:
        ep.EstimationProvider.calculate_residual = o_res
        for cls, orig in saved:
            setattr(cls, "calculate_matrix", orig)


# ------------------------------------------------------------------------------------------
# snapshot of the caller's scheme
# ------------------------------------------------------------------------------------------
def _canon(obj):
    """canonical text of nested dict / list structures (dict keys of any type, sorted)"""
    if isinstance(obj, dict):
        return "{" + ",".join(f"{_canon(k)}:{_canon(v)}" for k, v in sorted(obj.items(), key=lambda kv: repr(kv[0]))) + "}"
    if isinstance(obj, (list, tuple)):
        return "[" + ",".join(_canon(x) for x in obj) + "]"
    if isinstance(obj, float):
        return obj.hex()
    return repr(obj)


def scheme_snapshot(scheme, ignore_svd=False):
    snap = {}
    snap["parameters"] = None if scheme.parameters is None else [
        (p.label, float(p.value).hex(), float(p.minimum).hex(), float(p.maximum).hex(), bool(p.vary), bool(p.non_negative),
         p.expression, repr(p.standard_error)) for p in scheme.parameters.all()]
    snap["model"] = _canon(scheme.model.as_dict())
    data = {}
    for label, ds in scheme.data.items():
        entry = {"vars": {}, "coords": {}, "attrs": sorted(map(str, ds.attrs))}
        for name in ds.data_vars:
            if ignore_svd and str(name).endswith(SVD_SUFFIXES):
                continue
            v = ds[name]
            entry["vars"][str(name)] = (tuple(map(str, v.dims)), _h(np.asarray(v.values)))
        for name in ds.coords:
            if ignore_svd and "singular_value_index" in str(name):
                continue
            entry["coords"][str(name)] = _h(np.asarray(ds.coords[name].values))
        data[label] = entry
    snap["data"] = data
    snap["options"] = (scheme.optimization_method, scheme.maximum_number_function_evaluations, scheme.add_svd,
                       scheme.ftol, scheme.gtol, scheme.xtol, scheme.clp_link_tolerance, scheme.clp_link_method)
    return snap


def snapshot_diff(a, b):
    out = []
    for k in a:
        if a[k] != b.get(k):
            if k == "parameters" and a[k] is not None and b.get(k) is not None:
                out.append("parameters: " + "; ".join(f"{x[0]} {x[1:]} -> {y[1:]}" for x, y in zip(a[k], b[k]) if x != y)[:300])
            elif k == "data":
                for label in a[k]:
                    if a[k][label] != b[k].get(label):
                        ea, eb = a[k][label], b[k].get(label, {})
                        which = [f"{sec}.{n}" for sec in ("vars", "coords") for n in set(ea[sec]) | set(eb.get(sec, {}))
                                 if ea[sec].get(n) != eb.get(sec, {}).get(n)]
                        if ea["attrs"] != eb.get("attrs"):
                            which.append("attrs")
                        out.append(f"data[{label}]: {sorted(which)}")
            else:
                out.append(k)
    return out


# ------------------------------------------------------------------------------------------
# fresh references
# ------------------------------------------------------------------------------------------
FRESH_CACHE: dict = {}


class Fresh:
    """what a fresh optimiser for the same scheme gives at a vector (built once per scheme and vector, never evaluated
    again: every reference comes from an optimiser that has seen exactly one vector)"""

    def __init__(self, ref, vec):
        """`vec is None`: the optimiser right after construction (no evaluation)"""
        self.ok = False
        self.set_raises = False
        self.error = None
        scheme = build_scheme(ref)
        with warnings.catch_warnings():
            warnings.simplefilter("ignore")
            opt = make_optimizer(scheme)
            INJ.reset(None)
            self.states = []
            if vec is None:
                self.states.append(snapshot_state(opt))
                try:
                    pen = opt.calculate_penalty()
                except Exception as e:  # noqa: BLE001
                    self.error = type(e).__name__
                    return
                self.ok = True
                self.penalty = np.array(pen, dtype=float)
                self.state = snapshot_state(opt)
                self.states.append(self.state)
                self.opt = opt
                self._result = None
                return
            try:
                opt._parameters.copy().set_from_label_and_value_arrays(opt._free_parameter_labels, np.array(vec, dtype=float))
            except Exception:  # noqa: BLE001
                self.set_raises = True
                return
            try:
                pen = opt.objective_function(np.array(vec, dtype=float))
            except Exception as e:  # noqa: BLE001
                self.error = type(e).__name__
                return
        self.ok = True
        self.penalty = np.array(pen, dtype=float)
        self.state = snapshot_state(opt)
        self.states.append(self.state)
        self.opt = opt
        self._result = None

    def result_data(self):
        if self._result is None:
            self._result = result_digest(self.opt)
        return self._result


def result_digest(opt):
    """digest of the result datasets the groups would create now (`create_result_data`)"""
    out = {}
    with warnings.catch_warnings():
        warnings.simplefilter("ignore")
        for grp in opt._optimization_groups:
            for label, ds in grp.create_result_data().items():
                for name in ("residual", "clp", "matrix", "fitted_data", "weighted_residual", "global_matrix"):
                    if name in ds:
                        out[f"{label}.{name}"] = _h(np.asarray(ds[name].values, dtype=float))
    return out


# ------------------------------------------------------------------------------------------
# one walk: real code, model, oracle
# ------------------------------------------------------------------------------------------
def fault_tok(f):
    return "none" if f is None else lst([f[0], str(f[1])])


def random_ops(rng, n_ops, n_vec, mcalls, rcalls):
    ops = []
    for _ in range(n_ops):
        r = rng.random()
        fault = None
        q = rng.random()
        if q < 0.22 and mcalls:
            fault = ["m", rng.randint(1, mcalls + 1)]
        elif q < 0.45 and rcalls:
            fault = ["r", rng.randint(1, rcalls + 1)]
        if r < 0.12:
            ops.append({"op": "pen", "fault": fault})
        else:
            ops.append({"op": "eval", "id": rng.randrange(n_vec), "fault": fault})
    # make sure the walk ends with completed evaluations at an earlier and at the last point
    ops.append({"op": "eval", "id": rng.randrange(n_vec), "fault": None})
    return ops


def run_walk(ck, case, use_model=True, collect=None):
    """returns True if nothing was found"""
    ref, pool, ops = case["scheme"], case["vectors"], case["ops"]
    clean = True
    with warnings.catch_warnings():
        warnings.simplefilter("ignore")
        try:
            scheme = build_scheme(ref)
            before = scheme_snapshot(scheme, ignore_svd=bool(scheme.add_svd))
            opt = make_optimizer(scheme)
        except Exception as e:  # noqa: BLE001 — construction errors (AlignDatasetError …) are not C10's business
            ck.count(f"construct-error:{type(e).__name__}")
            return True
        struct = structure_of(opt)
        fresh = {}

        init_id = len(pool)
        ref_key = json.dumps(ref, sort_keys=True, default=str)

        def fresh_of(i):
            if i not in fresh:
                vec = pool[i] if i < len(pool) else None
                key = (ref_key, None if vec is None else tuple(float(v).hex() for v in vec))
                if key not in FRESH_CACHE:
                    if len(FRESH_CACHE) > 400:
                        FRESH_CACHE.clear()
                    FRESH_CACHE[key] = Fresh(ref, vec)
                    ck.oracle_evals += 1
                fresh[i] = FRESH_CACHE[key]
            return fresh[i]

        fresh_of(init_id)
        lines = [spec_line(struct), f"init {init_id}"]
        impl = [("ok", snapshot_state(opt), None)]
        cur = init_id      # id of the vector the private parameters hold; None after a failed set
        completed_after_change = False
        last_eval_done = None
        held = []          # (operation, the array object handed out, its bytes at hand-out)
        with instrumented(scheme):
            for k, op in enumerate(ops):
                f = tuple(op["fault"]) if op.get("fault") else None
                INJ.reset(f)
                outcome, value, set_raised = None, None, False
                try:
                    if op["op"] == "eval":
                        x = np.array(pool[op["id"]], dtype=float)
                        try:
                            opt._parameters.set_from_label_and_value_arrays(opt._free_parameter_labels, x)
                        except Exception:  # noqa: BLE001
                            set_raised = True
                            raise
                        value = opt.calculate_penalty()
                    else:
                        value = opt.calculate_penalty()
                    outcome = "value"
                except RuntimeError as e:
                    outcome = "raised" if str(e) == FAULT_MSG else f"error:{type(e).__name__}"
                except Exception as e:  # noqa: BLE001
                    if set_raised:
                        outcome = "set-failed"
                    elif _raised_in_history_refresh(e):
                        outcome = "refresh-failed"
                    else:
                        outcome = f"error:{type(e).__name__}"
                INJ.fault = None
                # ---- oracle: a penalty vector handed out earlier is not overwritten by a later evaluation
                stale = [k0 for k0, arr, b0 in held if arr.tobytes() != b0]
                if stale:
                    ck.violation(_walk_key("held-penalty-overwritten", ref, struct),
                                 f"the penalty vector returned by operation {stale[0] + 1} was changed in place by operation "
                                 f"{k + 1}: the array handed out is a live view of a buffer that later evaluations overwrite",
                                 {"kind": "walk", **case, "ops": ops[: k + 1]})
                    clean = False
                    break
                if isinstance(value, np.ndarray):
                    held.append((k, value, value.tobytes()))
                    ck.count("held-outputs-checked")
                if op["op"] == "eval":
                    cur = None if set_raised else op["id"]
                    lines.append(f"eval {op['id']} {bool_(set_raised)} {fault_tok(f)}")
                else:
                    lines.append(f"pen {fault_tok(f)} {bool_(outcome == 'refresh-failed')}")
                impl.append((outcome, snapshot_state(opt), None if value is None else np.array(value, dtype=float)))
                ck.count(f"op:{op['op']}:{outcome.split(':')[0]}" + (":fault-hit" if INJ.hit else ""))
                # ---- oracle: the penalty equals a fresh optimiser's at the same vector, bit for bit
                if outcome == "value" and cur is not None:
                    fr = fresh_of(cur)
                    last_eval_done = cur
                    if k > 0:
                        completed_after_change = True
                    if fr.ok:
                        pen = np.array(value, dtype=float)
                        if pen.shape != fr.penalty.shape or pen.tobytes() != fr.penalty.tobytes():
                            what = _describe_penalty_diff(pen, fr.penalty)
                            ck.violation(_walk_key("penalty-differs-from-fresh", ref, struct),
                                         f"after {k + 1} operations the penalty at vector {cur} differs from a fresh "
                                         f"optimiser's: {what}", {"kind": "walk", **case, "ops": ops[: k + 1]})
                            clean = False
                            break
                    elif not fr.set_raises:
                        ck.violation(_walk_key("evaluates-only-after-history", ref, struct),
                                     f"a fresh optimiser raises {fr.error} at vector {cur}, after {k + 1} operations the "
                                     "evaluation returns", {"kind": "walk", **case, "ops": ops[: k + 1]})
                        clean = False
                        break
                elif outcome.startswith("error:") or outcome in ("set-failed", "refresh-failed"):
                    i = op.get("id", cur)
                    fr = fresh_of(i) if i is not None else None
                    if fr is not None and fr.ok and not INJ.hit:
                        key = "stale-expression-raise" if outcome in ("set-failed", "refresh-failed") else "raises-only-after-history"
                        ck.violation(_walk_key(key, ref, struct, plain=(key == "stale-expression-raise")),
                                     f"after {k + 1} operations the evaluation at vector {i} raises ({outcome}); a fresh "
                                     "optimiser evaluates it", {"kind": "walk", **case, "ops": ops[: k + 1]})
                        clean = False
                        if key != "stale-expression-raise":
                            break
        # ---- oracle: result datasets equal those of a fresh optimiser at the last evaluated vector
        if clean and last_eval_done is not None and cur == last_eval_done and impl[-1][0] == "value":
            fr = fresh_of(cur)
            if fr.ok:
                try:
                    mine = result_digest(opt)
                    err = None
                except Exception as e:  # noqa: BLE001
                    mine, err = None, f"{type(e).__name__}: {e}"
                try:
                    ref_res = fr.result_data()
                except Exception:  # noqa: BLE001 — result creation is broken for this scheme even when fresh: not C10
                    ref_res = None
                if ref_res is not None and mine != ref_res:
                    bad = err or sorted(k for k in ref_res if mine.get(k) != ref_res[k])
                    ck.violation(_walk_key("result-data-differs-from-fresh", ref, struct),
                                 f"the result datasets after the walk differ from a fresh optimiser's at the same "
                                 f"vector: {bad}", {"kind": "walk", **case})
                    clean = False
        # ---- oracle: the caller's scheme is untouched by Optimizer(scheme) and every operation
        diff = snapshot_diff(before, scheme_snapshot(scheme, ignore_svd=bool(scheme.add_svd)))
        if diff:
            ck.violation(_walk_key("scheme-mutated-by-evaluations", ref, struct),
                         f"operations on the optimiser changed the caller's scheme: {diff}", {"kind": "walk", **case})
            clean = False
    ck.case(("walk", json.dumps(case, sort_keys=True, default=str)), nontrivial=completed_after_change)
    if collect is not None and use_model:
        collect.append((case, struct, lines, impl, fresh, pool, ref))
    return clean


def _raised_in_history_refresh(e) -> bool:
    """the exception comes from update_parameter_expression() run by ParameterHistory.append inside calculate_penalty"""
    import traceback

    names = [fr.name for fr in traceback.extract_tb(e.__traceback__)]
    return "update_parameter_expression" in names and "append" in names and "calculate_penalty" in names


def _describe_penalty_diff(a, b):
    if a.shape != b.shape:
        return f"length {a.size} vs {b.size}"
    i = int(np.argmax(a != b)) if a.size else 0
    n = int(np.sum(a != b))
    return f"{n} of {a.size} entries differ, first at {i}: {a[i]!r} vs {b[i]!r}"


def _walk_key(base, ref, struct, plain=False):
    """class of the failing input: which provider kinds / features the scheme exercises"""
    if plain:
        return base
    feats = []
    if any(g["linked"] for g in struct["groups"]):
        feats.append("linked")
    if any(not g["linked"] for g in struct["groups"]):
        feats.append("unlinked")
    if any(d["nGmc"] for g in struct["groups"] for d in g["datasets"]):
        feats.append("full")
    return f"{base}:{'+'.join(feats)}"


def compare_with_model(ck, batch):
    """feed the walks to the Lean driver and diff outcomes / containers"""
    all_lines, spans = [], []
    for case, struct, lines, impl, fresh, pool, ref in batch:
        spans.append((len(all_lines), len(lines)))
        all_lines += lines
    answers = core.lean_driver(PROP, all_lines + ["steps"])[:-1] if all_lines else []
    for (start, n), (case, struct, lines, impl, fresh, pool, ref) in zip(spans, batch):
        ans = answers[start:start + n]
        if not ans[0].startswith("ok "):
            raise core.HarnessError(f"model rejected the spec line: {ans[0]} for {lines[0][:200]}")
        for j, (a, (outcome, state, value)) in enumerate(zip(ans[1:], impl)):
            if a in ("bad-op", "bad-line"):
                raise core.HarnessError(f"model rejected {lines[j + 1]!r}")
            head, _, tail = a.partition(" | ")
            cells = dict(t.split("=", 1) for t in tail.split(" "))
            payload = {"kind": "walk", **case, "ops": case["ops"][:j], "at": lines[j + 1]}
            # ---- API level: outcome, history length, length of the additional penalties
            kind_m = head.split(" ")[0]
            kind_i = outcome
            if kind_m != kind_i:
                ck.disagree("outcome", f"operation {j} ({lines[j + 1]}): implementation {kind_i}, model {kind_m}", payload)
                break
            if kind_m == "value":
                prov = core.parse_tree(head.split(" ", 1)[1])[0]
                ck.count("model:value")
                # model: the value depends on exactly one vector; implementation: bit-equal to that vector's fresh penalty
                ids = sorted({int(x) for cell in prov for x in cell})
                if len(ids) == 1 and ids[0] in fresh and fresh[ids[0]].ok and value is not None and fresh[ids[0]].penalty is not None:
                    if value.tobytes() != fresh[ids[0]].penalty.tobytes():
                        ck.disagree("penalty-provenance", f"operation {j}: the model says the penalty depends on vector "
                                    f"{ids[0]} only, the implementation's differs from the fresh one", payload)
                        break
                elif len(ids) != 1:
                    ck.count("model:value-from-inconsistent-parameters")
            hist_m = core.parse_tree(cells["hist"])[0]
            if len(hist_m) != len(state["hist"]):
                ck.disagree("history-length", f"operation {j} ({lines[j + 1]}): parameter history has {len(state['hist'])} "
                            f"records, model {len(hist_m)}", payload)
                break
            # ---- internal: content provenance of every container
            bad = []
            for loc, cell_txt in cells.items():
                cell_m = core.parse_tree(cell_txt)[0]
                cell_i = state.get(loc)
                if cell_i is None:
                    bad.append(f"{loc}: container not found in the implementation")
                    continue
                if loc.startswith("pen:"):
                    ok = _check_penalty_cell(loc, cell_m, cell_i, fresh, struct)
                else:
                    ok = _check_cell(loc, cell_m, cell_i, fresh)
                ck.count("containers-compared")
                if ok is not True:
                    bad.append(f"{loc}: {ok}")
            if bad:
                ck.count("container-mismatch")
                ck.diagnostic(f"walk {case['scheme'].get('name', 'spec')} operation {j} ({lines[j + 1]}): " + "; ".join(bad[:4]),
                              payload)
                # a container that holds something else than the model says is decisive only together with the oracle;
                # it makes the check look harder (search) but is not a verdict
                ck.extra["container_mismatches"] = ck.extra.get("container_mismatches", 0) + 1
                break


def _ids_of(cell):
    return [sorted(int(x) for x in el) for el in cell]


def _check_cell(loc, cell_m, cell_i, fresh):
    """model cell (list of provenance sets) vs implementation cell (list of digests)"""
    prov = _ids_of(cell_m)
    if len(prov) != len(cell_i):
        return f"{len(cell_i)} element(s), model {len(prov)}"

    def element(state, n):
        c = state.get(loc)
        if c is None:
            return None
        if loc == "hist":
            return c[-1] if c else None
        return c[n] if n < len(c) else None

    for n, (ids, dig) in enumerate(zip(prov, cell_i)):
        if len(ids) != 1:
            continue            # mixture after a failed parameter update: nothing to compare with
        fr = fresh.get(ids[0])
        if fr is None or not fr.ok:
            continue
        cands = [element(st, n) for st in fr.states]
        if all(c is None for c in cands):
            continue
        if dig not in cands:
            others = [i for i, f in fresh.items() if f.ok and any(element(st, n) == dig for st in f.states)]
            return f"element {n}: model says vector {ids[0]}, content matches vectors {others or 'none'}"
    return True


def _check_penalty_cell(loc, cell_m, cell_i, fresh, struct):
    """`_clp_penalty`: the model holds one chunk per dataset (unlinked) / one chunk (linked), the implementation a flat list"""
    prov = _ids_of(cell_m)
    if not prov:
        return True if len(cell_i) == 0 else f"{len(cell_i)} penalties, model: empty"
    ids = sorted({i for p in prov for i in p})
    g = int(loc.split(":")[1])
    grp = struct["groups"][g]
    n_chunks = 1 if grp["linked"] else sum(1 for d in grp["datasets"] if not d["nGmc"])
    if len(ids) == 1 and len(prov) == n_chunks and ids[0] in fresh and fresh[ids[0]].ok:
        want = fresh[ids[0]].state[loc]
        return True if want == cell_i else f"{len(cell_i)} penalties {'(different values)' if len(want) == len(cell_i) else ''}, fresh has {len(want)}"
    return True      # partial list after an interrupted estimate: lengths depend on which datasets carry penalties


# ------------------------------------------------------------------------------------------
# optimize(): inputs unchanged, twice equal
# ------------------------------------------------------------------------------------------
def result_fingerprint(result):
    fp = {"success": bool(result.success), "nfev": int(result.number_of_function_evaluations),
          "termination": str(result.termination_reason),
          "cost": None if getattr(result, "cost", None) is None else float(result.cost).hex(),
          "optimized": [(p.label, float(p.value).hex(), repr(p.standard_error)) for p in result.optimized_parameters.all()],
          "history": _h(np.asarray(result.parameter_history.to_dataframe().values, dtype=float)),
          "additional_penalty": _h(repr(result.additional_penalty))}
    for name in ("chi_square", "root_mean_square_error", "optimality"):
        v = getattr(result, name, None)
        fp[name] = None if v is None else float(v).hex()
    for arr in ("jacobian", "covariance_matrix"):
        v = getattr(result, arr, None)
        fp[arr] = None if v is None else _h(np.asarray(v, dtype=float))
    data = {}
    for label, ds in result.data.items():
        for name in ds.data_vars:
            v = ds[name]
            if v.dtype.kind in "fiu":
                data[f"{label}.{name}"] = _h(np.asarray(v.values, dtype=float))
    fp["data"] = data
    return fp


def fingerprint_diff(a, b):
    out = [k for k in a if k != "data" and a[k] != b.get(k)]
    out += sorted(k for k in set(a["data"]) | set(b["data"]) if a["data"].get(k) != b["data"].get(k))
    return out


def run_optimize_case(ck, case, fresh_run=True):
    """case = {"kind": "optimize", "scheme": ref}"""
    from glotaran.optimization.optimize import optimize

    ref = case["scheme"]
    clean = True
    with warnings.catch_warnings():
        warnings.simplefilter("ignore")
        scheme = build_scheme(ref)
        svd = bool(scheme.add_svd)
        before = scheme_snapshot(scheme, ignore_svd=svd)
        outs = []
        first = None
        for run in range(2):
            try:
                with open(os.devnull, "w") as null, contextlib.redirect_stdout(null):
                    res = optimize(scheme, verbose=False, raise_exception=True)
                outs.append(("result", result_fingerprint(res)))
                if run == 0:
                    first = res
            except Exception as e:  # noqa: BLE001
                outs.append(("exception", f"{type(e).__name__}: {e}"[:200]))
            after = scheme_snapshot(scheme, ignore_svd=svd)
            diff = snapshot_diff(before, after)
            ck.oracle_evals += 1
            if diff:
                key = "caller-expression-refreshed" if (ref.get("stale") and all(d.startswith("parameters") for d in diff)) \
                    else "scheme-mutated-by-optimize"
                ck.violation(key, f"optimize() (run {run + 1}, {ref.get('method')}) changed the caller's scheme: {diff}", case)
                clean = False
                break
        # the result of the first run, held while the second one ran, is what it was at hand-out
        if clean and first is not None and outs[0][0] == "result":
            d = fingerprint_diff(outs[0][1], result_fingerprint(first))
            ck.count("first-result-held-over-second-optimize")
            if d:
                ck.violation("first-result-changed-by-second-optimize", f"the Result of the first optimize() changed while the "
                             f"second optimize() of the same scheme ran: {d[:8]}", case)
                clean = False
        # a third run on a freshly built scheme object
        if clean and fresh_run:
            scheme2 = build_scheme(ref)
            try:
                with open(os.devnull, "w") as null, contextlib.redirect_stdout(null):
                    res = optimize(scheme2, verbose=False, raise_exception=True)
                outs.append(("result", result_fingerprint(res)))
            except Exception as e:  # noqa: BLE001
                outs.append(("exception", f"{type(e).__name__}: {e}"[:200]))
        if clean:
            for i in range(1, len(outs)):
                if outs[i][0] != outs[0][0] or (outs[0][0] == "exception" and outs[i][1] != outs[0][1]):
                    ck.violation("optimize-twice-differs", f"optimize() run 1: {outs[0][0]} {outs[0][1] if outs[0][0] == 'exception' else ''}; "
                                 f"run {i + 1} ({'same scheme object' if i == 1 else 'freshly built scheme'}): {outs[i][0]} "
                                 f"{outs[i][1] if outs[i][0] == 'exception' else ''}", case)
                    clean = False
                    break
                if outs[0][0] == "result":
                    d = fingerprint_diff(outs[0][1], outs[i][1])
                    if d:
                        ck.violation("optimize-twice-differs", f"optimize() twice ({ref.get('method')}; second run on "
                                     f"{'the same scheme object' if i == 1 else 'a freshly built scheme'}) differs in {d[:8]}", case)
                        clean = False
                        break
    ck.count(f"optimize:{ref.get('method')}:{outs[0][0]}")
    ck.case(("optimize", json.dumps(case, sort_keys=True, default=str)), nontrivial=outs[0][0] == "result")
    return clean


def optimize_vs_model(ck, ref):
    """`optimize(scheme)` step by step on the real Optimizer; the observed trial vectors and result vector are given to
    the model's `optimizeRun` as the optimiser's strategy; success, history length and the content provenance of every
    container after create_result are compared"""
    from glotaran.optimization.optimizer import Optimizer

    with warnings.catch_warnings():
        warnings.simplefilter("ignore")
        scheme = build_scheme(ref)
        opt = Optimizer(scheme, verbose=False, raise_exception=True)
        struct = structure_of(opt)
        seen, order = {}, []
        orig = opt.objective_function

        def objective_function(x):
            b = np.array(x, dtype=float).tobytes()
            if b not in seen:
                seen[b] = len(seen)
            order.append(seen[b])
            return orig(x)

        opt.objective_function = objective_function
        try:
            with open(os.devnull, "w") as null, contextlib.redirect_stdout(null):
                opt.optimize()
                res = opt.create_result()
        except Exception as e:  # noqa: BLE001
            ck.count(f"optimize-vs-model:skipped:{type(e).__name__}")
            return
        if opt._optimization_result is None:
            ck.count("optimize-vs-model:skipped:least_squares-failed")
            return
        rb = np.array(opt._optimization_result.x, dtype=float).tobytes()
        if rb not in seen:
            ck.count("optimize-vs-model:skipped:result-not-a-trial-vector")
            return
        rid, init_id = seen[rb], len(seen)
        vecs = {i: np.frombuffer(b, dtype=float).tolist() for b, i in seen.items()}
        fresh = {init_id: Fresh(ref, None), rid: Fresh(ref, vecs[rid])}
        state = snapshot_state(opt)
    lines = [spec_line(struct), f"optimize {init_id} {lst(map(str, order))} {rid}"]
    ans = core.lean_driver(PROP, lines)[1]
    if ans in ("bad-op", "bad-line"):
        raise core.HarnessError(f"model rejected {lines[1][:200]}")
    head, _, tail = ans.partition(" | ")
    cells = dict(t.split("=", 1) for t in tail.split(" "))
    payload = {"kind": "optimize", "scheme": ref}
    ck.case(("optimize-vs-model", json.dumps(ref, sort_keys=True, default=str)), nontrivial=len(seen) > 1)
    ck.count("optimize-vs-model")
    h = head.split(" ")
    if h[0] != bool_(bool(res.success)):
        ck.disagree("optimize-success", f"success: implementation {res.success}, model {h[0]}", payload)
        return
    if h[2] != "value":
        ck.disagree("optimize-outcome", f"create_result returned, the model's final calculate_penalty: {h[2:]}", payload)
        return
    hist_m = core.parse_tree(cells["hist"])[0]
    if len(hist_m) != len(state["hist"]):
        ck.disagree("history-length", f"optimize(): parameter history has {len(state['hist'])} records, model {len(hist_m)} "
                    f"({len(order)} objective calls)", payload)
        return
    bad = []
    for loc, cell_txt in cells.items():
        cell_m = core.parse_tree(cell_txt)[0]
        cell_i = state.get(loc)
        if cell_i is None:
            bad.append(f"{loc}: container not found in the implementation")
            continue
        ok = _check_penalty_cell(loc, cell_m, cell_i, fresh, struct) if loc.startswith("pen:") else _check_cell(loc, cell_m, cell_i, fresh)
        ck.count("containers-compared")
        if ok is not True:
            bad.append(f"{loc}: {ok}")
    if bad:
        ck.count("container-mismatch")
        ck.diagnostic(f"optimize {ref.get('name', 'spec')} {ref.get('method')}: " + "; ".join(bad[:4]), payload)


# ------------------------------------------------------------------------------------------
# outputs: copies and live references
# ------------------------------------------------------------------------------------------
def _obj_digest(obj):
    from glotaran.parameter import ParameterHistory, Parameters

    if isinstance(obj, Parameters):
        return _h([(p.label, float(p.value).hex(), repr(p.standard_error)) for p in obj.all()])
    if isinstance(obj, ParameterHistory):
        return _h(obj.number_of_records, np.asarray(obj.to_dataframe().values, dtype=float))
    if isinstance(obj, (list, tuple)):
        return _h(repr([float(v).hex() for v in obj]))
    return _h(np.array(obj, dtype=float))


def _shares(a, arrays):
    a = np.asarray(a)
    return any(isinstance(b, np.ndarray) and b.size and a.size and np.shares_memory(a, b) for b in arrays)


def outputs_vs_model(ck, ref):
    """which objects handed out by an Optimizer are live references into its containers (at hand-out) and still are after
    later evaluations (aliased): implementation (object identity / shared memory) vs the model's `provenance` / `aliased`;
    oracle: every output is compared bit for bit with its digest taken at hand-out after two more evaluations"""
    from glotaran.optimization.matrix_provider import MatrixProviderLinked
    from glotaran.optimization.optimizer import Optimizer

    with warnings.catch_warnings():
        warnings.simplefilter("ignore")
        scheme = build_scheme(ref)
        opt = Optimizer(scheme, verbose=False, raise_exception=True)
        struct = structure_of(opt)
        try:
            with open(os.devnull, "w") as null, contextlib.redirect_stdout(null):
                opt.optimize()
                res = opt.create_result()
        except Exception as e:  # noqa: BLE001
            ck.count(f"outputs-vs-model:skipped:{type(e).__name__}")
            return
        if opt._optimization_result is None:
            ck.count("outputs-vs-model:skipped:least_squares-failed")
            return

        def containers():
            """name of the output -> the object / arrays the corresponding container holds NOW"""
            c = {"optimized_parameters": opt._parameters, "parameter_history": opt._parameter_history,
                 "initial_parameters": scheme.parameters, "penalty": [], "jacobian": [], "covariance_matrix": []}
            for g, grp in enumerate(opt._optimization_groups):
                mp, ep = grp._matrix_provider, grp._estimation_provider
                c[f"additional_penalty:{g}"] = ep._clp_penalty
                flat = lambda box: [np.asarray(x) for v in (box.values() if isinstance(box, dict) else box)   # noqa: E731
                                    for x in (v if isinstance(v, list) else [v]) if x is not None]
                for d in grp._dataset_group.dataset_models:
                    e = enc(d)
                    c[f"matrix:{e}"] = [mp._matrix_containers[d].matrix]
                    if d in mp._global_matrix_containers:
                        c[f"global_matrix:{e}"] = [mp._global_matrix_containers[d].matrix]
                    c[f"clp:{e}"] = flat(ep._clps)
                    c[f"residual:{e}"] = flat(ep._residuals)
                    c["penalty"] += flat(ep._residuals)
            return c

        held = {"optimized_parameters": res.optimized_parameters, "parameter_history": res.parameter_history,
                "initial_parameters": res.initial_parameters, "jacobian": res.jacobian, "covariance_matrix": res.covariance_matrix}
        for g, ap in enumerate(res.additional_penalty):
            held[f"additional_penalty:{g}"] = ap
        for label, ds in res.data.items():
            for name in ("matrix", "global_matrix", "clp", "residual"):
                if name in ds:
                    held[f"{name}:{enc(label)}"] = ds[name].values

        def is_live(name, obj, cont):
            c = cont.get(name)
            if c is None:
                return False
            if isinstance(c, list) and not name.startswith("additional_penalty"):
                return _shares(obj, c)
            return obj is c

        live0 = {k: is_live(k, v, containers()) for k, v in held.items() if v is not None}
        # the penalty vector of one more evaluation at the result vector (this replaces the matrices the result wraps)
        held["penalty"] = opt.calculate_penalty()
        live0["penalty"] = is_live("penalty", held["penalty"], containers())
        at_handout = {k: _obj_digest(v) for k, v in held.items() if v is not None}
        labels, x0, lo, hi = free_vector(scheme)
        xr_ = np.array(opt._optimization_result.x, dtype=float)
        for v in (np.minimum(np.maximum(xr_ * 1.03 + 0.004, lo), hi), x0):
            try:
                opt.objective_function(v)
            except Exception:  # noqa: BLE001
                ck.count("outputs-vs-model:later-evaluation-raised")
        after = containers()
        live1 = {k: live0[k] and is_live(k, v, after) for k, v in held.items() if v is not None}
        changed = {k: _obj_digest(v) != at_handout[k] for k, v in held.items() if v is not None}
    ans = core.lean_driver(PROP, [spec_line(struct), "outputs"])[1]
    model = dict(t.split("=", 1) for t in ans.split(" "))
    payload = {"kind": "outputs", "scheme": ref}
    ck.case(("outputs-vs-model", json.dumps(ref, sort_keys=True, default=str)), nontrivial=True)
    for k in held:
        if held[k] is None:
            continue
        if k not in model:
            ck.disagree("output-unknown-to-model", f"output {k} is not an output of the model", payload)
            continue
        m_live, m_alias = model[k][0] == "T", model[k][1] == "T"
        ck.count(f"output:{k.split(':')[0]}:live={int(live0[k])}:aliased={int(live1[k])}:changed={int(changed[k])}")
        ck.oracle_evals += 1
        # model `aliased` = live reference to an object that evaluations update in place: then the object handed out must still
        # be the container's object after the later evaluations, and only then may it have changed
        if m_live != live0[k] and not m_alias and not live1[k] and not changed[k]:
            # copy or view of an object that is replaced anyway: internal, no observable consequence
            ck.diagnostic(f"output {k}: live reference at hand-out: implementation {live0[k]}, model {m_live} (not aliased)", payload)
        elif m_live != live0[k] or (m_alias and not live1[k]) or (changed[k] and not m_alias):
            ck.disagree("output-provenance", f"output {k}: implementation live reference at hand-out={live0[k]}, still the "
                        f"container's object after later evaluations={live1[k]}, changed={changed[k]}; model live={m_live}, "
                        f"aliased={m_alias}", payload)
        if changed[k] and k == "penalty":
            ck.violation("held-penalty-overwritten", "the penalty vector handed out by calculate_penalty() changed when the "
                         "objective was evaluated at other vectors", payload)
        elif changed[k] and not live1[k]:
            ck.disagree("output-changed-without-alias", f"output {k} changed after later evaluations although it shares "
                        "nothing with the container", payload)
        elif changed[k]:
            # a live Result field of an Optimizer that is evaluated again: outside the property text (optimize() never does
            # that) — recorded in the evidence, Lean: outputs_not_aliased_counterexample
            ck.extra.setdefault("live_result_fields_changed", {})
            ck.extra["live_result_fields_changed"][k.split(":")[0]] = ck.extra["live_result_fields_changed"].get(k.split(":")[0], 0) + 1


# ------------------------------------------------------------------------------------------
# subprocesses: thread counts, fresh processes
# ------------------------------------------------------------------------------------------
def child_env(threads, hashseed=None):
    env = dict(os.environ)
    env["NUMBA_NUM_THREADS"] = str(threads)
    # "whether or not the process is fresh": every child is a fresh interpreter with its own string-hash seed, so anything
    # whose order comes out of a set / dict of strings keyed by hash differs between the children (seeded change C10-r2-1:
    # the dataset groups were collected in a set, so the order of the groups in the penalty vector followed PYTHONHASHSEED)
    child_env.counter = getattr(child_env, "counter", 0) + 1
    env["PYTHONHASHSEED"] = str(hashseed if hashseed is not None else (int(threads) * 7919 + child_env.counter * 104729) % 4294967295)
    env["PYTHONPATH"] = os.pathsep.join([str(core.REPO), str(core.VERIF), str(core.VERIF / "pydeps")])
    env["PYTHONDONTWRITEBYTECODE"] = "1"
    return env


def start_child(threads, names, repeat, optimize_names, hashseed=None):
    req = json.dumps({"names": names, "repeat": repeat, "optimize": optimize_names})
    return subprocess.Popen(["/venv/bin/python", "-m", "harness.props._c10_child"], cwd=str(core.VERIF),
                            env=child_env(threads, hashseed), stdin=subprocess.PIPE, stdout=subprocess.PIPE, stderr=subprocess.PIPE,
                            text=True), req


def collect_children(ck, procs, timeout):
    """procs: list of (threads, Popen, request); returns {threads: parsed json}"""
    out = {}
    for threads, (p, req) in procs:
        try:
            so, se = p.communicate(req, timeout=timeout)
        except subprocess.TimeoutExpired:
            p.kill()
            raise core.HarnessError(f"child process with NUMBA_NUM_THREADS={threads} timed out")
        if p.returncode != 0:
            raise core.HarnessError(f"child process with NUMBA_NUM_THREADS={threads} failed: {se[-600:]}")
        out[threads] = json.loads(so.strip().splitlines()[-1])
    return out


def compare_children(ck, results, names):
    """all thread counts / processes give bit-identical penalties and optimisation results"""
    keys = sorted(results)
    base = results[keys[0]]
    clean = True
    for t in keys:
        r = results[t]
        ck.extra.setdefault("numba_threads_seen", {})[str(t)] = r.get("numba_threads")
        for name in r["penalties"]:
            ck.case(("threads", name, t), nontrivial=True)
            ck.oracle_evals += 1
            reps = r["penalties"][name]
            if any(x != reps[0] for x in reps):
                ck.violation("repeat-differs-in-process", f"scheme {name}, NUMBA_NUM_THREADS={t}: repeated evaluation at the "
                             "same vectors in one process gives different penalty vectors",
                             {"kind": "threads", "name": name, "threads": [t], "repeat": len(reps)})
                clean = False
            elif reps[0] != base["penalties"][name][0]:
                ck.violation("thread-count-changes-penalty", f"scheme {name}: penalty vectors with NUMBA_NUM_THREADS={t} differ "
                             f"from those with NUMBA_NUM_THREADS={keys[0]}",
                             {"kind": "threads", "name": name, "threads": [keys[0], t], "repeat": len(reps)})
                clean = False
        for name, fp in r.get("optimize", {}).items():
            if fp != base["optimize"].get(name):
                ck.violation("thread-count-changes-result", f"scheme {name}: optimize() with NUMBA_NUM_THREADS={t} differs from "
                             f"NUMBA_NUM_THREADS={keys[0]}", {"kind": "threads", "name": name, "threads": [keys[0], t], "repeat": 1,
                                                              "optimize": True})
                clean = False
    return clean


def in_process_penalties(names):
    from harness.props import _c10_child as child

    return {n: child.penalties_of(n) for n in names}


# ------------------------------------------------------------------------------------------
# history length / process state: long walks on scaled schemes, fresh-process references
# ------------------------------------------------------------------------------------------
def start_history_children(ck):
    """one FRESH process (no evaluation before) that evaluates and optimises the schemes of the history stream"""
    names = list(builtin.HISTORY_NAMES)
    return names, start_child(1, names, 1, names)


def run_history_case(ck, case, fresh_process=None):
    """case = {"kind": "history", "name": builtin scheme, "n": number of evaluations of the random walk, "seed": seed of the
    walk, "rel": relative step}.  Oracle only (the model's walks quantify over the same histories; here their LENGTH is the
    input: hundreds of evaluations, so state that survives an evaluation and is multiplied / accumulated once per evaluation
    leaves the double range): the penalty vector and the result datasets at the initial vector after the walk are bit-equal
    to those of the first evaluation of this optimiser, of a new optimiser of this (no longer fresh) process and of a FRESH
    process (`fresh_process` = (penalty digest, optimize digest) of a child started before anything was evaluated);
    optimize() of the scheme after the walk is bit-equal to that of the fresh process"""
    import random

    from harness.props import _c10_child as child

    name, n, rel = case["name"], int(case["n"]), float(case.get("rel", 0.05))
    ref = {"kind": "builtin", "name": name}
    wrng = random.Random(int(case["seed"]))
    clean = True
    with warnings.catch_warnings():
        warnings.simplefilter("ignore")
        scheme = build_scheme(ref)
        before = scheme_snapshot(scheme)
        opt = make_optimizer(scheme)
        labels, x0, lo, hi = free_vector(scheme)
        INJ.reset(None)

        def evaluate(o, x):
            try:
                return np.array(o.objective_function(np.array(x, dtype=float)), dtype=float)
            except Exception as e:  # noqa: BLE001
                return f"{type(e).__name__}: {e}"[:160]

        def same(a, b):
            return isinstance(a, np.ndarray) and isinstance(b, np.ndarray) and a.shape == b.shape and a.tobytes() == b.tobytes()

        def describe(a, b):
            if isinstance(a, str) or isinstance(b, str):
                return f"{a if isinstance(a, str) else 'a penalty vector'} vs {b if isinstance(b, str) else 'a penalty vector'}"
            return _describe_penalty_diff(a, b) + (f"; cost {0.5 * float(a @ a):.6e} vs {0.5 * float(b @ b):.6e}" if a.shape == b.shape else "")

        first = evaluate(opt, x0)
        first_result = None
        if isinstance(first, np.ndarray):
            try:
                first_result = result_digest(opt)
            except Exception:  # noqa: BLE001 — result creation broken even at the first evaluation: not C10
                first_result = None
        raised = 0
        for _ in range(n):
            x = x0 * (1.0 + rel * np.array([wrng.gauss(0.0, 1.0) for _ in x0])) + np.array([wrng.choice([0.0, 0.0, 0.004]) for _ in x0])
            if isinstance(evaluate(opt, np.minimum(np.maximum(x, lo), hi)), str):
                raised += 1
        ck.count(f"history:evaluations:{'<100' if n < 100 else '100-299' if n < 300 else '>=300'}")
        if raised:
            ck.count("history:evaluation-raised", raised)
        late = evaluate(opt, x0)
        ck.oracle_evals += 1
        if not same(first, late):
            ck.violation("penalty-drifts-with-history-length", f"scheme {name}: the penalty at the initial vector after a walk of {n} "
                         f"evaluations differs from the first evaluation of the same optimiser: {describe(late, first)}", case)
            clean = False
        if clean and first_result is not None:
            try:
                late_result = result_digest(opt)
            except Exception as e:  # noqa: BLE001
                late_result = {"error": f"{type(e).__name__}: {e}"[:160]}
            if late_result != first_result:
                bad = sorted(k for k in set(first_result) | set(late_result) if late_result.get(k) != first_result.get(k))
                ck.violation("result-data-drifts-with-history-length", f"scheme {name}: the result datasets at the initial vector after "
                             f"a walk of {n} evaluations differ from those after the first evaluation: {bad[:8]}", case)
                clean = False
        if clean:
            # "whether or not the process is fresh": a NEW optimiser of this process, which has made n+2 evaluations
            opt2 = make_optimizer(build_scheme(ref))
            new = evaluate(opt2, x0)
            ck.oracle_evals += 1
            if not same(first, new):
                ck.violation("new-optimizer-inherits-process-state", f"scheme {name}: the first evaluation of a new optimiser, built "
                             f"after {n + 2} evaluations of another optimiser of this process, differs from that optimiser's first "
                             f"evaluation at the same vector: {describe(new, first)}", case)
                clean = False
            elif first_result is not None:
                try:
                    new_result = result_digest(opt2)
                except Exception as e:  # noqa: BLE001
                    new_result = {"error": f"{type(e).__name__}: {e}"[:160]}
                if new_result != first_result:
                    bad = sorted(k for k in set(first_result) | set(new_result) if new_result.get(k) != first_result.get(k))
                    ck.violation("new-optimizer-inherits-process-state", f"scheme {name}: the result datasets of a new optimiser, built "
                                 f"after {n + 2} evaluations of another optimiser of this process, differ from that optimiser's after "
                                 f"its first evaluation: {bad[:8]}", case)
                    clean = False
        diff = snapshot_diff(before, scheme_snapshot(scheme))
        if diff:
            ck.violation("scheme-mutated-by-evaluations:history", f"a walk of {n} evaluations changed the caller's scheme: {diff}", case)
            clean = False
        if clean and fresh_process is not None:
            pen_fresh, opt_fresh = fresh_process
            try:
                pen_here = child.penalties_of(name)
            except Exception as e:  # noqa: BLE001
                pen_here = f"{type(e).__name__}: {e}"[:160]
            ck.oracle_evals += 1
            if pen_fresh is not None and pen_here != pen_fresh:
                ck.violation("penalty-differs-from-fresh-process", f"scheme {name}: after {n + 3} evaluations in this process the penalty "
                             "vectors of a new optimiser differ from those a fresh process computes at the same vectors "
                             f"({pen_here} vs {pen_fresh})", case)
                clean = False
            if clean and opt_fresh is not None:
                try:
                    opt_here = child.optimize_of(name)
                except Exception as e:  # noqa: BLE001
                    opt_here = f"{type(e).__name__}: {e}"[:160]
                ck.oracle_evals += 1
                if opt_here != opt_fresh:
                    ck.violation("optimize-differs-from-fresh-process", f"scheme {name}: optimize() after {n + 7} evaluations in this "
                                 "process differs from optimize() of the same scheme in a fresh process", case)
                    clean = False
    ck.case(("history", json.dumps(case, sort_keys=True)), nontrivial=isinstance(late, np.ndarray) and n > 0)
    return clean


def history_stream(ck, child_proc=None):
    """history length / process state stream (see RULE): for every scheme of `builtin.HISTORY_NAMES` a random walk whose
    length is drawn from the scheme's range, then optimize() twice (+ a freshly built scheme) on the used process"""
    fresh = {}
    if child_proc is not None:
        names, proc = child_proc
        got = collect_children(ck, [("history-fresh", proc)], timeout=600)["history-fresh"]
        fresh = {nme: (got["penalties"][nme][0], got["optimize"].get(nme)) for nme in names}
    for name, (lo_n, hi_n) in builtin.HISTORY_NAMES.items():
        case = {"kind": "history", "name": name, "n": ck.rng.randint(lo_n, hi_n), "seed": ck.rng.randrange(2 ** 31),
                "rel": ck.rng.choice([0.02, 0.05, 0.08])}
        ok = run_history_case(ck, case, fresh_process=fresh.get(name))
        ck.count("history-walk")
        if ok and name not in builtin.BOUNDED:
            run_optimize_case(ck, {"kind": "optimize", "scheme": {"kind": "builtin", "name": name, "max_nfev": 3,
                                                                  "method": ck.rng.choice(METHODS)}})
        if ck.violations:
            return


# ------------------------------------------------------------------------------------------
# corpus / witnesses
# ------------------------------------------------------------------------------------------
def d23_witness(ck):
    """the witness of Lean `objective_history_independent_counterexample` on the real Parameters / Optimizer"""
    case = {"kind": "walk", "scheme": {"kind": "builtin", "name": "expr-forward"},
            "vectors": None, "ops": [{"op": "eval", "id": 1, "fault": None}, {"op": "eval", "id": 2, "fault": None}]}
    scheme = build_scheme(case["scheme"])
    labels, x0, lo, hi = free_vector(scheme)
    bad, good = x0.copy(), x0.copy()
    bad[labels.index("aux.c")] = 1.0
    good[labels.index("aux.c")] = 2.0
    case["vectors"] = [x0.tolist(), bad.tolist(), good.tolist()]
    run_walk(ck, case, use_model=False)
    ck.count("witness:d23")


# ------------------------------------------------------------------------------------------
# run / search / replay
# ------------------------------------------------------------------------------------------
def spec_refs(ck, n):
    refs = []
    forced = [{"full_model": True, "link_clp": False}, {"n_groups": 2}, {"link_clp": False, "n_datasets": 3},
              {"link_clp": True, "n_datasets": 3}, {"full_model": True, "link_clp": False, "n_datasets": 2}]
    for k in range(n):
        force = forced[k % len(forced)] if k < max(len(forced), n // 4) else None
        spec = gen_scheme.rand_spec(ck.rng, force=force)
        refs.append({"kind": "spec", "spec": spec})
    return refs


def make_walk_case(ck, ref, n_ops=None):
    with warnings.catch_warnings():
        warnings.simplefilter("ignore")
        try:
            scheme = build_scheme(ref)
            opt = make_optimizer(scheme)
        except Exception as e:  # noqa: BLE001
            ck.count(f"construct-error:{type(e).__name__}")
            return None
    struct = structure_of(opt)
    mcalls, rcalls = calls_per_evaluation(struct)
    pool = vector_pool(ck.rng, ref, scheme, ck.rng.randint(3, 5))
    ops = random_ops(ck.rng, n_ops or ck.rng.randint(6, 13), len(pool), mcalls, rcalls)
    if getattr(vector_pool, "fd_pair", None):
        # the Jacobian pattern: a vector, then its finite-difference neighbour, then the vector again
        a, b = vector_pool.fd_pair
        ops += [{"op": "eval", "id": a, "fault": None}, {"op": "eval", "id": b, "fault": None}, {"op": "eval", "id": a, "fault": None}]
    for g in struct["groups"]:
        ck.count("group:" + ("linked" if g["linked"] else "unlinked"))
        for d in g["datasets"]:
            if d["nGmc"]:
                ck.count("dataset:full-model")
            if d["weighted"]:
                ck.count("dataset:weighted")
    return {"kind": "walk", "scheme": ref, "vectors": pool, "ops": ops}


def fault_positions(struct):
    m, r = calls_per_evaluation(struct)
    return [["m", n] for n in range(1, m + 1)] + [["r", n] for n in range(1, r + 1)]


def fault_sweep(ck, ref, batch):
    """every call position of one evaluation is interrupted once: [eval v1 with the fault, eval v0, eval v1]"""
    with warnings.catch_warnings():
        warnings.simplefilter("ignore")
        try:
            scheme = build_scheme(ref)
            opt = make_optimizer(scheme)
        except Exception:  # noqa: BLE001
            return
    struct = structure_of(opt)
    pool = vector_pool(ck.rng, ref, scheme, 2)[:2]
    if len(pool) < 2:
        return
    for f in fault_positions(struct):
        case = {"kind": "walk", "scheme": ref, "vectors": pool,
                "ops": [{"op": "eval", "id": 1, "fault": f}, {"op": "eval", "id": 0, "fault": None},
                        {"op": "eval", "id": 1, "fault": None}]}
        run_walk(ck, case, collect=batch)
        ck.count("fault-position-swept")


def exhaustive_pairs(ck, ref, batch):
    """thorough: every history of two operations over two vectors and every fault position (incl. none), followed by
    a clean evaluation of each vector"""
    with warnings.catch_warnings():
        warnings.simplefilter("ignore")
        scheme = build_scheme(ref)
        opt = make_optimizer(scheme)
    struct = structure_of(opt)
    pool = vector_pool(ck.rng, ref, scheme, 2)[:2]
    faults = [None] + fault_positions(struct)
    ops = [{"op": "eval", "id": i, "fault": f} for i in (0, 1) for f in faults] + [{"op": "pen", "fault": f} for f in faults]
    n = 0
    for a in ops:
        for b in ops:
            case = {"kind": "walk", "scheme": ref, "vectors": pool,
                    "ops": [a, b, {"op": "eval", "id": 0, "fault": None}, {"op": "eval", "id": 1, "fault": None}]}
            run_walk(ck, case, collect=batch)
            n += 1
    ck.extra.setdefault("exhaustive_pairs", {})[ref["name"]] = {"operations": len(ops), "histories": n}


# ------------------------------------------------------------------------------------------
# walks over NON-FINITE vectors (oracle only): exp overflow of a log-space entry, NaN / +-inf entries
# ------------------------------------------------------------------------------------------
NF_FRESH_CACHE: dict = {}


def _nf_dec(vec):
    """vectors of these cases are JSON-able: finite entries are floats, the others the strings 'nan' / 'inf' / '-inf'"""
    return np.array([float(v) for v in vec], dtype=float)


def _nf_enc(vec):
    return [float(v) if np.isfinite(v) else str(float(v)) for v in vec]


def _nf_optimizer(case):
    """a fresh scheme + Optimizer; the caller declared the parameters `log_space` non-negative before Optimizer(scheme)"""
    scheme = build_scheme(case["scheme"])
    for label in case.get("log_space") or []:
        scheme.parameters.get(label).non_negative = True
    return scheme, make_optimizer(scheme)


def _nf_outcome(opt, x):
    """('value', penalty) or ('raised', exception type name) of ONE objective evaluation"""
    INJ.reset(None)
    try:
        return "value", np.array(opt.objective_function(np.array(x, dtype=float)), dtype=float)
    except Exception as e:  # noqa: BLE001 — the kind of the outcome is what is compared
        import traceback

        names = [fr.name for fr in traceback.extract_tb(e.__traceback__)]
        return "raised", type(e).__name__, "update_parameter_expression" in names


def _nf_fresh(ck, case, x):
    """outcome of the evaluation at x on an optimiser that has seen no other vector (built once per scheme and vector)"""
    key = (json.dumps([case["scheme"], case.get("log_space")], sort_keys=True, default=str), tuple(float(v).hex() for v in x))
    if key not in NF_FRESH_CACHE:
        if len(NF_FRESH_CACHE) > 400:
            NF_FRESH_CACHE.clear()
        NF_FRESH_CACHE[key] = _nf_outcome(_nf_optimizer(case)[1], x)
        ck.oracle_evals += 1
    return NF_FRESH_CACHE[key]


def _nf_same(a, b):
    if a[0] != b[0]:
        return False
    if a[0] == "raised":
        return a[1] == b[1]
    return a[1].shape == b[1].shape and np.array_equal(a[1], b[1], equal_nan=True)


def _nf_describe(o):
    if o[0] == "raised":
        return f"raises {o[1]}"
    if not np.all(np.isfinite(o[1])):
        return f"returns a penalty of length {o[1].size} with {int(np.sum(~np.isfinite(o[1])))} non-finite entries"
    return f"returns a penalty of length {o[1].size} with cost {0.5 * float(np.sum(o[1] ** 2))!r}"


def _nf_class(labels, log_space, x):
    """class of a vector: which kind of non-finite entry it has after undoing the log transformation"""
    kinds = set()
    for label, v in zip(labels, x):
        if np.isnan(v):
            kinds.add("nan")
        elif label in log_space and v > 709.782712893384:
            kinds.add("exp-overflow")
        elif np.isinf(v) and not (label in log_space and v < 0):
            kinds.add("inf")
        elif label in log_space and v < -745.2:
            kinds.add("exp-underflow")
    return "+".join(sorted(kinds)) or "finite"


def make_nonfinite_case(ck, ref):
    """(scheme, parameters the caller declares non-negative, pool of finite vectors + vectors with a non-finite entry, walk)"""
    rng = ck.rng
    with warnings.catch_warnings():
        warnings.simplefilter("ignore")
        try:
            scheme = build_scheme(ref)
            labels, x0, lo, hi = free_vector(scheme)
            log_space = []
            already = [lb for lb in labels if scheme.parameters.get(lb).non_negative]
            cand = [lb for lb, v, a in zip(labels, x0, lo) if lb not in already and v > 0 and (a == -np.inf or a > 0)]
            if cand and (not already or rng.random() < 0.5):
                log_space = [rng.choice(cand)]
            case = {"kind": "nonfinite-walk", "scheme": ref, "log_space": log_space}
            scheme, opt = _nf_optimizer(case)
        except Exception as e:  # noqa: BLE001
            ck.count(f"construct-error:{type(e).__name__}")
            return None
    labels, x0, lo, hi = free_vector(scheme)
    if not len(x0):
        return None
    logs = set(already) | set(log_space)
    finite = [np.array(v, dtype=float) for v in vector_pool(rng, ref, scheme, 3)[:3]]
    # finite vectors that differ from the initial one in EVERY entry (so a kept-back entry is never the initial value)
    moved = x0 * (1.0 + rng.choice([0.02, 0.05, -0.04])) + np.where(x0 == 0, 0.003, 0.0)
    finite.append(np.minimum(np.maximum(moved, lo), hi))
    with warnings.catch_warnings(), np.errstate(all="ignore"):
        warnings.simplefilter("ignore")
        # finite vectors at which the evaluation raises (expr-forward: 1/$aux.b) are the business of the ordinary walks (D26)
        finite = [v for n, v in enumerate(finite) if n == 0 or _nf_fresh(ck, case, v)[0] == "value"]
    if len(finite) < 2:
        return None
    pool, nf_ids = [v.copy() for v in finite], []
    for _ in range(rng.randint(1, 3)):
        v = finite[rng.randrange(len(finite))].copy()
        for i in rng.sample(range(len(v)), 1 if rng.random() < 0.75 else min(2, len(v))):
            if labels[i] in logs and rng.random() < 0.7:
                # a far too long step in log space: exp overflows (or underflows to exactly zero)
                v[i] = rng.choice([rng.uniform(709.8, 720.0), rng.uniform(720.0, 5000.0), 800.0, -rng.uniform(746.0, 2000.0)])
            else:
                v[i] = rng.choice([np.nan, np.nan, np.inf, -np.inf])
        nf_ids.append(len(pool))
        pool.append(v)
    fin_ids = list(range(len(finite)))
    seq = [rng.randrange(len(pool)) for _ in range(rng.randint(3, 6))]
    for n in nf_ids:
        # every non-finite vector is evaluated after two DIFFERENT finite ones (two histories), then a finite one follows
        a, b = rng.sample(fin_ids, 2)
        seq += [a, n, b, n, rng.choice(fin_ids)]
    seq.append(0)
    case.update({"vectors": [_nf_enc(v) for v in pool], "seq": seq})
    return case


def run_nonfinite_walk(ck, case):
    """ORACLE ONLY (the Lean model has no non-finite values): the outcome of every evaluation of the walk — the penalty
    vector, or the type of the exception it ends with — is the outcome on a fresh optimiser of the same scheme at that vector"""
    pool = [_nf_dec(v) for v in case["vectors"]]
    clean = True
    with warnings.catch_warnings(), np.errstate(all="ignore"):
        warnings.simplefilter("ignore")
        try:
            scheme, opt = _nf_optimizer(case)
            before = scheme_snapshot(scheme, ignore_svd=bool(scheme.add_svd))
        except Exception as e:  # noqa: BLE001
            ck.count(f"construct-error:{type(e).__name__}")
            return True
        labels = list(opt._free_parameter_labels)
        logs = {lb for lb in labels if scheme.parameters.get(lb).non_negative}
        classes = [_nf_class(labels, logs, x) for x in pool]

        seen_nonfinite = None
        for k, i in enumerate(case["seq"]):
            walked = _nf_outcome(opt, pool[i])
            fresh = _nf_fresh(ck, case, pool[i])
            ck.count(f"nonfinite-walk:{classes[i]}:{walked[0] if walked[0] == 'value' else walked[1]}")
            if classes[i] != "finite":
                seen_nonfinite = classes[i]
            if not _nf_same(walked, fresh):
                where = classes[i] if classes[i] != "finite" else f"finite-after-{seen_nonfinite}"
                key = f"outcome-depends-on-history:{where}"
                if walked[0] == "raised" and walked[2] and fresh[0] == "value":
                    key = "stale-expression-raise"      # D26: the expression refresh raises on values left by an earlier vector
                ck.violation(key,
                             f"evaluation {k + 1} of the walk, at vector {i} = {case['vectors'][i]} (free parameters {labels}, "
                             f"log-space {sorted(logs)}; class {classes[i]}): after the walk it {_nf_describe(walked)}, on a fresh "
                             f"optimiser of the same scheme it {_nf_describe(fresh)}",
                             {**case, "seq": case["seq"][: k + 1]})
                clean = False
                break
        diff = snapshot_diff(before, scheme_snapshot(scheme, ignore_svd=bool(scheme.add_svd)))
        if diff:
            ck.violation("scheme-mutated-by-nonfinite-evaluations",
                         f"evaluations at non-finite vectors changed the caller's scheme: {diff}", dict(case))
            clean = False
    ck.case(("nonfinite-walk", json.dumps(case, sort_keys=True, default=str)),
            nontrivial=any(c != "finite" for c in classes) and len(case["seq"]) > 1)
    return clean


def nonfinite_stream(ck, n_spec, stop_at_first=False):
    """every builtin scheme (expr-nonneg twice: it has non-negative parameters of its own) + a few random specs"""
    refs = [{"kind": "builtin", "name": n} for n in builtin.NAMES] + [{"kind": "builtin", "name": "expr-nonneg"}]
    refs += spec_refs(ck, n_spec)
    t0 = time.time()
    for ref in refs:
        case = make_nonfinite_case(ck, ref)
        if case is None:
            continue
        run_nonfinite_walk(ck, case)
        if stop_at_first and ck.violations:
            break
    ck.extra["nonfinite_s"] = round(ck.extra.get("nonfinite_s", 0) + time.time() - t0, 1)


def run(ck):
    t0 = time.time()
    # subprocesses run while the in-process work is done
    thread_names = ["par-noirf", "disp-irf", "artifact-osc", "multi-irf-indep", "two-groups-nnls"] if ck.quick else list(builtin.NAMES)
    thread_counts = [1, 16] if ck.quick else [1, 2, 16, 16]
    procs = []
    for i, t in enumerate(thread_counts):
        tag = str(t) if i == thread_counts.index(t) else f"{t}#{i}"
        procs.append((tag, start_child(t, thread_names, 2 if ck.quick else 3, ["disp-irf"] if ck.quick else thread_names)))
    # light children: only the scheme with two dataset groups, one evaluation, each under another string-hash seed
    for h in (range(4) if ck.quick else range(8)):
        procs.append((f"1#hash{h}", start_child(1, ["two-groups-nnls"], 1, [], hashseed=h)))
    history_child = start_history_children(ck)

    # corpus first
    for c in core.load_corpus(PROP):
        replay(ck, c, from_corpus=True)
        ck.count("corpus")
    d23_witness(ck)

    # walks
    batch = []
    refs = [{"kind": "builtin", "name": n} for n in builtin.NAMES]
    refs += spec_refs(ck, ck.n(14, 80))
    if not ck.quick:
        refs += [{"kind": "builtin", "name": n} for n in builtin.NAMES for _ in range(3)]
    sampled = 0
    for ref in refs:
        case = make_walk_case(ck, ref)
        if case is None:
            continue
        run_walk(ck, case, collect=batch)
        if sampled < 3 and ref["kind"] == "builtin":
            ck.sample({"kind": "walk", "scheme": ref, "vectors": case["vectors"][:2], "ops": case["ops"][:5]})
            sampled += 1
    # every fault position once
    sweep_names = ["unlinked-two-pen", "linked-two"] + ck.rng.sample(
        [n for n in builtin.NAMES if n not in ("unlinked-two-pen", "linked-two")], 2 if ck.quick else len(builtin.NAMES) - 2)
    for name in sweep_names:
        fault_sweep(ck, {"kind": "builtin", "name": name}, batch)
    for ref in (refs[len(builtin.NAMES):len(builtin.NAMES) + (3 if ck.quick else 15)]):
        fault_sweep(ck, ref, batch)
    if not ck.quick:
        for name in ("unlinked-two-pen", "two-groups-nnls", "full-model"):
            exhaustive_pairs(ck, {"kind": "builtin", "name": name}, batch)
    compare_with_model(ck, batch)
    # walks that contain vectors with a non-finite entry (oracle only)
    nonfinite_stream(ck, ck.n(6, 30))
    ck.extra["walk_s"] = round(time.time() - t0, 1)
    ck.extra["walks"] = len(batch)

    # kernels: the model's verdict for the regenerated table, and every kernel is exercised by the schemes
    ans = core.lean_driver(PROP, ["kernels"])[0]
    table = core.parse_tree(ans)[0]
    ck.extra["kernel_verdicts"] = {core.dec(k[0]): {"parallel": k[1], "has_parallel_loop": k[2], "race_free": k[3]} for k in table}
    for k in table:
        if k[3] != "T":
            ck.disagree("kernel-not-race-free", f"the model's check rejects kernel {core.dec(k[0])}", {"kind": "kernel", "name": core.dec(k[0])})

    # cross-check of the source extractor: every numba dispatcher that exists at run time (whatever syntax created it) is
    # in the table under its attribute name with the same `parallel` flag
    in_table = {(k["name"], bool(k["parallel"])) for k in getattr(ck, "_kernels", [])}
    live = kernels_mod.live_dispatchers()
    ck.extra["live_dispatchers"] = [list(x) for x in live]
    for mod, attr, pyname, par in live:
        if (attr, par) not in in_table:
            ck.disagree("kernel-table-incomplete", f"numba dispatcher {mod}.{attr} (python function {pyname}, parallel={par}) is "
                        "not in the regenerated Kernels table with that flag: the race-freedom theorem does not cover it",
                        {"kind": "kernel", "name": attr})

    # optimize(): snapshots, twice equal
    combos = []
    for name in builtin.NAMES:
        for m in METHODS:
            if m == "Levenberg-Marquardt" and name in builtin.BOUNDED:
                continue
            combos.append({"kind": "builtin", "name": name, "method": m, "max_nfev": 3})
    combos.append({"kind": "builtin", "name": "unlinked-two-pen", "method": "TrustRegionReflection", "max_nfev": 3, "add_svd": True})
    combos.append({"kind": "builtin", "name": "full-model", "method": "Dogbox", "max_nfev": 3, "add_svd": True})
    combos.append({"kind": "builtin", "name": "expr-nonneg", "method": "TrustRegionReflection", "max_nfev": 3,
                   "stale": {"fix.1": 0.3}})
    if ck.quick:
        must = [c for c in combos if c.get("add_svd") or c.get("stale")]
        rest = [c for c in combos if not (c.get("add_svd") or c.get("stale"))]
        ck.rng.shuffle(rest)
        per_method = {m: [c for c in rest if c["method"] == m][:3] for m in METHODS}
        combos = must + [c for m in METHODS for c in per_method[m]]
    else:
        combos += [{"kind": "spec", "spec": r["spec"], "method": ck.rng.choice(METHODS[:2]), "max_nfev": 3} for r in spec_refs(ck, 20)]
    for n, ref in enumerate(combos):
        run_optimize_case(ck, {"kind": "optimize", "scheme": ref}, fresh_run=(not ck.quick) or n % 3 == 0)
        if (not ck.quick or n % 3 == 1) and not ref.get("stale"):
            optimize_vs_model(ck, ref)
        if (not ck.quick or n % 3 == 2 or ref.get("add_svd")) and not ref.get("stale"):
            outputs_vs_model(ck, ref)
    ck.extra["optimize_s"] = round(time.time() - t0, 1)

    # history length / process state (late: the process has made thousands of evaluations by now)
    history_stream(ck, history_child)
    ck.extra["history_s"] = round(time.time() - t0, 1)

    # threads
    results = collect_children(ck, procs, timeout=900 if ck.quick else 3000)
    results["in-process"] = {"penalties": {n: [v] for n, v in in_process_penalties(thread_names).items()}, "optimize": {},
                             "numba_threads": "in-process"}
    # optimisation fingerprints are compared between the children only
    results["in-process"]["optimize"] = results[str(thread_counts[0])]["optimize"]
    compare_children(ck, results, thread_names)
    ck.extra["total_s"] = round(time.time() - t0, 1)


def search(ck):
    """widened oracle-only sweep (no model): more walks, longer, all optimize combinations, thread stress"""
    n = 40 if ck.quick else 150
    refs = [{"kind": "builtin", "name": nme} for nme in builtin.NAMES] * 2 + spec_refs(ck, n)
    for ref in refs:
        case = make_walk_case(ck, ref, n_ops=ck.rng.randint(10, 20))
        if case is not None:
            run_walk(ck, case, use_model=False)
        if ck.violations:
            return
    nonfinite_stream(ck, 10 if ck.quick else 40, stop_at_first=True)
    if ck.violations:
        return
    for name in builtin.NAMES:
        for m in METHODS:
            if m == "Levenberg-Marquardt" and name in builtin.BOUNDED:
                continue
            run_optimize_case(ck, {"kind": "optimize", "scheme": {"kind": "builtin", "name": name, "method": m, "max_nfev": 3}})
            if ck.violations:
                return
    history_stream(ck, start_history_children(ck))
    if ck.violations:
        return
    # thread stress: many repetitions of the kernels under 16 threads against 1 thread
    names = list(builtin.NAMES)
    procs = [(str(t), start_child(t, names, 6, [])) for t in (1, 16)]
    procs.append(("16#2", start_child(16, names, 6, [])))
    results = collect_children(ck, procs, timeout=3000)
    compare_children(ck, results, names)


def replay(ck, case, from_corpus=False):
    case = case.get("case", case)
    kind = case.get("kind")
    if kind == "walk":
        run_walk(ck, case, use_model=False)
    elif kind == "nonfinite-walk":
        run_nonfinite_walk(ck, case)
    elif kind == "optimize":
        run_optimize_case(ck, case)
    elif kind == "outputs":
        outputs_vs_model(ck, case["scheme"])
    elif kind == "history":
        names, (p, req) = start_history_children(ck)
        got = collect_children(ck, [("history-fresh", (p, req))], timeout=600)["history-fresh"]
        nme = case["name"]
        run_history_case(ck, case, fresh_process=(got["penalties"][nme][0], got["optimize"].get(nme)) if nme in names else None)
    elif kind == "threads":
        names = [case["name"]]
        ts = case.get("threads", [1, 16])
        procs = [(str(t), start_child(int(str(t).split("#")[0]), names, case.get("repeat", 3), names if case.get("optimize") else []))
                 for t in ts if str(t) != "in-process"]
        compare_children(ck, collect_children(ck, procs, timeout=1800), names)
    elif kind == "kernel":
        # a kernel the race-freedom check rejects: stress it
        names = list(builtin.NAMES)
        procs = [(str(t), start_child(t, names, 6, [])) for t in (1, 16)]
        compare_children(ck, collect_children(ck, procs, timeout=3000), names)
    else:
        raise core.HarnessError(f"unknown replay kind {kind}")
