"""C19 — function-level translator: Python `ast` -> Lean `do` blocks (lean/GlotaranModel/Generated/C19Fns.lean).

The functions of glotaran/plugin_system/base_registry.py that work on the registry dict (and
io_plugin_utils.infer_file_format) are transcribed statement by statement into Lean definitions in the state/exception
monad `Py.M` of lean/GlotaranModel/C19Py.lean (state = the one dict `plugin_registry`, the warnings issued, the counter that
names instantiated plugin objects).  What a Python construct means is fixed by hand in C19Py.lean; this module only maps
syntax:

  statements   if / else, raise Cls(message), return, assignment to a local or a parameter (`let mut` / `:=`), tuple
               assignment from os.path.splitext, `plugin_registry[k] = v`, `for x in <list of str>`, expression statements
               (`warn(Cls(k=v, …))`, calls of translated functions), the narrowing idiom `if isinstance(x, str): x = [x]`
  expressions  str / bool constants, names, f-strings (a value: concatenation; a message: list of parts), `in` / `not in`
               on the dict and `"<c>" in s` for a one-character constant, `==` / `!=` on strings, not / and / or, `a if c
               else b`, `plugin_registry[k]`, `plugin_registry.keys()`, list(…), filter(lambda …), sorted(…),
               isinstance(plugin, type), plugin.__module__ / __name__ / type(plugin).__name__, `plugin_class(arg)`,
               s.lower(), s.lstrip("."), os.path.isfile, calls of translated functions (keywords resolved against the
               callee's signature, defaults filled in, the registry argument must be the caller's own `plugin_registry`)

Effects: a sub-expression that can raise, write, warn or create an object is not allowed under a short-circuit operator or
a conditional expression, and keyword arguments must not reorder such sub-expressions (Lean's `(← …)` lifts left to right).
A name first assigned inside a branch is local to that branch.

Anything else raises `Untranslatable`; the function (and every function that calls it) is then emitted as
`def f : Py.Untranslatable := ⟨reason⟩`: the file still compiles, the `generated_*_eq_model` theorems about it do not.
"""
from __future__ import annotations

import ast
import hashlib
from pathlib import Path

BASE = "glotaran/plugin_system/base_registry.py"
UTILS = "glotaran/plugin_system/io_plugin_utils.py"
SOURCES = [BASE, UTILS]
# (source file, function): what is translated, callees first is worked out from the call graph
TARGETS = [
    (BASE, "full_plugin_name"), (BASE, "is_registered_plugin"), (BASE, "set_plugin"), (BASE, "add_plugin_to_registry"),
    (BASE, "add_instantiated_plugin_to_registry"), (BASE, "registered_plugins"), (BASE, "get_plugin_from_registry"),
    (UTILS, "infer_file_format"),
]
GEN_REL = "GlotaranModel/Generated/C19Fns.lean"

STR, BOOL, PLUGIN, CLS, STRLIST, STRORLIST, DICT, UNIT = "String", "Bool", "Plugin", "Py.Cls", "List String", "Py.StrOrList", "<dict>", "Unit"
PURE, READ, EFFECT = 0, 1, 2      # effect levels of an expression


class Untranslatable(Exception):
    pass


def q(s: str) -> str:
    out = []
    for ch in s:
        if ch == "\\":
            out.append("\\\\")
        elif ch == '"':
            out.append('\\"')
        elif ch == "\n":
            out.append("\\n")
        elif ch == "\t":
            out.append("\\t")
        elif ord(ch) < 32 or ord(ch) == 127:
            out.append("\\x%02x" % ord(ch))
        else:
            out.append(ch)
    return '"' + "".join(out) + '"'


def lean_char(c: str) -> str:
    if c == "'":
        return "'\\''"
    if c == "\\":
        return "'\\\\'"
    if ord(c) < 32 or ord(c) > 126:
        raise Untranslatable(f"character constant {c!r}")
    return f"'{c}'"


def annot_type(node, default=None):
    if node is None:
        if isinstance(default, ast.Constant) and isinstance(default.value, bool):
            return BOOL
        if isinstance(default, ast.Constant) and isinstance(default.value, str):
            return STR
        raise Untranslatable("parameter without annotation")
    t = ast.unparse(node).replace(" ", "")
    table = {
        "str": STR, "bool": BOOL, "StrOrPath": STR, "_PluginType": PLUGIN, "object|type[object]": PLUGIN,
        "GenericPluginInstance|type[GenericPluginInstance]": PLUGIN, "type[_PluginInstantiableType]": CLS,
        "str|list[str]": STRORLIST, "str|Sequence[str]": STRORLIST, "list[str]": STRLIST, "None": UNIT,
    }
    if t in table:
        return table[t]
    if t.startswith("MutableMapping[str,"):
        return DICT
    raise Untranslatable(f"annotation {t}")


class Sig:
    def __init__(self, fn: ast.FunctionDef):
        a = fn.args
        if a.vararg or a.kwarg or a.posonlyargs:
            raise Untranslatable("*args / **kwargs / positional-only parameters")
        pos = list(a.args)
        dflt = [None] * (len(pos) - len(a.defaults)) + list(a.defaults)
        self.params = []          # (name, type, default node, keyword-only)
        for p, d in zip(pos, dflt):
            self.params.append((p.arg, annot_type(p.annotation, d), d, False))
        for p, d in zip(a.kwonlyargs, a.kw_defaults):
            self.params.append((p.arg, annot_type(p.annotation, d), d, True))
        self.ret = annot_type(fn.returns) if fn.returns is not None else None
        if sum(1 for p in self.params if p[1] == DICT) > 1:
            raise Untranslatable("more than one dict parameter")


class Fn:
    def __init__(self, tr, rel, node: ast.FunctionDef):
        self.tr, self.rel, self.node, self.name = tr, rel, node, node.name
        self.sig = Sig(node)
        self.reassigned = set()
        for n in ast.walk(node):
            if isinstance(n, ast.Assign):
                for t in n.targets:
                    for nm in ast.walk(t):
                        if isinstance(nm, ast.Name) and isinstance(nm.ctx, ast.Store):
                            self.reassigned.add(nm.id)
        self.dict_param = next((p[0] for p in self.sig.params if p[1] == DICT), None)

    # ---------------------------------------------------------------------------------------------------------------
    def lean_params(self):
        return [(n, t) for n, t, _, _ in self.sig.params if t != DICT]

    def translate(self) -> list[str]:
        body = list(self.node.body)
        if body and isinstance(body[0], ast.Expr) and isinstance(body[0].value, ast.Constant) and isinstance(body[0].value.value, str):
            body = body[1:]
        env = {n: t for n, t, _, _ in self.sig.params}
        self.assign_counts = {}
        for n in ast.walk(self.node):
            if isinstance(n, ast.Assign):
                for t in n.targets:
                    for nm in ast.walk(t):
                        if isinstance(nm, ast.Name):
                            self.assign_counts[nm.id] = self.assign_counts.get(nm.id, 0) + 1
        head = []
        # the narrowing idiom retypes its variable; every other reassigned parameter becomes `let mut`
        self.narrowed = set()
        for st in body:
            v = self.narrowing(st, env)
            if v:
                self.narrowed.add(v)
        for n, t, _, _ in self.sig.params:
            if n in self.reassigned and n not in self.narrowed:
                head.append(f"let mut {n} := {n}")
        lines = head + self.block(body, env, top=True)
        ret = self.sig.ret
        if ret is None:
            raise Untranslatable("no return annotation")
        if ret == UNIT and (not body or self.narrowing(body[-1], dict(env, **{v: STRORLIST for v in self.narrowed})) or (
                isinstance(body[-1], ast.Assign) and not isinstance(body[-1].targets[0], ast.Subscript))):
            lines.append("pure ()")
        ps = " ".join(f"({n} : {t})" for n, t in self.lean_params())
        out = [f"/-- `{self.name}` ({self.rel}) -/",
               f"def {self.name} (w : Py.World){' ' + ps if ps else ''} : Py.M {paren_type(ret)} := do"]
        return out + ["  " + l for l in lines]

    def narrowing(self, st, env):
        """`if isinstance(x, str): x = [x]` with x : str | list[str]  ->  x"""
        if not (isinstance(st, ast.If) and not st.orelse and len(st.body) == 1):
            return None
        t, b = st.test, st.body[0]
        if not (isinstance(t, ast.Call) and isinstance(t.func, ast.Name) and t.func.id == "isinstance" and len(t.args) == 2
                and isinstance(t.args[0], ast.Name) and isinstance(t.args[1], ast.Name) and t.args[1].id == "str"):
            return None
        x = t.args[0].id
        if env.get(x) != STRORLIST:
            return None
        if (isinstance(b, ast.Assign) and len(b.targets) == 1 and isinstance(b.targets[0], ast.Name) and b.targets[0].id == x
                and isinstance(b.value, ast.List) and len(b.value.elts) == 1 and isinstance(b.value.elts[0], ast.Name)
                and b.value.elts[0].id == x):
            return x
        return None

    # ---------------------------------------------------------------------------------------------------------------
    # statements
    # ---------------------------------------------------------------------------------------------------------------
    def block(self, stmts, env, top=False) -> list[str]:
        env = env if top else dict(env)
        out = []
        for i, st in enumerate(stmts):
            out += self.stmt(st, env, last=(i == len(stmts) - 1))
        if not out:
            out = ["pure ()"]
        return out

    def stmt(self, st, env, last) -> list[str]:
        if isinstance(st, ast.Pass):
            return ["pure ()"]
        v = self.narrowing(st, env)
        if v:
            env[v] = STRLIST
            return [f"let {v} : List String := match {v} with", "  | .str s => [s]", "  | .list l => l"]
        if isinstance(st, ast.If):
            c, ct, _ = self.expr(st.test, env)
            c = self.truth(c, ct)
            out = [f"if {c} then"] + ["  " + l for l in self.block(st.body, env)]
            if st.orelse:
                out += ["else"] + ["  " + l for l in self.block(st.orelse, env)]
            return out
        if isinstance(st, ast.Raise):
            if st.exc is None or st.cause is not None:
                raise Untranslatable("re-raise / raise from")
            return [f"Py.raise {self.exception(st.exc, env)}"]
        if isinstance(st, ast.Return):
            if st.value is None:
                return ["return ()"]
            e, t, _ = self.expr(st.value, env)
            if t != self.sig.ret:
                raise Untranslatable(f"return of {t} in a function annotated {self.sig.ret}")
            return [f"return {e}"]
        if isinstance(st, ast.Assign):
            if len(st.targets) != 1:
                raise Untranslatable("chained assignment")
            tgt = st.targets[0]
            if isinstance(tgt, ast.Subscript):
                if not (isinstance(tgt.value, ast.Name) and env.get(tgt.value.id) == DICT):
                    raise Untranslatable("subscript assignment to something that is not the registry")
                k, kt, ke = self.expr(tgt.slice, env)
                v, vt, ve = self.expr(st.value, env)
                if kt != STR or vt != PLUGIN:
                    raise Untranslatable(f"registry[{kt}] = {vt}")
                if ve == EFFECT and ke == EFFECT:
                    raise Untranslatable("evaluation order of an effectful key and value")   # python: value first
                return [f"Py.setItem {k} {v}"]
            if isinstance(tgt, ast.Tuple):
                # `_, ext = os.path.splitext(path)`
                if (len(tgt.elts) == 2 and all(isinstance(e, ast.Name) for e in tgt.elts) and tgt.elts[0].id == "_"
                        and self.is_os_path(st.value, "splitext") and len(st.value.args) == 1):
                    p, pt, _ = self.expr(st.value.args[0], env)
                    if pt != STR:
                        raise Untranslatable("splitext of a non-string")
                    return self.bind(tgt.elts[1].id, f"Py.splitextExt {p}", STR, env)
                raise Untranslatable("tuple assignment")
            if not isinstance(tgt, ast.Name):
                raise Untranslatable("assignment target " + type(tgt).__name__)
            e, t, _ = self.expr(st.value, env)
            return self.bind(tgt.id, e, t, env)
        if isinstance(st, ast.For):
            if st.orelse or not isinstance(st.target, ast.Name):
                raise Untranslatable("for-else / tuple target")
            it, itt, _ = self.expr(st.iter, env)
            if itt != STRLIST:
                raise Untranslatable(f"iteration over {itt}")
            inner = dict(env)
            inner[st.target.id] = STR
            return [f"for {st.target.id} in {it} do"] + ["  " + l for l in self.block(st.body, inner)]
        if isinstance(st, ast.Expr):
            n = st.value
            if isinstance(n, ast.Call) and isinstance(n.func, ast.Name) and n.func.id == "warn":
                return [self.warning(n, env)]
            if isinstance(n, ast.Call):
                e, t, eff = self.expr(n, env, statement=True)
                if t != UNIT:
                    return [f"let _ ← {e}" if eff else f"let _ := {e}"]
                return [e]
            raise Untranslatable("expression statement")
        raise Untranslatable("statement " + type(st).__name__)

    def bind(self, name, e, t, env) -> list[str]:
        if t in (DICT,):
            raise Untranslatable("alias of the registry")
        if name in env:
            if env[name] != t:
                raise Untranslatable(f"{name} changes its type from {env[name]} to {t}")
            return [f"{name} := {e}"]
        env[name] = t
        mut = "mut " if self.assign_counts.get(name, 0) > 1 else ""
        return [f"let {mut}{name} := {e}"]

    def truth(self, c, t):
        if t == BOOL:
            return c
        if t == STR:
            return f"Py.truthyStr {c}"
        raise Untranslatable(f"truth value of {t}")

    @staticmethod
    def is_os_path(n, fn):
        return (isinstance(n, ast.Call) and isinstance(n.func, ast.Attribute) and n.func.attr == fn
                and isinstance(n.func.value, ast.Attribute) and n.func.value.attr == "path"
                and isinstance(n.func.value.value, ast.Name) and n.func.value.value.id == "os")

    def exception(self, n, env) -> str:
        if not (isinstance(n, ast.Call) and isinstance(n.func, ast.Name) and len(n.args) == 1 and not n.keywords):
            raise Untranslatable("raise of something that is not Cls(message)")
        return f"⟨{q(n.func.id)}, {self.message(n.args[0], env)}⟩"

    def message(self, n, env) -> str:
        parts = []
        if isinstance(n, ast.Constant) and isinstance(n.value, str):
            parts.append(f".lit {q(n.value)}")
        elif isinstance(n, ast.JoinedStr):
            for v in n.values:
                if isinstance(v, ast.Constant):
                    parts.append(f".lit {q(v.value)}")
                    continue
                if v.format_spec is not None:
                    raise Untranslatable("format spec")
                e, t, eff = self.expr(v.value, env)
                if eff == EFFECT:
                    raise Untranslatable("effect inside a message")
                if t == STR and v.conversion == 114:
                    parts.append(f".repr {e}")
                elif t == STR and v.conversion == -1:
                    parts.append(f".str {e}")
                elif t == STRLIST and v.conversion == -1:
                    parts.append(f".strs {e}")
                else:
                    raise Untranslatable(f"interpolation of {t} (conversion {v.conversion})")
        else:
            e, t, _ = self.expr(n, env)
            if t != STR:
                raise Untranslatable("message that is not a string")
            parts.append(f".str {e}")
        return "[" + ", ".join(parts) + "]"

    def warning(self, n, env) -> str:
        kws = {k.arg: k.value for k in n.keywords}
        if len(n.args) != 1 or set(kws) - {"stacklevel", "category"}:
            raise Untranslatable("warn(...) arguments")
        w = n.args[0]
        if not (isinstance(w, ast.Call) and isinstance(w.func, ast.Name) and not w.args):
            raise Untranslatable("warn of something that is not Cls(k=v, …)")
        items = []
        for k in w.keywords:
            if k.arg is None:
                raise Untranslatable("**kwargs")
            e, t, _ = self.expr(k.value, env)
            if t == STR:
                items.append(f"({q(k.arg)}, .str {e})")
            elif t == PLUGIN:
                items.append(f"({q(k.arg)}, .plugin {e})")
            else:
                raise Untranslatable(f"warning argument of type {t}")
        return f"Py.warn ⟨{q(w.func.id)}, [{', '.join(items)}]⟩"

    # ---------------------------------------------------------------------------------------------------------------
    # expressions: -> (lean text, type, effect level)
    # ---------------------------------------------------------------------------------------------------------------
    def expr(self, n, env, statement=False):
        if isinstance(n, ast.Constant):
            if isinstance(n.value, bool):
                return ("true" if n.value else "false"), BOOL, PURE
            if isinstance(n.value, str):
                return q(n.value), STR, PURE
            raise Untranslatable(f"constant {n.value!r}")
        if isinstance(n, ast.Name):
            if n.id not in env:
                raise Untranslatable(f"unknown name {n.id}")
            if env[n.id] == DICT:
                raise Untranslatable("the registry used as a value")
            return n.id, env[n.id], PURE
        if isinstance(n, ast.JoinedStr):
            parts, eff = [], PURE
            for v in n.values:
                if isinstance(v, ast.Constant):
                    parts.append(q(v.value))
                    continue
                if v.conversion != -1 or v.format_spec is not None:
                    raise Untranslatable("conversion / format spec in an f-string that is used as a value")
                e, t, ef = self.expr(v.value, env)
                if t != STR:
                    raise Untranslatable(f"interpolation of {t} in a value")
                parts.append(e)
                eff = max(eff, ef)
            if not parts:
                return '""', STR, PURE
            return ("(" + " ++ ".join(parts) + ")" if len(parts) > 1 else parts[0]), STR, eff
        if isinstance(n, ast.UnaryOp) and isinstance(n.op, ast.Not):
            e, t, eff = self.expr(n.operand, env)
            return f"(!{self.truth(e, t)})", BOOL, eff
        if isinstance(n, ast.BoolOp):
            vals = [self.expr(v, env) for v in n.values]
            if any(eff == EFFECT for _, _, eff in vals[1:]):
                raise Untranslatable("effect under a short-circuit operator")
            if any(t != BOOL for _, t, _ in vals):
                raise Untranslatable("and / or of non-booleans")
            op = " || " if isinstance(n.op, ast.Or) else " && "
            return "(" + op.join(e for e, _, _ in vals) + ")", BOOL, max(eff for _, _, eff in vals)
        if isinstance(n, ast.IfExp):
            c, ct, ce = self.expr(n.test, env)
            a, at, ae = self.expr(n.body, env)
            b, bt, be = self.expr(n.orelse, env)
            if ae == EFFECT or be == EFFECT:
                raise Untranslatable("effect under a conditional expression")
            if at != bt:
                raise Untranslatable("conditional expression of two types")
            return f"(if {self.truth(c, ct)} then {a} else {b})", at, max(ce, ae, be)
        if isinstance(n, ast.Compare):
            if len(n.ops) != 1:
                raise Untranslatable("chained comparison")
            op, l, r = n.ops[0], n.left, n.comparators[0]
            if isinstance(op, (ast.In, ast.NotIn)):
                neg = isinstance(op, ast.NotIn)
                if isinstance(r, ast.Name) and env.get(r.id) == DICT:
                    k, kt, ke = self.expr(l, env)
                    if kt != STR:
                        raise Untranslatable("membership of a non-string in the registry")
                    e = f"(← Py.contains {k})"
                    return (f"(!{e})" if neg else e), BOOL, max(ke, READ)
                if isinstance(l, ast.Constant) and isinstance(l.value, str) and len(l.value) == 1:
                    s, st_, se = self.expr(r, env)
                    if st_ != STR:
                        raise Untranslatable(f"`in` on {st_}")
                    e = f"Py.hasChar {lean_char(l.value)} {s}"
                    return (f"(!{e})" if neg else f"({e})"), BOOL, se
                raise Untranslatable("`in` other than dict membership / one-character containment")
            if isinstance(op, (ast.Eq, ast.NotEq)):
                a, at, ae = self.expr(l, env)
                b, bt, be = self.expr(r, env)
                if at != bt or at not in (STR, BOOL):
                    raise Untranslatable(f"comparison of {at} and {bt}")
                return f"({a} {'==' if isinstance(op, ast.Eq) else '!='} {b})", BOOL, max(ae, be)
            raise Untranslatable("comparison " + type(op).__name__)
        if isinstance(n, ast.Subscript):
            if isinstance(n.value, ast.Name) and env.get(n.value.id) == DICT:
                k, kt, _ = self.expr(n.slice, env)
                if kt != STR:
                    raise Untranslatable("registry subscript that is not a string")
                return f"(← Py.getItem {k})", PLUGIN, EFFECT
            raise Untranslatable("subscript")
        if isinstance(n, ast.Attribute):
            # plugin.__module__ / plugin.__name__ / type(plugin).__name__
            v = n.value
            if isinstance(v, ast.Call) and isinstance(v.func, ast.Name) and v.func.id == "type" and len(v.args) == 1 and not v.keywords:
                o, ot, oe = self.expr(v.args[0], env)
                if ot == PLUGIN and n.attr == "__name__":
                    return f"{o}.name", STR, oe
            else:
                o, ot, oe = self.expr(v, env)
                if ot == PLUGIN and n.attr == "__module__":
                    return f"{o}.module", STR, oe
                if ot == PLUGIN and n.attr == "__name__":
                    return f"{o}.name", STR, oe
            raise Untranslatable(f"attribute {n.attr}")
        if isinstance(n, ast.List):
            es = [self.expr(e, env) for e in n.elts]
            if any(t != STR for _, t, _ in es):
                raise Untranslatable("list display of non-strings")
            return "[" + ", ".join(e for e, _, _ in es) + "]", STRLIST, max([eff for _, _, eff in es] + [PURE])
        if isinstance(n, ast.Call):
            return self.call(n, env, statement)
        raise Untranslatable("expression " + type(n).__name__)

    def call(self, n, env, statement):
        f = n.func
        if self.is_os_path(n, "isfile") and len(n.args) == 1 and not n.keywords:
            p, pt, pe = self.expr(n.args[0], env)
            if pt != STR:
                raise Untranslatable("isfile of a non-string")
            return f"(w.isFile {p})", BOOL, pe
        if isinstance(f, ast.Attribute):
            if isinstance(f.value, ast.Name) and env.get(f.value.id) == DICT:
                if f.attr == "keys" and not n.args and not n.keywords:
                    return "(← Py.keysOf)", STRLIST, READ
                raise Untranslatable(f"registry.{f.attr}")
            o, ot, oe = self.expr(f.value, env)
            if ot == STR and f.attr == "lower" and not n.args:
                return f"(Py.lower {o})", STR, oe
            if ot == STR and f.attr == "lstrip" and len(n.args) == 1 and isinstance(n.args[0], ast.Constant) and n.args[0].value == ".":
                return f"(Py.lstripDots {o})", STR, oe
            raise Untranslatable(f"method {f.attr} of {ot}")
        if not isinstance(f, ast.Name):
            raise Untranslatable("call of an expression")
        name = f.id
        if name in env:
            if env[name] == CLS and len(n.args) == 1 and not n.keywords:
                a, at, _ = self.expr(n.args[0], env)
                if at != STR:
                    raise Untranslatable("plugin class called with a non-string")
                return f"(← Py.instantiate {name} {a})", PLUGIN, EFFECT
            raise Untranslatable(f"call of the local name {name}")
        if name == "isinstance" and len(n.args) == 2 and isinstance(n.args[1], ast.Name) and n.args[1].id == "type":
            o, ot, oe = self.expr(n.args[0], env)
            if ot != PLUGIN:
                raise Untranslatable("isinstance(x, type) of a non-plugin")
            return f"(w.isClass {o})", BOOL, oe
        if name == "list" and len(n.args) == 1 and not n.keywords:
            e, t, eff = self.expr(n.args[0], env)
            if t != STRLIST:
                raise Untranslatable(f"list() of {t}")
            return e, t, eff
        if name == "sorted" and len(n.args) == 1 and not n.keywords:
            e, t, eff = self.expr(n.args[0], env)
            if t != STRLIST:
                raise Untranslatable(f"sorted() of {t}")
            return f"(Py.sorted {e})", t, eff
        if name == "filter" and len(n.args) == 2 and not n.keywords and isinstance(n.args[0], ast.Lambda):
            lam = n.args[0]
            if len(lam.args.args) != 1 or lam.args.defaults or lam.args.vararg or lam.args.kwarg:
                raise Untranslatable("lambda signature")
            xs, xt, xe = self.expr(n.args[1], env)
            if xt != STRLIST:
                raise Untranslatable(f"filter over {xt}")
            inner = dict(env)
            inner[lam.args.args[0].arg] = STR
            c, ct, ce = self.expr(lam.body, inner)
            if ce != PURE:
                raise Untranslatable("registry access inside a lambda")
            return f"(List.filter (fun {lam.args.args[0].arg} => {self.truth(c, ct)}) {xs})", STRLIST, xe
        callee = self.tr.fns.get(name)
        if callee is None:
            raise Untranslatable(f"call of {name}")
        if isinstance(callee, str):
            raise Untranslatable(f"calls {name}, which is untranslatable")
        # resolve arguments against the callee's signature
        given = {}
        order = []
        pos_params = [p for p in callee.sig.params if not p[3]]
        if len(n.args) > len(pos_params):
            raise Untranslatable("too many positional arguments")
        for a, p in zip(n.args, pos_params):
            given[p[0]] = a
            order.append(p[0])
        for k in n.keywords:
            if k.arg is None or k.arg in given or k.arg not in {p[0] for p in callee.sig.params}:
                raise Untranslatable("keyword arguments")
            given[k.arg] = k.value
            order.append(k.arg)
        texts, effs = {}, {}
        for pn, pt, pd, _ in callee.sig.params:
            node = given.get(pn, pd)
            if node is None:
                raise Untranslatable(f"missing argument {pn}")
            if pt == DICT:
                if not (isinstance(node, ast.Name) and node.id == self.dict_param):
                    raise Untranslatable("registry argument that is not the caller's own registry")
                continue
            e, t, eff = self.expr(node, env)
            if t != pt:
                raise Untranslatable(f"argument {pn}: {t} where {pt} is expected")
            texts[pn], effs[pn] = e, eff
        sig_order = [p[0] for p in callee.sig.params if p[0] in order and effs.get(p[0]) == EFFECT]
        src_order = [x for x in order if effs.get(x) == EFFECT]
        if sig_order != src_order:
            raise Untranslatable("keyword arguments reorder effectful sub-expressions")
        args = " ".join(texts[p[0]] if texts[p[0]].startswith(("(", '"', "[")) or texts[p[0]].isidentifier() else f"({texts[p[0]]})"
                        for p in callee.sig.params if p[1] != DICT)
        text = f"{name} w {args}".rstrip()
        if statement and callee.sig.ret == UNIT:
            return text, UNIT, EFFECT
        return f"(← {text})", callee.sig.ret, EFFECT if callee.effectful else READ


def paren_type(t):
    return f"({t})" if " " in t else t


class Translator:
    def __init__(self, repo: Path):
        self.repo = Path(repo)
        self.fns: dict[str, object] = {}      # name -> Fn | reason (str)
        self.order: list[str] = []
        self.text: dict[str, list[str]] = {}
        self.defs: dict[str, tuple[str, ast.FunctionDef]] = {}
        self.missing: list[str] = []
        trees = {}
        for rel in SOURCES:
            try:
                trees[rel] = ast.parse((self.repo / rel).read_text())
            except (OSError, SyntaxError) as e:
                trees[rel] = None
                self.parse_error = f"{rel}: {type(e).__name__}"
        for rel, name in TARGETS:
            node = None
            if trees.get(rel) is not None:
                node = next((n for n in trees[rel].body if isinstance(n, ast.FunctionDef) and n.name == name), None)
            if node is None:
                self.missing.append(name)
            else:
                self.defs[name] = (rel, node)

    def callees(self, node):
        out = []
        for n in ast.walk(node):
            if isinstance(n, ast.Call) and isinstance(n.func, ast.Name) and n.func.id in self.defs and n.func.id != node.name:
                out.append(n.func.id)
        return out

    def run(self):
        done, visiting = set(), set()

        def visit(name):
            if name in done:
                return
            if name in visiting:
                self.fns[name] = "recursion"
                return
            visiting.add(name)
            rel, node = self.defs[name]
            # a parameter that shadows a function name is a local, not a call
            shadow = {a.arg for a in node.args.args + node.args.kwonlyargs}
            for c in self.callees(node):
                if c not in shadow:
                    visit(c)
            visiting.discard(name)
            done.add(name)
            self.order.append(name)
            try:
                fn = Fn(self, rel, node)
                fn.effectful = any(isinstance(x, ast.Raise) for x in ast.walk(node)) or self.has_effect(node)
                self.fns[name] = fn
                self.text[name] = fn.translate()
            except Untranslatable as e:
                self.fns[name] = str(e)
                self.text[name] = [f"/-- `{name}` ({rel}): outside the translated subset -/",
                                   f"def {name} : Py.Untranslatable := ⟨{q(str(e))}⟩"]

        for _, name in TARGETS:
            if name in self.defs:
                visit(name)
        for name in self.missing:
            self.order.append(name)
            self.fns[name] = "not found"
            self.text[name] = [f"/-- `{name}`: not found in the source -/",
                               f"def {name} : Py.Untranslatable := ⟨\"function not found in the source\"⟩"]
        return self

    def has_effect(self, node):
        """writes the dict, warns, instantiates, subscripts the dict, or calls an effectful translated function"""
        for n in (x for st in node.body for x in ast.walk(st)):
            if isinstance(n, ast.Subscript):
                return True
            if isinstance(n, ast.Call) and isinstance(n.func, ast.Name):
                if n.func.id == "warn":
                    return True
                c = self.fns.get(n.func.id)
                if isinstance(c, Fn) and c.effectful and n.func.id != node.name:
                    return True
                if isinstance(c, str):
                    return True
                cls_params = {a.arg for a in node.args.args if a.annotation is not None and ast.unparse(a.annotation).startswith("type[")}
                if n.func.id in cls_params:
                    return True
        return False

    def render(self) -> str:
        head = (
            "/- GENERATED by harness/props/_c19_fns.py from the source text of VERIF_REPO — do not edit.\n"
            "   Statement-by-statement transcription of the functions of glotaran/plugin_system/base_registry.py that work on\n"
            "   the registry dict, and of io_plugin_utils.infer_file_format (subset and conventions: docstring of the generator;\n"
            "   vocabulary: GlotaranModel/C19Py.lean).  `generated_*_eq_model` (GlotaranProofs/Props/C19.lean) prove each\n"
            "   definition equal to the operation of the hand-written model the property theorems are about. -/\n"
            "import GlotaranModel.C19Py\n"
            "namespace Glotaran.C19.Gen\n"
            "open Glotaran.C19\n"
            "set_option linter.unusedVariables false\n\n"
        )
        body = "\n\n".join("\n".join(self.text[n]) for n in self.order)
        return head + body + "\n\nend Glotaran.C19.Gen\n"

    def status(self):
        return {n: ("translated" if isinstance(self.fns[n], Fn) else f"untranslatable: {self.fns[n]}") for n in self.order}


def generate(repo: Path, lean_dir: Path):
    tr = Translator(repo).run()
    text = tr.render()
    path = lean_dir / GEN_REL
    path.parent.mkdir(parents=True, exist_ok=True)
    if not path.exists() or path.read_text() != text:
        path.write_text(text)
    sha = hashlib.sha1()
    for rel in SOURCES:
        try:
            sha.update((Path(repo) / rel).read_bytes())
        except OSError:
            sha.update(b"<missing>")
    return {
        "table": f"translated functions (lean/{GEN_REL})",
        "source": SOURCES,
        "source_sha1": sha.hexdigest(),
        "sha1": hashlib.sha1(text.encode()).hexdigest(),
        "functions": tr.status(),
    }


if __name__ == "__main__":
    import sys
    tr = Translator(Path(sys.argv[1])).run()
    print(tr.render())
    for k, v in tr.status().items():
        print("--", k, v, file=sys.stderr)
