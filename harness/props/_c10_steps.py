"""C10 helper: translator of the container data flow of one objective evaluation (DESIGN §5.2, table `C10Steps`).

Pure `ast` over glotaran/optimization/{optimizer,optimization_group,matrix_provider,estimation_provider,data_provider}.py and
glotaran/model/dataset_group.py; nothing is imported from glotaran.  Starting at `Optimizer.objective_function` the
methods reachable through `self`, through attributes holding objects of these classes and through loop variables over
`self._optimization_groups` are analysed by a small abstract interpreter:

* abstract value of an expression = (containers it was computed from, in first-occurrence order; containers it is a LIVE
  reference to; a label = name of the function that produced it; class of the object; how it subscripts a container);
* every statement that overwrites / clears / appends to / updates in place a `self._*` container (also one reached
  through `self._x._y` or through a local that is a live reference to it) becomes a step of the table, with the containers
  the written value was computed from; calls of other methods of the classes become `call` steps (one block per method
  and abstract argument list), loops over the groups / the datasets of a group / a global axis / the aligned axis and
  branches on `has_dataset_model_global_model` / `weight is not None` become structure; loops and branches that contain
  no step only contribute to the data flow;
* anything the translator does not understand (a write to a container it has no name for, a step under a condition or a
  loop it cannot classify, an in-place update with an unknown subscript …) becomes an `untranslatable "<reason>"` step:
  the Lean interpreter turns it into a micro-step the model does not have, so `generated_steps_eq_model` fails to build.

The Lean side (GlotaranModel/C10Interp.lean) interprets the table for a scheme structure and
GlotaranProofs/Props/C10.lean proves the result EQUAL to the hand-written micro-step list `calculatePenalty spec`.
"""
from __future__ import annotations

import ast
import hashlib
from dataclasses import dataclass, field, replace
from pathlib import Path

FILES = ["glotaran/optimization/optimizer.py", "glotaran/optimization/optimization_group.py",
         "glotaran/optimization/matrix_provider.py", "glotaran/optimization/estimation_provider.py",
         "glotaran/optimization/data_provider.py", "glotaran/model/dataset_group.py"]

# (class that owns the attribute, attribute) -> Lean constructor of `Steps.Cont`
CONTAINERS = {
    ("Optimizer", "_parameters"): "parameters",
    ("Optimizer", "_parameter_history"): "history",
    ("DatasetGroup", "parameters"): "groupParameters",
    ("DatasetGroup", "dataset_models"): "datasetModels",
    ("MatrixProvider", "_matrix_containers"): "matrixContainers",
    ("MatrixProvider", "_global_matrix_containers"): "globalMatrixContainers",
    ("MatrixProviderUnlinked", "_prepared_matrix_container"): "preparedMatrixContainer",
    ("MatrixProviderUnlinked", "_full_matrices"): "fullMatrices",
    ("MatrixProviderLinked", "_aligned_full_clp_labels"): "alignedFullClpLabels",
    ("MatrixProviderLinked", "_aligned_matrices"): "alignedMatrices",
    ("EstimationProviderUnlinked", "_clps"): "clps",
    ("EstimationProviderUnlinked", "_residuals"): "residuals",
    ("EstimationProviderLinked", "_clps"): "lclps",
    ("EstimationProviderLinked", "_residuals"): "lresiduals",
    ("EstimationProvider", "_clp_penalty"): "clpPenalty",
}
# which domain the keys of a container come from
DOMAIN = {"datasetModels": "datasets", "matrixContainers": "datasets", "globalMatrixContainers": "datasets",
          "preparedMatrixContainer": "datasets", "fullMatrices": "datasets", "clps": "datasets", "residuals": "datasets",
          "alignedFullClpLabels": "aligned", "alignedMatrices": "aligned", "lclps": "aligned", "lresiduals": "aligned"}

# attributes that hold objects of the analysed classes: (class family of the holder, attribute) -> class family
OBJECTS = {
    ("OptimizationGroup", "_dataset_group"): "DatasetGroup",
    ("OptimizationGroup", "_matrix_provider"): "MatrixProvider",
    ("OptimizationGroup", "_estimation_provider"): "EstimationProvider",
    ("OptimizationGroup", "_data_provider"): "DataProvider",
    ("EstimationProvider", "_group"): "DatasetGroup",
    ("EstimationProvider", "_matrix_provider"): "MatrixProvider",
    ("EstimationProvider", "_data_provider"): "DataProvider",
    ("MatrixProvider", "_group"): "DatasetGroup",
    ("MatrixProvider", "_data_provider"): "DataProvider",
}
GROUP_LIST = ("Optimizer", "_optimization_groups")          # list of OptimizationGroup objects
FAMILY = {"MatrixProvider": {"unlinked": "MatrixProviderUnlinked", "linked": "MatrixProviderLinked"},
          "EstimationProvider": {"unlinked": "EstimationProviderUnlinked", "linked": "EstimationProviderLinked"},
          "DataProvider": {"unlinked": "DataProvider", "linked": "DataProviderLinked"}}
BASES = {"MatrixProviderUnlinked": "MatrixProvider", "MatrixProviderLinked": "MatrixProvider",
         "EstimationProviderUnlinked": "EstimationProvider", "EstimationProviderLinked": "EstimationProvider",
         "DataProviderLinked": "DataProvider"}
READ_ONLY_METHODS = {"items", "values", "keys", "get", "index", "copy", "count", "all", "has", "to_dataframe",
                     "has_interval", "applies"}          # the last two: IntervalItem (model/interval_item.py), pure
CLEAR_METHODS = {"clear"}
APPEND_METHODS = {"append", "extend", "insert"}
# functions whose result holds live references to (objects inside) the argument at this position
REFERENCE_HOLDERS = {"fill_item": 2}
VIEW_FUNCS = {"asarray", "asanyarray", "atleast_1d", "atleast_2d", "ravel", "reshape", "squeeze", "transpose"}
EXTERNAL = {"calculate_matrix": "matrix", "calculate_residual": "residual"}


@dataclass(frozen=True)
class AV:
    """abstract value"""
    deps: tuple = ()            # containers read: ((cont, key), …) first occurrence order
    alias: tuple = ()           # containers the value is a live reference to
    label: str = ""
    obj: str | None = None      # class (family) of the object
    key: str | None = None      # used as a subscript: "cur" | "members" | "all"   (None: unknown)
    dom: str | None = None      # domain of that key: "datasets" | "aligned"
    elem: "AV | None" = None    # what iterating the value gives
    parts: tuple | None = None  # abstract values of the components when the value is unpacked
    tag: str | None = None      # "groups" | "global_axis" | "aligned_axis" | "datasets" | "groupdefs" | "grouplabel" | "megacomplexes" | "global_megacomplexes" | "weight" | "const:True" …

    def sig(self):
        return (self.deps, self.alias, self.label, self.obj, self.key, self.dom, None if self.elem is None else self.elem.sig(), self.tag,
                None if self.parts is None else tuple(p.sig() for p in self.parts))


def _union(*seqs):
    out = []
    for s in seqs:
        for x in s:
            if x not in out:
                out.append(x)
    return tuple(out)


def merge(a: AV, b: AV) -> AV:
    if a is None:
        return b
    if b is None:
        return a
    labels = sorted({x for x in (a.label.split("|") + b.label.split("|")) if x})
    return AV(deps=_union(a.deps, b.deps), alias=_union(a.alias, b.alias), label="|".join(labels),
              obj=a.obj or b.obj, key=a.key if a.key == b.key else None, dom=a.dom if a.dom == b.dom else None,
              elem=merge(a.elem, b.elem) if (a.elem or b.elem) else None, tag=a.tag if a.tag == b.tag else None)


EMPTY = AV()


def _name_of(f):
    return f.attr if isinstance(f, ast.Attribute) else (f.id if isinstance(f, ast.Name) else "")


class Source:
    def __init__(self, repo: Path):
        self.classes = {}        # class name -> {method name: FunctionDef}
        self.props = {}          # class name -> set of property names
        self.static = {}         # class name -> set of staticmethod names
        self.sha = {}
        for rel in FILES:
            p = Path(repo) / rel
            if not p.exists():
                continue
            text = p.read_text()
            self.sha[rel] = hashlib.sha1(text.encode()).hexdigest()
            for node in ast.parse(text).body:
                if isinstance(node, ast.ClassDef):
                    ms, ps, ss = {}, set(), set()
                    for it in node.body:
                        if isinstance(it, (ast.FunctionDef,)):
                            decs = {_name_of(d) for d in it.decorator_list}
                            if "setter" in decs:
                                continue
                            ms[it.name] = it
                            if "property" in decs:
                                ps.add(it.name)
                            if "staticmethod" in decs:
                                ss.add(it.name)
                    self.classes[node.name] = ms
                    self.props[node.name] = ps
                    self.static[node.name] = ss

    @property
    def value_classes(self):
        known = set(BASES) | set(BASES.values()) | {"Optimizer", "OptimizationGroup", "DatasetGroup", "DataProvider"}
        return [c for c in self.classes if c not in known and not c.endswith("Error") and c != "DatasetGroupModel"]

    def mro(self, cls):
        out = [cls]
        while out[-1] in BASES:
            out.append(BASES[out[-1]])
        return out

    def find(self, cls, meth):
        for c in self.mro(cls):
            if meth in self.classes.get(c, {}):
                return c, self.classes[c][meth]
        return None, None

    def owner_container(self, cls, attr):
        for c in self.mro(cls):
            if (c, attr) in CONTAINERS:
                return CONTAINERS[(c, attr)]
        return None

    def owner_object(self, cls, attr):
        for c in self.mro(cls):
            if (c, attr) in OBJECTS:
                return OBJECTS[(c, attr)]
        return None


class Untranslatable(Exception):
    pass


class Translator:
    def __init__(self, src: Source):
        self.src = src
        self.blocks = []          # list of {"name":…, "steps":[…]}
        self.memo = {}
        self.depth = 0

    # ---- blocks ---------------------------------------------------------------------------
    def new_block(self, name):
        self.blocks.append({"name": name, "steps": []})
        return len(self.blocks) - 1

    # ---- entry ----------------------------------------------------------------------------
    def translate(self):
        """returns (blocks, entry block of objective_function, entry block of calculate_penalty)"""
        fr = Frame(self, "Optimizer", None, "Optimizer.calculate_penalty", is_entry=True)
        pen = fr.run_method("calculate_penalty", [], {})
        fr2 = Frame(self, "Optimizer", None, "Optimizer.objective_function")
        obj = fr2.run_method("objective_function", [EMPTY], {})
        return self.blocks, obj[0], pen[0]


class Frame:
    """analysis of one method body (and, recursively, of the nested bodies) for a receiver class and a variant"""

    def __init__(self, tr: Translator, cls: str, variant: str | None, name: str, is_entry=False):
        self.tr, self.cls, self.variant, self.name, self.is_entry = tr, cls, variant, name, is_entry
        self.env = {}
        self.consts = {}
        self.ret = None
        self.block = None
        self.self_val = None        # abstract value of `self` when the method belongs to a value class (MatrixContainer)

    # ---- helpers --------------------------------------------------------------------------
    def emit(self, step):
        self.tr.blocks[self.block]["steps"].append(step)

    def bad(self, reason):
        self.emit(("untranslatable", reason))

    def resolve_cls(self, fam):
        if fam in FAMILY:
            return FAMILY[fam][self.variant] if self.variant else None
        return fam

    # ---- methods --------------------------------------------------------------------------
    def run_method(self, meth, args, kwargs, cls=None, variant="same", self_val=None):
        """analyse `cls.meth` with abstract arguments; returns (block id, return value)"""
        cls = cls or self.cls
        variant = self.variant if variant == "same" else variant
        owner, fn = self.tr.src.find(cls, meth)
        if fn is None:
            raise Untranslatable(f"method {cls}.{meth} not found")
        consts = {k: v.tag for k, v in kwargs.items() if v.tag and v.tag.startswith("const:")}
        key = (cls, meth, variant, tuple(a.sig() for a in args), tuple(sorted((k, v.sig()) for k, v in kwargs.items())),
               None if self_val is None else self_val.sig())
        if key in self.tr.memo:
            return self.tr.memo[key]
        if self.tr.depth > 40:
            raise Untranslatable("recursion")
        suffix = "".join(f"[{k}={v[6:]}]" for k, v in sorted(consts.items()))
        fr = Frame(self.tr, cls, variant, f"{owner}.{meth}{suffix}" + (f" ({variant})" if variant else ""),
                   is_entry=self.is_entry and meth == "calculate_penalty" and cls == "Optimizer")
        fr.block = self.tr.new_block(fr.name)
        if self_val is not None:
            fr.self_val = self_val
            fr.env["self"] = self_val
        params = [a.arg for a in fn.args.args]
        static = meth in self.tr.src.static.get(owner, set())
        if not static:
            params = params[1:]
        defaults = fn.args.defaults
        for i, p in enumerate(params):
            if i < len(args):
                v = args[i]
            elif p in kwargs:
                v = kwargs[p]
            else:
                j = i - (len(params) - len(defaults))
                v = fr.eval(defaults[j]) if 0 <= j < len(defaults) else EMPTY
            fr.env[p] = replace(v, label=p)
        self.tr.depth += 1
        try:
            fr.body(fn.body)
        finally:
            self.tr.depth -= 1
        ret = fr.ret or EMPTY
        out = (fr.block, replace(ret, label=meth + suffix))
        self.tr.memo[key] = out
        return out

    # ---- statements -----------------------------------------------------------------------
    def body(self, stmts):
        for i, st in enumerate(stmts):
            if self.stmt(st, stmts[i + 1:]) == "rest-consumed":
                return

    def stmt(self, st, rest):
        if isinstance(st, ast.Expr):
            if isinstance(st.value, ast.Constant):
                return
            self.eval(st.value)
        elif isinstance(st, ast.Assign):
            v = self.eval(st.value, want=st.targets[0])
            for t in st.targets:
                self.assign(t, v, st.value)
        elif isinstance(st, ast.AnnAssign):
            if st.value is not None:
                self.assign(st.target, self.eval(st.value), st.value)
        elif isinstance(st, ast.AugAssign):
            v = self.eval(st.value)
            self.augassign(st.target, v, st.op)
        elif isinstance(st, ast.Return):
            if st.value is not None:
                v = self.eval(st.value)
                self.ret = merge(self.ret, v) if self.ret else v
                if self.is_entry:
                    self.emit(("write", ("out", "whole"), v.label, v.deps, False))
        elif isinstance(st, ast.For):
            self.loop(st.target, st.iter, st.body)
        elif isinstance(st, ast.If):
            return self.branch(st, rest)
        elif isinstance(st, (ast.Continue, ast.Pass, ast.Break)):
            return
        elif isinstance(st, ast.Raise):
            return
        elif isinstance(st, ast.With):
            for it in st.items:
                self.eval(it.context_expr)
            self.body(st.body)
        elif isinstance(st, ast.Try):
            self.body(st.body)
            for h in st.handlers:
                self.body(h.body)
            self.body(st.finalbody)
        else:
            self.bad(f"statement {type(st).__name__} in {self.name}")

    def sub_block(self, what, fn_body):
        """run `fn_body()` emitting into a fresh block; returns its id"""
        saved = self.block
        self.block = self.tr.new_block(f"{self.name} / {what}")
        try:
            fn_body()
            return self.block
        finally:
            self.block = saved

    def drop_blocks_from(self, n):
        del self.tr.blocks[n:]
        for k in [k for k, v in self.tr.memo.items() if v[0] >= n]:
            del self.tr.memo[k]

    def has_steps(self, b0):
        return any(bl["steps"] for bl in self.tr.blocks[b0:])

    def branch(self, st, rest):
        cond = self.eval(st.test)
        if cond.tag in ("const:True", "const:False"):
            self.body(st.body if cond.tag == "const:True" else st.orelse)
            return
        ends = bool(st.body) and isinstance(st.body[-1], (ast.Continue, ast.Return)) and not st.orelse
        else_body = list(rest) if ends else st.orelse
        env0, ret0 = dict(self.env), self.ret
        n0 = len(self.tr.blocks)
        b_then = self.sub_block("then", lambda: self.body(st.body))
        env1, ret1 = self.env, self.ret
        self.env, self.ret = dict(env0), ret0
        b_else = self.sub_block("else", lambda: self.body(else_body))
        env2 = self.env
        self.env = {k: merge(env1.get(k), env2.get(k)) for k in set(env1) | set(env2)}
        self.ret = merge(ret1, self.ret) if (ret1 or self.ret) else None
        if not self.has_steps(n0):
            # no step under the condition: data flow only
            self.drop_blocks_from(n0)
        else:
            ctag = cond.tag if cond.tag in ("full", "weighted", "not:full", "not:weighted") else f"unknown:{ast.unparse(st.test)}"
            if ctag.startswith("not:"):
                ctag, b_then, b_else = ctag[4:], b_else, b_then
            self.emit(("branch", ctag, b_then, b_else))
        return "rest-consumed" if ends else None

    def loop_kind(self, it: AV):
        return {"groups": "groups", "datasets": "datasets", "global_axis": "globalAxis", "aligned_axis": "alignedAxis"}.get(it.tag)

    def bind_loop_target(self, target, it: AV, structural: bool):
        """abstract values of the loop variables"""
        el = it.elem or AV(deps=it.deps, label=it.label)
        self.bind_pattern(target, _bind_it(el, "cur" if structural else "all"))

    def bind_pattern(self, target, v: AV):
        if isinstance(target, ast.Name):
            self.env[target.id] = v if v.label else replace(v, label=target.id)
        elif isinstance(target, (ast.Tuple, ast.List)):
            for i, t in enumerate(target.elts):
                pv = v.parts
                self.bind_pattern(t, pv[i] if pv and i < len(pv) else AV(deps=v.deps, alias=v.alias, label=f"{v.label}#{i}" if v.label else ""))
        else:
            self.assign(target, v, None)

    def loop(self, target, iter_expr, body, comprehension_elt=None):
        it = self.eval(iter_expr)
        kd = _container_domain(it)
        if kd == "datasets":
            # iterating the dictionary itself gives its keys
            it = AV(tag="datasets", elem=AV(key="it", dom="datasets"))
        kind = self.loop_kind(it)
        env0 = dict(self.env)
        n0 = len(self.tr.blocks)
        result = [EMPTY]

        def run(structural):
            def once():
                if comprehension_elt is not None:
                    result[0] = self.eval(comprehension_elt)
                else:
                    self.body(body)

            def go():
                self.bind_loop_target(target, it, structural)
                # first pass (steps discarded): values carried around the loop reach their fixed point
                n1, saved = len(self.tr.blocks), self.block
                self.block = self.tr.new_block("scratch")
                try:
                    once()
                finally:
                    self.block = saved
                    self.drop_blocks_from(n1)
                once()
            return go

        if kind == "groups" and self.variant is None:
            # one body per kind of group: the providers of a group are all linked or all unlinked
            outs = []
            ids = []
            for variant in ("unlinked", "linked"):
                self.env = dict(env0)
                saved = self.variant
                self.variant = variant
                try:
                    ids.append(self.sub_block(f"group body ({variant})", run(True)))
                    if comprehension_elt is not None:
                        v = result[0]
                        self.tr.blocks[ids[-1]]["steps"].append(("write", ("groupLocal", "cur"), v.label, v.deps, _live(v)))
                finally:
                    self.variant = saved
                outs.append(dict(self.env))
            self.env = {k: merge(outs[0].get(k), outs[1].get(k)) for k in set(outs[0]) | set(outs[1])}
            b = self.tr.new_block(f"{self.name} / for group")
            self.tr.blocks[b]["steps"].append(("call", ids[0], ids[1]))
            self.emit(("loop", "groups", b))
            return AV(deps=(("groupLocal", "all"),), label="groupLocal")
        b = self.sub_block(f"for {ast.unparse(target)}", run(True))
        if kind is None and it.tag in ("megacomplexes", "global_megacomplexes") and self.has_steps(n0):
            # the calls of the megacomplexes of a dataset model: one step with a multiplicity instead of a loop
            steps = self.tr.blocks[b]["steps"]
            if len(self.tr.blocks) == b + 1 and all(st[0] == "ext" and st[2] != "once" for st in steps):
                self.drop_blocks_from(n0)
                for st in steps:
                    self.emit(st)
            else:
                self.drop_blocks_from(n0)
                self.bad(f"loop over megacomplexes with other steps than their calls in {self.name}")
            env1 = self.env
            self.env = {k: merge(env0.get(k), env1.get(k)) for k in set(env0) | set(env1)}
            return result[0]
        if self.has_steps(n0):
            if comprehension_elt is not None:
                self.bad(f"comprehension with effects in {self.name}")
            self.emit(("loop", kind or f"unknown:{ast.unparse(iter_expr)}", b))
            env1 = self.env
            self.env = {k: merge(env0.get(k), env1.get(k)) for k in set(env0) | set(env1)}
            return result[0]
        self.drop_blocks_from(n0)
        self.env = dict(env0)
        saved_block = self.block
        self.block = self.tr.new_block("scratch")
        try:
            run(False)()
            if self.has_steps(self.block):
                self.block = saved_block
                self.bad(f"loop with effects only when generalised in {self.name}")
        finally:
            self.drop_blocks_from(n0)
            self.block = saved_block
        env1 = self.env
        self.env = {k: merge(env0.get(k), env1.get(k)) for k in set(env0) | set(env1)}
        return result[0]

    # ---- targets --------------------------------------------------------------------------
    def container_of(self, node):
        """(cont, key) if `node` denotes (an entry of) a container directly: self._x, self._x[k], self._a._x[k]"""
        key = None
        n = node
        while isinstance(n, ast.Subscript):
            k = self.eval(n.slice)
            n = n.value
            key = k     # the outermost subscript applied first is the innermost node
        if isinstance(n, ast.Attribute):
            base = self.eval(n.value) if not (isinstance(n.value, ast.Name) and n.value.id == "self") else AV(obj=self.cls)
            if base.obj:
                cls = self.resolve_cls(base.obj) or base.obj
                cont = self.tr.src.owner_container(cls, n.attr)
                if cont:
                    return cont, key
                if self.tr.src.owner_object(cls, n.attr) or (cls, n.attr) == GROUP_LIST:
                    return f"unknown:{cls}.{n.attr}", key
                if self.tr.src.find(cls, n.attr)[1] is None:
                    return f"unknown:{cls}.{n.attr}", key
        return None, None

    def keykind(self, cont, key: AV | None):
        if key is None:
            return "whole"
        dom = DOMAIN.get(cont)
        if key.key and (key.dom == dom or dom is None):
            return key.key
        return "all?"

    def assign(self, target, v: AV, value_node):
        if isinstance(target, ast.Name):
            self.env[target.id] = v
            return
        if isinstance(target, (ast.Tuple, ast.List)):
            pv = v.parts
            for i, t in enumerate(target.elts):
                if pv and i < len(pv):
                    self.assign(t, pv[i], None)
                else:
                    self.assign(t, AV(deps=v.deps, alias=v.alias, label=f"{v.label}#{i}" if v.label else ""), None)
            return
        cont, key = self.container_of(target)
        if cont:
            kk = self.keykind(cont, key)
            if kk == "all?":
                self.bad(f"store into {cont} under a subscript the translator cannot classify ({ast.unparse(target)}) in {self.name}")
                return
            self.emit(("write", (cont, kk), v.label, v.deps, _live(v)))
            return
        # store through a local: x[...] = v, x.attr = v
        base = target.value if isinstance(target, (ast.Subscript, ast.Attribute)) else None
        if base is not None:
            b = self.eval(base)
            if b.alias:
                for ref in b.alias:
                    self.emit(("inplace", ref, f"store {ast.unparse(target)}"))
            root = base
            while isinstance(root, (ast.Subscript, ast.Attribute)):
                root = root.value
            if isinstance(root, ast.Name) and root.id in self.env:
                old = self.env[root.id]
                self.env[root.id] = replace(old, deps=_union(old.deps, v.deps), elem=merge(old.elem, replace(v, elem=None, parts=None)))
            return
        self.bad(f"assignment target {ast.unparse(target)} in {self.name}")

    def augassign(self, target, v: AV, op):
        if isinstance(target, ast.Name):
            old = self.env.get(target.id, EMPTY)
            for ref in old.alias:
                self.emit(("inplace", ref, f"{target.id} {type(op).__name__}="))
            self.env[target.id] = replace(old, deps=_union(old.deps, v.deps))
            return
        cont, key = self.container_of(target)
        if cont:
            kk = self.keykind(cont, key)
            if isinstance(op, ast.Add) and kk != "all?":
                self.emit(("append", (cont, kk), v.label, v.deps))
            else:
                self.emit(("inplace", (cont, kk), f"{ast.unparse(target)} {type(op).__name__}="))
            return
        base = self.eval(target.value) if isinstance(target, (ast.Subscript, ast.Attribute)) else EMPTY
        for ref in base.alias:
            self.emit(("inplace", ref, f"{ast.unparse(target)} {type(op).__name__}="))
        root = target
        while isinstance(root, (ast.Subscript, ast.Attribute)):
            root = root.value
        if isinstance(root, ast.Name) and root.id in self.env:
            old = self.env[root.id]
            self.env[root.id] = replace(old, deps=_union(old.deps, v.deps))

    # ---- expressions ----------------------------------------------------------------------
    def eval(self, node, want=None) -> AV:
        m = getattr(self, "e_" + type(node).__name__, None)
        if m is None:
            out = EMPTY
            for ch in ast.iter_child_nodes(node):
                if isinstance(ch, ast.expr):
                    out = AV(deps=_union(out.deps, self.eval(ch).deps))
            return out
        return m(node)

    def e_Constant(self, node):
        if node.value is True or node.value is False:
            return AV(tag=f"const:{node.value}")
        return EMPTY

    def e_Name(self, node):
        if node.id in self.env:
            return self.env[node.id]
        if node.id in self.tr.src.classes:
            return AV(obj=node.id, tag="class")
        return EMPTY

    def e_Attribute(self, node):
        if isinstance(node.value, ast.Name) and node.value.id == "self" and self.self_val is not None:
            owner, fn = self.tr.src.find(self.cls, node.attr)
            if fn is not None and node.attr in self.tr.src.props.get(owner, set()):
                return self.call_method(self.cls, node.attr, [], {}, self.self_val, self_val=self.self_val)
            return AV(deps=self.self_val.deps, alias=self.self_val.alias, label=node.attr)
        if isinstance(node.value, ast.Name) and node.value.id == "self":
            base = AV(obj=self.cls)
        else:
            base = self.eval(node.value)
        if base.obj and base.tag != "class":
            cls = self.resolve_cls(base.obj)
            if cls is None:
                return AV(deps=base.deps)
            cont = self.tr.src.owner_container(cls, node.attr)
            if cont:
                ref = (cont, "whole")
                return AV(deps=(ref,), alias=(ref,), label=node.attr, tag="container")
            fam = self.tr.src.owner_object(cls, node.attr)
            if fam:
                return AV(obj=fam)
            if (cls, node.attr) == GROUP_LIST:
                return AV(tag="groups", elem=AV(obj="OptimizationGroup"))
            owner, fn = self.tr.src.find(cls, node.attr)
            if fn is not None and node.attr in self.tr.src.props.get(owner, set()):
                return self.call_method(cls, node.attr, [], {}, base)
            # an attribute that holds no container of the machine: constant during an evaluation unless a step writes it
            return AV(label=node.attr, tag=_tag_for_attr(base.obj, node.attr))
        if node.attr == "label" and base.alias and all(c == "datasetModels" for c, _ in base.alias):
            k = base.alias[0][1]
            return AV(key=k if k != "whole" else "all", dom="datasets", label="label")
        if node.attr == "T":
            return replace(base, key=None)
        # attribute of a value: same provenance, still a live reference
        return AV(deps=base.deps, alias=base.alias, label=base.label, tag=base.tag if base.tag in ("groupdefs",) else None)

    def e_Subscript(self, node):
        base = self.eval(node.value)
        k = self.eval(node.slice)
        if base.tag == "container" and len(base.alias) == 1 and base.alias[0][1] == "whole":
            cont = base.alias[0][0]
            kk = self.keykind(cont, k)
            ref = (cont, "all" if kk == "all?" else kk)
            return AV(deps=_union((ref,), k.deps), alias=(ref,), label=base.label)
        if base.tag == "groupdefs":
            if k.tag == "grouplabel":
                return AV(tag="labels", elem=AV(key="members" if k.key == "cur" else "all", dom="datasets"))
            return AV(tag="labels", elem=AV(key="all", dom="datasets"))
        elem = base.elem
        out = AV(deps=_union(base.deps, k.deps), alias=base.alias, label=base.label)
        if elem is not None and not isinstance(node.slice, ast.Slice):
            out = replace(elem, deps=_union(elem.deps, out.deps), alias=_union(elem.alias, out.alias), label=out.label or elem.label)
        elif elem is not None:
            out = replace(out, elem=elem)
        return out

    def e_Tuple(self, node):
        vs = [self.eval(e) for e in node.elts]
        out = AV(deps=_union(*[v.deps for v in vs]), label=next((v.label for v in vs if v.label), ""))
        return replace(out, elem=_merge_all(vs), parts=tuple(vs))

    e_List = e_Tuple

    def e_IfExp(self, node):
        self.eval(node.test)
        a, b = self.eval(node.body), self.eval(node.orelse)
        m = merge(a, b)
        return replace(m, deps=_union(a.deps, b.deps), label=a.label or b.label)

    def e_BoolOp(self, node):
        vs = [self.eval(v) for v in node.values]
        return AV(deps=_union(*[v.deps for v in vs]), alias=_union(*[v.alias for v in vs]), label=next((v.label for v in vs if v.label), ""))

    def e_BinOp(self, node):
        a, b = self.eval(node.left), self.eval(node.right)
        # `[x] * n`: a list of the same objects
        elem = a.elem if isinstance(node.op, ast.Mult) and isinstance(node.left, ast.List) else None
        return AV(deps=_union(a.deps, b.deps), label="", elem=elem)

    def e_UnaryOp(self, node):
        v = self.eval(node.operand)
        if isinstance(node.op, ast.Not) and v.tag in ("full", "weighted"):
            return AV(deps=v.deps, tag=f"not:{v.tag}")
        return AV(deps=v.deps)

    def e_Compare(self, node):
        a = self.eval(node.left)
        others = [self.eval(c) for c in node.comparators]
        deps = _union(a.deps, *[o.deps for o in others])
        if len(node.ops) == 1 and isinstance(node.comparators[0], ast.Constant) and node.comparators[0].value is None:
            if a.tag == "weight":
                return AV(deps=deps, tag="weighted" if isinstance(node.ops[0], ast.IsNot) else "not:weighted")
        return AV(deps=deps)

    def _comprehension(self, node, elt):
        if len(node.generators) != 1:
            out = EMPTY
            for g in node.generators:
                out = AV(deps=_union(out.deps, self.eval(g.iter).deps))
            return out
        g = node.generators[0]
        saved = dict(self.env)
        if g.ifs:
            # conditions only filter: their reads count
            elt_node = ast.Tuple(elts=[elt] + list(g.ifs), ctx=ast.Load())
            v = self.loop(g.target, g.iter, None, comprehension_elt=elt_node)
            first = (v.parts or [v])[0]
            v = replace(first, deps=v.deps)
        else:
            v = self.loop(g.target, g.iter, None, comprehension_elt=elt)
        for k in list(self.env):
            if k not in saved:
                del self.env[k]
        return AV(deps=v.deps, alias=v.alias, label=v.label, elem=replace(v, elem=None) if v.tag != "container" else None)

    def e_ListComp(self, node):
        return self._comprehension(node, node.elt)

    e_GeneratorExp = e_ListComp
    e_SetComp = e_ListComp

    def e_DictComp(self, node):
        return self._comprehension(node, ast.Tuple(elts=[node.key, node.value], ctx=ast.Load()))

    def e_Call(self, node):
        f = node.func
        args = [self.eval(a) for a in node.args]
        kwargs = {k.arg: self.eval(k.value) for k in node.keywords if k.arg}
        allargs = args + list(kwargs.values())
        name = _name_of(f)
        if isinstance(f, ast.Attribute):
            recv_is_self = isinstance(f.value, ast.Name) and f.value.id == "self"
            recv = AV(obj=self.cls) if recv_is_self else self.eval(f.value)
            # ---- a method of one of the analysed classes
            if recv.obj:
                cls = recv.obj if recv.tag == "class" else self.resolve_cls(recv.obj)
                if cls is None:
                    return AV(deps=_union(*[a.deps for a in allargs]), label=name)
                if name in EXTERNAL and self.tr.src.find(cls, name)[1] is not None:
                    self.emit(("ext", EXTERNAL[name], "once"))
                    return AV(deps=_union(*[a.deps for a in allargs]), label=name)
                if self.tr.src.find(cls, name)[1] is not None:
                    return self.call_method(cls, name, args, kwargs, recv)
                # a callable attribute (`self._residual_function(...)`)
                return AV(deps=_union(*[a.deps for a in allargs]), label=name)
            # ---- a method of a value class defined in the analysed files (MatrixContainer)
            vcls = [c for c in self.tr.src.value_classes if name in self.tr.src.classes[c]]
            if len(vcls) == 1 and recv.tag != "container":
                if name in self.tr.src.static.get(vcls[0], set()):
                    return self.call_method(vcls[0], name, args, kwargs, AV(obj=vcls[0], tag="class"))
                return self.call_method(vcls[0], name, args, kwargs, recv, self_val=replace(recv, obj=None, tag=None))
            # ---- a method of a container / of a local that is a live reference to one
            targets = list(recv.alias)
            if name in EXTERNAL:
                mult = {"megacomplexes": "megacomplexes", "global_megacomplexes": "globalMegacomplexes"}.get(recv.tag, "once")
                self.emit(("ext", EXTERNAL[name], mult))
                return AV(deps=_union(recv.deps, *[a.deps for a in allargs]), label=name)
            if targets and name not in READ_ONLY_METHODS:
                for ref in targets:
                    if name in CLEAR_METHODS:
                        self.emit(("clear", ref))
                    elif name in APPEND_METHODS:
                        a0 = args[0] if args else EMPTY
                        self.emit(("append", ref, a0.label, _union(*[a.deps for a in allargs])))
                    else:
                        self.emit(("inplace", ref, f".{name}()"))
            root = f.value
            if isinstance(root, ast.Name) and root.id in self.env and not targets and name in (APPEND_METHODS | {"update", "add"}):
                old = self.env[root.id]
                el = merge(old.elem, _merge_all(args)) if args else old.elem
                self.env[root.id] = replace(old, deps=_union(old.deps, *[a.deps for a in allargs]), elem=el)
            if name in ("items",):
                kd = _container_domain(recv)
                if recv.tag == "groupdefs":
                    out = AV(tag="pairs")
                    pair = [AV(tag="grouplabel", key="all"), AV(tag="labels", elem=AV(key="all", dom="datasets"))]
                    return replace(out, elem=AV(parts=tuple(pair)))
                if kd:
                    cont = recv.alias[0][0]
                    ref = (cont, "it")
                    el = AV(deps=(ref,), alias=(ref,),
                            parts=(AV(key="it", dom=kd, label="label"), AV(deps=(ref,), alias=(ref,), label=cont)))
                    return AV(tag=kd if kd == "datasets" else None, elem=el)
            if name in ("values",):
                kd = _container_domain(recv)
                if kd:
                    ref = (recv.alias[0][0], "it")
                    return AV(tag=kd if kd == "datasets" else None, elem=AV(deps=(ref,), alias=(ref,)))
            if name in ("keys",):
                kd = _container_domain(recv)
                if kd:
                    return AV(tag=kd if kd == "datasets" else None, elem=AV(key="it", dom=kd))
            alias = recv.alias if name in (READ_ONLY_METHODS - {"copy", "count", "index", "all", "has", "to_dataframe"}) | VIEW_FUNCS else ()
            return AV(deps=_union(recv.deps, *[a.deps for a in allargs]), alias=alias, label=name)
        # ---- plain function
        if name in ("enumerate",) and args:
            a = args[0]
            kd = _container_domain(a)
            idx = AV(key="it", dom="aligned") if a.tag == "aligned_axis" or kd == "aligned" else AV()
            el = a.elem or AV(deps=a.deps, alias=a.alias, label=a.label)
            if kd == "aligned":
                ref = (a.alias[0][0], "it")
                el = AV(deps=(ref,), alias=(ref,))
            pair = AV(parts=(idx, el))
            return AV(deps=a.deps, tag=a.tag if a.tag in ("global_axis", "aligned_axis") else None, elem=pair)
        if name == "range" and args:
            a = args[-1] if len(args) == 1 else args[1]
            if a.tag == "aligned_axis":
                return AV(tag="aligned_axis", elem=AV(key="it", dom="aligned"))
            return AV(deps=_union(*[x.deps for x in args]))
        if name == "zip":
            pair = AV(parts=tuple(a.elem or AV(deps=a.deps, alias=a.alias) for a in args))
            return AV(deps=_union(*[a.deps for a in args]), elem=pair)
        if name == "has_dataset_model_global_model" and args and args[0].alias and all(c == "datasetModels" for c, _ in args[0].alias):
            return AV(deps=args[0].deps, tag="full")
        if name in ("iterate_dataset_model_megacomplexes", "iterate_dataset_model_global_megacomplexes"):
            tag = "megacomplexes" if name == "iterate_dataset_model_megacomplexes" else "global_megacomplexes"
            el = AV(parts=(AV(deps=args[0].deps, label="scale"), AV(deps=args[0].deps, alias=args[0].alias, label="megacomplex", tag=tag)))
            return AV(deps=args[0].deps, tag=tag, elem=el)
        alias = ()
        if name in REFERENCE_HOLDERS and len(args) > REFERENCE_HOLDERS[name]:
            alias = args[REFERENCE_HOLDERS[name]].alias
        elif name in VIEW_FUNCS:
            alias = _union(*[a.alias for a in args])
        elif name in ("list", "tuple", "dict", "sorted", "reversed") and args:
            # a new collection of the same objects
            return AV(deps=args[0].deps, alias=(), label=name, elem=args[0].elem, tag=args[0].tag if args[0].tag in ("datasets",) else None)
        return AV(deps=_union(*[a.deps for a in allargs]), alias=alias, label=name)

    def call_method(self, cls, name, args, kwargs, recv, self_val=None):
        """call of a method of an analysed class: its steps become a `call` of its block"""
        src = self.tr.src
        if recv.obj == "OptimizationGroup" and self.variant is None:
            raise Untranslatable("call on a group outside a loop over the groups")
        tag = _tag_for_method(cls, name)
        n0 = len(self.tr.blocks)
        try:
            b, ret = self.run_method(name, args, kwargs, cls=cls, self_val=self_val)
        except Untranslatable as e:
            self.bad(f"{cls}.{name}: {e}")
            return EMPTY
        if self.tr.blocks[b]["steps"] or any(bl["steps"] for bl in self.tr.blocks[b:b + 1]):
            self.emit(("call", b, b))
        if tag:
            ret = replace(ret, tag=tag, elem=_elem_for_tag(tag, ret))
        if tag == "grouplabel":
            ret = replace(ret, key=(args[0].key if args and args[0].dom == "aligned" else "all"))
        return ret


def _merge_all(vs):
    out = None
    for v in vs:
        out = merge(out, replace(v, elem=None)) if out is not None else replace(v, elem=None)
    return out


def _bind_it(v: AV, to: str) -> AV:
    """the key `it` (the variable of the loop being entered) becomes `cur` in a loop that is structure of the table and
    `all` in a loop that only collects values"""
    if v is None:
        return None
    g = lambda refs: tuple((c, to if k == "it" else k) for c, k in refs)   # noqa: E731
    return replace(v, deps=g(v.deps), alias=g(v.alias), key=(to if v.key == "it" else v.key),
                   parts=None if v.parts is None else tuple(_bind_it(p, to) for p in v.parts), elem=_bind_it(v.elem, to))


def _live(v: AV) -> bool:
    """does the value hold live references into a container (itself, or through its elements)"""
    return bool(v.alias) or (v.elem is not None and _live(v.elem)) or any(_live(p) for p in (v.parts or ()))


def _container_domain(v: AV):
    if v.tag == "container" and len(v.alias) == 1 and v.alias[0][1] == "whole":
        return DOMAIN.get(v.alias[0][0])
    return None


def _tag_for_attr(cls, attr):
    return None


def _tag_for_method(cls, name):
    if cls in ("DataProvider", "DataProviderLinked"):
        return {"get_global_axis": "global_axis", "aligned_global_axis": "aligned_axis", "group_definitions": "groupdefs",
                "get_aligned_group_label": "grouplabel", "get_weight": "weight", "get_aligned_weight": "weight",
                "get_flattened_weight": "flatweight"}.get(name)
    return None


def _elem_for_tag(tag, ret):
    return None


# ------------------------------------------------------------------------------------------
# rendering
# ------------------------------------------------------------------------------------------
def _s(text):
    return '"' + str(text).replace("\\", "\\\\").replace('"', '\\"').replace("\n", " ") + '"'


def _cont(c):
    return f"(.unknown {_s(c[8:])})" if c.startswith("unknown:") else f".{c}"


def _ref(r):
    c, k = r
    if k not in ("whole", "cur", "members", "all"):
        return f"⟨(.unknown {_s(str(c) + ' key ' + str(k))}), .whole⟩"
    return f"⟨{_cont(c)}, .{k}⟩"


def _refs(rs):
    return "[" + ", ".join(_ref(r) for r in rs) + "]"


def render_step(st):
    k = st[0]
    if k == "write":
        return f".write {_ref(st[1])} {_s(st[2])} {_refs(st[3])} {'true' if st[4] else 'false'}"
    if k == "clear":
        return f".clear {_ref(st[1])}"
    if k == "append":
        return f".append {_ref(st[1])} {_s(st[2])} {_refs(st[3])}"
    if k == "inplace":
        return f".inplace {_ref(st[1])} {_s(st[2])}"
    if k == "ext":
        return f".ext .{st[1]} .{st[2]}"
    if k == "call":
        return f".call {st[1]} {st[2]}"
    if k == "loop":
        lk = st[1]
        return f".loop {'(.unknown ' + _s(lk[8:]) + ')' if lk.startswith('unknown:') else '.' + lk} {st[2]}"
    if k == "branch":
        c = st[1]
        return f".branch {'(.unknown ' + _s(c[8:]) + ')' if c.startswith('unknown:') else '.' + c} {st[2]} {st[3]}"
    if k == "untranslatable":
        return f".untranslatable {_s(st[1])}"
    raise ValueError(st)


def compact(blocks, entries):
    """drop blocks that are not reachable from the entries and renumber"""
    reach, todo = [], list(entries)
    while todo:
        b = todo.pop(0)
        if b in reach:
            continue
        reach.append(b)
        for st in blocks[b]["steps"]:
            if st[0] == "call":
                todo += [st[1], st[2]]
            elif st[0] == "loop":
                todo.append(st[2])
            elif st[0] == "branch":
                todo += [st[2], st[3]]
    reach.sort()
    num = {b: i for i, b in enumerate(reach)}
    out = []
    for b in reach:
        steps = []
        for st in blocks[b]["steps"]:
            if st[0] == "call":
                st = ("call", num[st[1]], num[st[2]])
            elif st[0] == "loop":
                st = ("loop", st[1], num[st[2]])
            elif st[0] == "branch":
                st = ("branch", st[1], num[st[2]], num[st[3]])
            steps.append(st)
        out.append({"name": blocks[b]["name"], "steps": steps})
    return out, [num[e] for e in entries]


def extract(repo):
    src = Source(Path(repo))
    tr = Translator(src)
    try:
        blocks, obj, pen = tr.translate()
        blocks, (obj, pen) = compact(blocks, [obj, pen])
    except Untranslatable as e:
        blocks, obj, pen = [{"name": "untranslatable", "steps": [("untranslatable", str(e))]}], 0, 0
    except Exception as e:  # noqa: BLE001 — source the translator cannot digest must not crash the check
        blocks, obj, pen = [{"name": "untranslatable", "steps": [("untranslatable", f"{type(e).__name__}: {e}")]}], 0, 0
    return {"blocks": blocks, "objective": obj, "penalty": pen, "sha": src.sha}


def render_lean(table):
    lines = [
        "/-",
        "GENERATED by harness/props/c10.py (generate, translator harness/props/_c10_steps.py) from the source of VERIF_REPO — do not edit.",
        "Steps table of C10: per method of Optimizer / OptimizationGroup / DatasetGroup / MatrixProvider* / EstimationProvider* /",
        "DataProvider* reachable from `Optimizer.objective_function`, in program order: every overwrite / clear / append /",
        "in-place update of a container with the containers the written value was computed from, every call of another method",
        "(block numbers for an unlinked / a linked group), loops and branches as structure.",
        "-/",
        "import GlotaranModel.C10Steps",
        "namespace Glotaran.C10.Generated",
        "open Glotaran.C10.Steps",
        "",
        "def stepBlock : Nat → List Steps.Step",
    ]
    for i, b in enumerate(table["blocks"]):
        lines.append(f"  -- block {i}: {b['name']}")
        body = ",\n    ".join(render_step(s) for s in b["steps"])
        lines.append(f"  | {i} => [" + (body if body else "") + "]")
    lines.append('  | _ => [.untranslatable "no such block"]')
    lines += ["",
              "/-- block of `Optimizer.objective_function` -/", f"def objectiveBlock : Nat := {table['objective']}", "",
              "/-- block of `Optimizer.calculate_penalty` -/", f"def penaltyBlock : Nat := {table['penalty']}", "",
              "end Glotaran.C10.Generated", ""]
    return "\n".join(lines)


if __name__ == "__main__":
    import sys

    t = extract(sys.argv[1])
    print(render_lean(t))
