"""C16 — function-level translator: Python `ast` -> Lean (lean/GlotaranModel/Generated/C16Fns.lean).

The specification functions of glotaran (sanitize.py: convert_scientific_to_float, sanitize_parameter_list;
parameter.py: deserialize_options, _retrieve_item_from_list_by_type, Parameter.from_list; parameters.py:
flatten_parameter_dict, Parameters.from_list, Parameters.from_dict) are translated statement by statement into Lean
definitions over the value types of the model (Cell / Atom / Item / Node / Kids / Param), written in the vocabulary of
lean/GlotaranModel/C16Py.lean (Python's builtins on those types).  Props/C16.lean proves `generated_*_eq_model`: every
translated function equals the hand-written model definition for all inputs, so an edit of the source that changes
behaviour breaks a theorem; a behaviour-preserving rewrite inside the subset re-translates to a provably equal definition
only if the proof script is robust to it (simp normal forms), otherwise it too is reported as a broken obligation.

The subset: assignments, augmented assignment of lists (+=) and dicts (|=), `d[k] = v`, `p.label = v`, `x.remove(y)`,
if / elif / else with isinstance tests (type refinement of the tested name), truth tests of lists and optional dicts,
conditional expressions, f-strings, list / dict displays, list / generator / dict comprehensions, any / next / filter /
enumerate / str / float / list, `for` loops that accumulate (foldlM), that update a list in place element by element
(mapM), that yield (flatMap) and the loop over `dict.items()` of a nested dict with a recursive call (mutual structural
recursion), `return`, `yield`, calls of the other translated functions (in-place mutation of an argument is threaded
back to the caller's variable).  Anything else: the function (and every function calling it) is emitted as
`Py.Untranslatable "<reason>"`, which makes its `generated_*_eq_model` theorem fail to elaborate.

Trusted: the parameter types given to each function (SIGS), the table of builtins (this file), C16Py.lean.
"""
from __future__ import annotations

import ast
import hashlib

from harness import core

GEN_FILE = core.LEAN / "GlotaranModel" / "Generated" / "C16Fns.lean"

STR, NAT, FLT, BOOL, NONE, CELL, ATOM, ITEM, NODE, KIDS, TYS, PARAM = (
    "Str", "Nat", "Flt", "Bool", "None", "Cell", "Atom", "Item", "Node", "Kids", "Tys", "Param")


def L(t):
    return ("list", t)


def O(t):
    return ("opt", t)


def D(t):
    return ("dict", t)


def TUP(*ts):
    return ("tuple", tuple(ts))


def STREAM(t):
    return ("stream", t)


OPTS = D(CELL)
TRIPLE = TUP(STR, L(ATOM), O(OPTS))

LEAN_TY = {STR: "String", NAT: "Nat", FLT: "Flt", BOOL: "Bool", CELL: "Cell", ATOM: "Atom", ITEM: "Item", NODE: "Node",
           KIDS: "Kids", TYS: "List Py.Ty", PARAM: "Param"}


def paren(s: str) -> str:
    return s if " " not in s or s.startswith("(") and s.endswith(")") and s.count("(") == 1 else f"({s})"


def lean_ty(t) -> str:
    if isinstance(t, str):
        return LEAN_TY[t]
    k, a = t
    if k == "list":
        return f"List {paren(lean_ty(a))}"
    if k == "opt":
        return f"Option {paren(lean_ty(a))}"
    if k == "dict":
        return f"List (String × {lean_ty(a)})"
    if k == "tuple":
        return "(" + " × ".join(lean_ty(x) for x in a) + ")"
    if k == "stream":
        return f"List (Except Err {lean_ty(a)})"
    raise Untranslatable(f"type {t}")


# the functions, in dependency order: qualified name, source file, parameter types, result type
SIGS = [
    dict(name="convert_scientific_to_float", file="glotaran/utils/sanitize.py", params=[("value", STR)], ret=ATOM),
    dict(name="sanitize_parameter_list", file="glotaran/utils/sanitize.py", params=[("parameter_list", L(ATOM))], ret=L(ATOM)),
    dict(name="deserialize_options", file="glotaran/parameter/parameter.py", params=[("options", OPTS)], ret=OPTS),
    dict(name="_retrieve_item_from_list_by_type", lean="retrieve_item_from_list_by_type", file="glotaran/parameter/parameter.py",
         params=[("item_list", L(ATOM)), ("item_type", TYS), ("default", ATOM)], ret=ATOM),
    dict(name="Parameter.from_list", file="glotaran/parameter/parameter.py",
         params=[("values", L(ATOM)), ("default_options", O(OPTS))], ret=PARAM),
    dict(name="flatten_parameter_dict", file="glotaran/parameter/parameters.py", params=[("parameter_dict", KIDS)], yields=TRIPLE),
    dict(name="Parameters.from_list", file="glotaran/parameter/parameters.py", params=[("parameter_list", L(ITEM))], ret=L(PARAM)),
    dict(name="Parameters.from_dict", file="glotaran/parameter/parameters.py", params=[("parameter_dict", KIDS)], ret=L(PARAM)),
]
SOURCES = sorted({s["file"] for s in SIGS})

PY_TYPES = {"str": "Py.Ty.str", "int": "Py.Ty.int", "float": "Py.Ty.float", "bool": "Py.Ty.bool", "dict": "Py.Ty.dict",
            "list": "Py.Ty.list"}

# isinstance(v, T) as the test of an `if`: (type of v, T) -> pattern / type of v where the test holds, where it fails
REFINE = {
    (NODE, "dict"): (".group {v}", KIDS, None, None),
    (NODE, "list"): (".items {v}", L(ITEM), None, None),
    (ITEM, "list"): (".lst {v}", L(ATOM), ".bare {v}", ATOM),
    (ITEM, "dict"): (".bare (.opts {v})", OPTS, None, None),
    (ATOM, "str"): (".cell (.str {v})", STR, None, None),
    (ATOM, "dict"): (".opts {v}", OPTS, ".cell {v}", CELL),
}
ISINST = {CELL: "Py.Cell.isinst", ATOM: "Py.Atom.isinst", ITEM: "Py.Item.isinst"}
GLOBAL_TABLES = {"OPTION_NAMES_DESERIALIZED": "Generated.optionNamesDeserialized"}
RESERVED = {"from", "at", "end", "in", "do", "then", "else", "fun", "let", "have", "show", "open", "local", "instance", "where",
            "with", "match", "if", "def", "theorem", "example", "structure", "class", "inductive", "namespace", "section",
            "variable", "universe", "import", "deriving", "mutual", "private", "protected", "return", "for", "unless", "try",
            "catch", "finally", "type", "Type", "Prop", "Sort", "env"}


class Untranslatable(Exception):
    pass


def lid(name: str) -> str:
    return name + "'" if name in RESERVED else name


def lstr(s: str) -> str:
    out = ['"']
    for ch in s:
        if ch == '"':
            out.append('\\"')
        elif ch == "\\":
            out.append("\\\\")
        elif ch == "\n":
            out.append("\\n")
        elif ch == "\t":
            out.append("\\t")
        elif 32 <= ord(ch) < 127:
            out.append(ch)
        else:
            out.append("\\u{%x}" % ord(ch))
    out.append('"')
    return "".join(out)


PURE_TO = {
    CELL: {STR: "(Cell.str {t})", FLT: "(Cell.flt {t})", NAT: "(Cell.int (Int.ofNat {t}))", BOOL: "(Cell.bool {t})", NONE: "Cell.none"},
}


def can(frm, to) -> bool:
    """is there a pure injection frm -> to"""
    if frm == to:
        return True
    if isinstance(frm, tuple) and frm[1] == "?" and isinstance(to, tuple) and to[0] == frm[0]:
        return True
    if to == CELL:
        return frm in PURE_TO[CELL]
    if to == ATOM:
        return can(frm, CELL) or frm == OPTS or frm == D("?")
    if to == ITEM:
        return can(frm, ATOM) or frm == L(ATOM)
    if isinstance(to, tuple) and to[0] == "opt":
        return frm == NONE or can(frm, to[1])
    return False


def join(a, b):
    if a == b:
        return a
    for t in (a, b, CELL, ATOM, ITEM):
        if can(a, t) and can(b, t):
            return t
    raise Untranslatable(f"no common type of {a} and {b}")


class Fn:
    """what a call site needs to know about a translated function"""

    def __init__(self, sig):
        self.sig = sig
        self.name = sig["name"]
        self.lean = sig.get("lean", sig["name"].replace(".", "_"))
        self.params = sig["params"]
        self.gen = "yields" in sig
        self.ret = STREAM(sig["yields"]) if self.gen else sig["ret"]
        self.mutates: list[str] = []
        self.returns_self = False
        self.failed: str | None = None
        self.defaults: dict[str, ast.expr] = {}


class Cx:
    def __init__(self, fn: Fn, cls: str | None, fns: dict):
        self.fn, self.cls, self.fns = fn, cls, fns
        self.n = 0
        self.slot = None        # (list name, index name, element type) inside an in-place element update loop

    def fresh(self):
        self.n += 1
        return f"t{self.n}"


# ---------------------------------------------------------------------------------------------------
# rendering of do blocks
# ---------------------------------------------------------------------------------------------------
def render_item(it):
    kind, pat, term = it
    return f"let {pat} {'←' if kind == 'bind' else ':='} {term}"


def do(items, final: str) -> str:
    """a term of type `Except Err _`"""
    if not items:
        return f"({final})"
    return "(do " + "; ".join([render_item(i) for i in items] + [final]) + ")"


def pure_let(items, final: str) -> str:
    """a pure term: only `let` items"""
    for it in items:
        if it[0] == "bind":
            raise Untranslatable("an expression that can raise where a pure expression is required")
    out = final
    for kind, pat, term in reversed(items):
        out = f"(let {pat} := {term}; {out})"
    return out


def gen_wrap(items, rest: str) -> str:
    """statements inside a generator, followed by the generator term `rest`"""
    out = rest
    for kind, pat, term in reversed(items):
        if kind == "bind":
            out = f"(Py.genBind ({term}) (fun {pat} => {out}))"
        else:
            out = f"(let {pat} := {term}; {out})"
    return out


def tup(names):
    names = [lid(n) for n in names]
    return names[0] if len(names) == 1 else "(" + ", ".join(names) + ")"


# ---------------------------------------------------------------------------------------------------
# coercions
# ---------------------------------------------------------------------------------------------------
def coerce(cx, items, term, frm, to):
    if to is None or frm == to:
        return term
    if isinstance(frm, tuple) and frm[1] == "?" and isinstance(to, tuple) and to[0] == frm[0]:
        return term
    if to == CELL:
        if frm in PURE_TO[CELL]:
            return PURE_TO[CELL][frm].format(t=term)
        if frm == ATOM:
            t = cx.fresh()
            items.append(("bind", t, f"Py.asCell {term}"))
            return t
    if to == ATOM:
        if frm == OPTS or frm == D("?"):
            return f"(Atom.opts {term})"
        if can(frm, CELL):
            return f"(Atom.cell {coerce(cx, items, term, frm, CELL)})"
    if to == OPTS and frm == ATOM:
        t = cx.fresh()
        items.append(("bind", t, f"Py.asOpts {term}"))
        return t
    if to == ITEM:
        if frm == L(ATOM):
            return f"(Item.lst {term})"
        if can(frm, ATOM):
            return f"(Item.bare {coerce(cx, items, term, frm, ATOM)})"
    if isinstance(to, tuple) and to[0] == "opt":
        if frm == NONE:
            return "none"
        if can(frm, to[1]):
            return f"(some {coerce(cx, items, term, frm, to[1])})"
    raise Untranslatable(f"a value of type {frm} where {to} is required")


# ---------------------------------------------------------------------------------------------------
# expressions:  ex(node, env, cx, items) -> (term, type)    (statements that must run first are appended to items)
# ---------------------------------------------------------------------------------------------------
def dotted(n) -> str | None:
    if isinstance(n, ast.Name):
        return n.id
    if isinstance(n, ast.Attribute):
        b = dotted(n.value)
        return None if b is None else b + "." + n.attr
    return None


def types_of(n):
    """a type or a tuple of types as the second argument of isinstance"""
    if isinstance(n, ast.Name) and n.id in PY_TYPES:
        return [n.id]
    if isinstance(n, ast.Tuple) and all(isinstance(e, ast.Name) and e.id in PY_TYPES for e in n.elts):
        return [e.id for e in n.elts]
    return None


def ex(n, env, cx, items, expect=None):
    term, ty = ex0(n, env, cx, items, expect)
    if expect is not None:
        return coerce(cx, items, term, ty, expect), expect
    return term, ty


def comprehension_source(gens, env, cx, items):
    """`for v in it if c…` of a comprehension: (list term, bound variable pattern, environment inside, element type)"""
    if len(gens) != 1 or gens[0].is_async:
        raise Untranslatable("comprehension with several generators")
    g = gens[0]
    it, ity = iterable(g.iter, env, cx, items)
    pat, inner = bind_target(g.target, ity, env)
    for c in g.ifs:
        neg = False
        while isinstance(c, ast.UnaryOp) and isinstance(c.op, ast.Not):
            c, neg = c.operand, not neg
        # a positive isinstance filter on the bound name narrows the element type
        if (not neg and isinstance(c, ast.Call) and dotted(c.func) == "isinstance" and isinstance(c.args[0], ast.Name)
                and isinstance(g.target, ast.Name) and c.args[0].id == g.target.id and types_of(c.args[1]) == ["dict"]
                and ity == L(ITEM)):
            it, ity = f"({it}.filterMap Py.Item.dict?)", L(OPTS)
            pat, inner = bind_target(g.target, ity, env)
            continue
        sub = []
        ct, cty = ex(c, inner, cx, sub)
        ct = pure_let(sub, truthy(ct, cty))
        if neg:
            ct = f"(!{ct})"
        it = f"({it}.filter (fun {pat} => {ct}))"
    return it, pat, inner, ity[1]


def iterable(n, env, cx, items):
    """term and type (a list or stream type) of something iterated over"""
    if isinstance(n, ast.Call) and isinstance(n.func, ast.Attribute) and n.func.attr == "items" and not n.args:
        t, ty = ex(n.func.value, env, cx, items)
        if isinstance(ty, tuple) and ty[0] == "dict":
            return t, L(TUP(STR, ty[1]))
        raise Untranslatable(f".items() of a value of type {ty}")
    if isinstance(n, ast.Call) and dotted(n.func) == "enumerate":
        start = "0"
        for kw in n.keywords:
            if kw.arg == "start" and isinstance(kw.value, ast.Constant) and isinstance(kw.value.value, int):
                start = str(kw.value.value)
            else:
                raise Untranslatable("enumerate with an unknown keyword")
        if len(n.args) == 2 and isinstance(n.args[1], ast.Constant):
            start = str(n.args[1].value)
        t, ty = iterable(n.args[0], env, cx, items)
        if ty[0] != "list":
            raise Untranslatable("enumerate over a generator that can raise")
        return f"({t}.zipIdx {start})", L(("enum", ty[1]))
    t, ty = ex(n, env, cx, items)
    if isinstance(ty, tuple) and ty[0] in ("list", "stream"):
        return t, ty
    raise Untranslatable(f"iteration over a value of type {ty}")


def bind_target(target, ity, env):
    """pattern and inner environment for `for target in <iterable of type ity>`"""
    el = ity[1]
    inner = dict(env)
    if isinstance(el, tuple) and el[0] == "enum":
        if not (isinstance(target, ast.Tuple) and len(target.elts) == 2 and all(isinstance(e, ast.Name) for e in target.elts)):
            raise Untranslatable("enumerate without an (index, value) target")
        i, v = target.elts
        inner[i.id], inner[v.id] = NAT, el[1]
        return f"({lid(v.id)}, {lid(i.id)})", inner
    if isinstance(target, ast.Name):
        inner[target.id] = el
        return lid(target.id), inner
    if isinstance(target, ast.Tuple) and isinstance(el, tuple) and el[0] == "tuple" and len(el[1]) == len(target.elts) \
            and all(isinstance(e, ast.Name) for e in target.elts):
        for e, t in zip(target.elts, el[1]):
            inner[e.id] = t
        return "(" + ", ".join(lid(e.id) for e in target.elts) + ")", inner
    raise Untranslatable("loop target that does not match the element type")


def truthy(term, ty):
    if ty == BOOL:
        return term
    if isinstance(ty, tuple) and ty[0] in ("list", "dict"):
        return f"(!{term}.isEmpty)"
    if isinstance(ty, tuple) and ty[0] == "opt" and isinstance(ty[1], tuple) and ty[1][0] in ("list", "dict"):
        return f"(Py.truthyOpt {term}).isSome"
    raise Untranslatable(f"truth value of a {ty}")


def ex0(n, env, cx, items, expect):
    if isinstance(n, ast.Constant):
        v = n.value
        if isinstance(v, str):
            return lstr(v), STR
        if v is None:
            return "(none : Option Unit)", NONE
        if isinstance(v, bool):
            return ("true" if v else "false"), BOOL
        if isinstance(v, int) and v >= 0:
            return str(v), NAT
        raise Untranslatable(f"constant {v!r}")
    if isinstance(n, ast.Name):
        if n.id in env:
            return lid(n.id), env[n.id]
        if n.id in PY_TYPES:
            return f"[{PY_TYPES[n.id]}]", TYS
        raise Untranslatable(f"unknown name {n.id}")
    if isinstance(n, ast.Tuple):
        ts = types_of(n)
        if ts is not None:
            return "[" + ", ".join(PY_TYPES[t] for t in ts) + "]", TYS
        want = expect[1] if isinstance(expect, tuple) and expect[0] == "tuple" and len(expect[1]) == len(n.elts) else [None] * len(n.elts)
        parts = [ex(e, env, cx, items, w) for e, w in zip(n.elts, want)]
        return "(" + ", ".join(p[0] for p in parts) + ")", TUP(*[p[1] for p in parts])
    if isinstance(n, ast.Attribute):
        d = dotted(n)
        if d in ("np.nan", "numpy.nan", "math.nan"):
            return "Flt.nan", FLT
        if isinstance(n.value, ast.Name) and env.get(n.value.id) == PARAM and n.attr == "label":
            return f"{lid(n.value.id)}.label", STR
        raise Untranslatable(f"attribute {d or n.attr}")
    if isinstance(n, ast.JoinedStr):
        parts = []
        for v in n.values:
            if isinstance(v, ast.Constant):
                parts.append(lstr(v.value))
            elif isinstance(v, ast.FormattedValue) and v.conversion == -1 and v.format_spec is None:
                t, ty = ex(v.value, env, cx, items)
                parts.append(to_str(t, ty))
            else:
                raise Untranslatable("f-string with a conversion or format")
        return "(" + " ++ ".join(parts or ['""']) + ")", STR
    if isinstance(n, ast.BinOp) and isinstance(n.op, ast.Add):
        a, ta = ex(n.left, env, cx, items)
        b, tb = ex(n.right, env, cx, items)
        if ta == NAT and tb == NAT:
            return f"({a} + {b})", NAT
        if ta == STR and tb == STR:
            return f"({a} ++ {b})", STR
        if isinstance(ta, tuple) and ta[0] == "list":
            return f"({a} ++ {coerce(cx, items, b, tb, ta)})", ta
        raise Untranslatable(f"+ of {ta} and {tb}")
    if isinstance(n, ast.UnaryOp) and isinstance(n.op, ast.Not):
        t, ty = ex(n.operand, env, cx, items)
        return f"(!{truthy(t, ty)})", BOOL
    if isinstance(n, ast.BoolOp):
        parts = []
        for v in n.values:
            sub = []
            t, ty = ex(v, env, cx, sub)
            parts.append(pure_let(sub, truthy(t, ty)))
        return "(" + (" && " if isinstance(n.op, ast.And) else " || ").join(parts) + ")", BOOL
    if isinstance(n, ast.List):
        if not n.elts:
            return "[]", L("?")
        el = expect[1] if isinstance(expect, tuple) and expect[0] == "list" and expect[1] != "?" else None
        parts = [ex(e, env, cx, items, el) for e in n.elts]
        if el is None:
            el = parts[0][1]
            for p in parts[1:]:
                el = join(el, p[1])
            parts = [(coerce(cx, items, p[0], p[1], el), el) for p in parts]
        return "[" + ", ".join(p[0] for p in parts) + "]", L(el)
    if isinstance(n, ast.Dict):
        if not n.keys:
            return "[]", D("?")
        keys = []
        for k in n.keys:
            if not (isinstance(k, ast.Constant) and isinstance(k.value, str)):
                raise Untranslatable("dict display with a key that is not a string literal")
            keys.append(k.value)
        if len(set(keys)) != len(keys):
            raise Untranslatable("dict display with a repeated key")
        parts = []
        for v in n.values:
            t, ty = ex(v, env, cx, items)
            if ty == ATOM:          # keyword-argument dicts hold scalars (a dict there is outside the model)
                t, ty = coerce(cx, items, t, ty, CELL), CELL
            parts.append((t, ty))
        el = parts[0][1]
        for p in parts[1:]:
            el = join(el, p[1])
        parts = [coerce(cx, items, p[0], p[1], el) for p in parts]
        return "[" + ", ".join(f"({lstr(k)}, {p})" for k, p in zip(keys, parts)) + "]", D(el)
    if isinstance(n, ast.DictComp):
        it, pat, inner, _ = comprehension_source(n.generators, env, cx, items)
        sub = []
        k, kt = ex(n.key, inner, cx, sub, STR)
        v, vt = ex(n.value, inner, cx, sub)
        body = pure_let(sub, f"({k}, {v})")
        return f"(Py.dictOf ({it}.map (fun {pat} => {body})))", D(vt)
    if isinstance(n, (ast.ListComp, ast.GeneratorExp)):
        it, pat, inner, el = comprehension_source(n.generators, env, cx, items)
        if isinstance(n.elt, ast.Name) and isinstance(n.generators[0].target, ast.Name) and n.elt.id == n.generators[0].target.id:
            return it, L(el)
        sub = []
        t, ty = ex(n.elt, inner, cx, sub)
        if any(i[0] == "bind" for i in sub):
            r = cx.fresh()
            items.append(("bind", r, f"{it}.mapM (fun {pat} => {do(sub, 'pure ' + t)})"))
            return r, L(ty)
        return f"({it}.map (fun {pat} => {pure_let(sub, t)}))", L(ty)
    if isinstance(n, ast.IfExp):
        return if_expr(n, env, cx, items)
    if isinstance(n, ast.Subscript):
        t, ty = ex(n.value, env, cx, items)
        if isinstance(ty, tuple) and ty[0] == "list" and isinstance(n.slice, ast.Constant) and isinstance(n.slice.value, int) \
                and n.slice.value >= 0:
            r = cx.fresh()
            items.append(("bind", r, f"Py.index {t} {n.slice.value}"))
            return r, ty[1]
        raise Untranslatable("subscript other than list[constant]")
    if isinstance(n, ast.Call):
        return call(n, env, cx, items)
    raise Untranslatable(f"expression {type(n).__name__}")


def to_str(t, ty):
    if ty == STR:
        return t
    if ty == NAT:
        return f"(toString {t})"
    raise Untranslatable(f"str() of a {ty}")


def call(n, env, cx, items):
    f = dotted(n.func)
    if f == "isinstance" and len(n.args) == 2:
        ts = types_of(n.args[1])
        t, ty = ex(n.args[0], env, cx, items)
        if ts is None:
            tt, tty = ex(n.args[1], env, cx, items)
            if tty != TYS:
                raise Untranslatable("isinstance with an unknown type argument")
            tys = tt
        else:
            tys = "[" + ", ".join(PY_TYPES[x] for x in ts) + "]"
        if ty in ISINST:
            return f"({ISINST[ty]} {t} {tys})", BOOL
        if ty == STR:
            return ("true" if ts and "str" in ts else "false"), BOOL
        raise Untranslatable(f"isinstance of a value of type {ty} outside the test of an if")
    if f == "float" and len(n.args) == 1:
        t, ty = ex(n.args[0], env, cx, items)
        if ty != STR:
            raise Untranslatable(f"float() of a {ty}")
        r = cx.fresh()
        items.append(("bind", r, f"Py.float env {t}"))
        return r, FLT
    if f == "str" and len(n.args) == 1:
        t, ty = ex(n.args[0], env, cx, items)
        return to_str(t, ty), STR
    if f is not None and f.endswith("number_scientific.fullmatch") and len(n.args) == 1:
        # the model's scanner `sciMatch` is the pattern anchored at both ends (the whole string is the number)
        t, ty = ex(n.args[0], env, cx, items, STR)
        return f"(sciMatch {t})", BOOL
    if f is not None and f.endswith("number_scientific.match") and len(n.args) == 1:
        raise Untranslatable("number_scientific applied with match (prefix only): the model's scanner is the pattern "
                             "applied with fullmatch, a string with a number-like prefix (1e3x) would reach float()")
    if f == "any" and len(n.args) == 1 and isinstance(n.args[0], (ast.GeneratorExp, ast.ListComp)):
        g = n.args[0]
        it, pat, inner, _ = comprehension_source(g.generators, env, cx, items)
        sub = []
        t, ty = ex(g.elt, inner, cx, sub)
        return f"({it}.any (fun {pat} => {pure_let(sub, truthy(t, ty))}))", BOOL
    if f == "next" and len(n.args) == 2 and isinstance(n.args[1], ast.Constant) and n.args[1].value is None:
        t, ty = ex(n.args[0], env, cx, items)
        if ty[0] != "list":
            raise Untranslatable("next() of something that is not a generator expression")
        return f"{t}.head?", O(ty[1])
    if f == "list" and len(n.args) == 1:
        t, ty = ex(n.args[0], env, cx, items)
        if ty[0] != "list":
            raise Untranslatable(f"list() of a {ty}")
        return t, ty
    if f == "filter" and len(n.args) == 2 and isinstance(n.args[0], ast.Lambda) and len(n.args[0].args.args) == 1:
        lam = n.args[0]
        t, ty = ex(n.args[1], env, cx, items)
        if ty[0] != "list":
            raise Untranslatable(f"filter over a {ty}")
        v = lam.args.args[0].arg
        inner = dict(env)
        inner[v] = ty[1]
        sub = []
        c, cty = ex(lam.body, inner, cx, sub)
        return f"({t}.filter (fun {lid(v)} => {pure_let(sub, truthy(c, cty))}))", ty
    if isinstance(n.func, ast.Attribute) and n.func.attr == "copy" and not n.args:
        return ex(n.func.value, env, cx, items)
    if isinstance(n.func, ast.Attribute) and n.func.attr == "get" and len(n.args) == 2 and dotted(n.func.value) in GLOBAL_TABLES:
        k, _ = ex(n.args[0], env, cx, items, STR)
        d, _ = ex(n.args[1], env, cx, items, STR)
        return f"((lookup {GLOBAL_TABLES[dotted(n.func.value)]} {k}).getD {d})", STR
    if f == "cls" and cx.cls == "Parameter" and not n.args and len(n.keywords) == 1 and n.keywords[0].arg is None:
        t, ty = ex(n.keywords[0].value, env, cx, items, OPTS)
        r = cx.fresh()
        items.append(("bind", r, f"mkParam {t}"))
        return r, PARAM
    if f == "cls" and cx.cls == "Parameters" and len(n.args) == 1 and not n.keywords:
        t, ty = ex(n.args[0], env, cx, items)
        if ty not in (D(PARAM), D("?")):
            raise Untranslatable(f"Parameters() of a {ty}")
        r = cx.fresh()
        items.append(("bind", r, f"Py.parametersInit env {t}"))
        return r, L(PARAM)
    if f in cx.fns or (f == cx.fn.name):
        return user_call(cx.fn if f == cx.fn.name and f not in cx.fns else cx.fns[f], n, env, cx, items)
    raise Untranslatable(f"call of {f or type(n.func).__name__}")


def user_call(fn: Fn, n, env, cx, items):
    if fn.failed:
        raise Untranslatable(f"calls {fn.name}, which is not translated ({fn.failed})")
    given = {}
    for p, a in zip(fn.params, n.args):
        given[p[0]] = a
    for kw in n.keywords:
        if kw.arg is None or kw.arg in given or kw.arg not in dict(fn.params):
            raise Untranslatable(f"call of {fn.name} with unexpected keyword")
        given[kw.arg] = kw.value
    args, rebinds = [], []
    for pname, pty in fn.params:
        a = given.get(pname, fn.defaults.get(pname))
        if a is None:
            raise Untranslatable(f"call of {fn.name} without {pname}")
        t, _ = ex(a, env, cx, items, pty)
        args.append(t)
        if pname in fn.mutates:
            rebinds.append(lid(a.id) if isinstance(a, ast.Name) and env.get(a.id) == pty else "_")
    term = f"{fn.lean} env " + " ".join(args)
    if fn.gen:
        return f"({term})", fn.ret
    r = cx.fresh()
    if not fn.mutates:
        items.append(("bind", r, term))
        return r, fn.ret
    if fn.returns_self:
        if rebinds[0] != "_":
            items.append(("bind", rebinds[0], term))
            return rebinds[0], fn.ret
        items.append(("bind", r, term))
        return r, fn.ret
    items.append(("bind", "(" + ", ".join([r] + rebinds) + ")", term))
    return r, fn.ret


# ---------------------------------------------------------------------------------------------------
# conditions
# ---------------------------------------------------------------------------------------------------
def tr_cond(test, env, cx, items, then_fn, else_fn):
    """`if test then A else B` where A / B are produced by then_fn(env') / else_fn(env')"""
    neg = False
    while isinstance(test, ast.UnaryOp) and isinstance(test.op, ast.Not):
        test, neg = test.operand, not neg
    if neg:
        then_fn, else_fn = else_fn, then_fn
    if isinstance(test, ast.Call) and dotted(test.func) == "isinstance" and len(test.args) == 2 and isinstance(test.args[0], ast.Name) \
            and test.args[0].id in env:
        v = test.args[0].id
        ts = types_of(test.args[1])
        if ts is not None and len(ts) == 1 and (env[v], ts[0]) in REFINE:
            pp, pt, np_, nt = REFINE[(env[v], ts[0])]
            e1, e2 = dict(env), dict(env)
            e1[v] = pt
            if nt is not None:
                e2[v] = nt
            a, b = then_fn(e1), else_fn(e2)
            return f"(match {lid(v)} with | {pp.format(v=lid(v))} => {a} | {(np_ or '_').format(v=lid(v))} => {b})"
        if env[v] == NODE:
            raise Untranslatable("isinstance test of a dict value for a type other than dict / list")
    if isinstance(test, ast.Name) and isinstance(env.get(test.id), tuple) and env[test.id][0] == "opt" \
            and isinstance(env[test.id][1], tuple) and env[test.id][1][0] in ("list", "dict"):
        v = test.id
        e1 = dict(env)
        e1[v] = env[v][1]
        a, b = then_fn(e1), else_fn(dict(env))
        return f"(match Py.truthyOpt {lid(v)} with | some {lid(v)} => {a} | none => {b})"
    t, ty = ex(test, env, cx, items)
    a, b = then_fn(dict(env)), else_fn(dict(env))
    return f"(if {truthy(t, ty)} then {a} else {b})"


def if_expr(n, env, cx, items):
    def probe(node):
        def f(e):
            sub = []
            _, ty = ex(node, e, cx, sub)
            types.append(ty)
            return "_"
        return f
    types = []
    tr_cond(n.test, env, cx, [], probe(n.body), probe(n.orelse))
    ty = join(types[0], types[1])
    monadic = []

    def branch(node):
        def f(e):
            sub = []
            t, _ = ex(node, e, cx, sub, ty)
            if any(i[0] == "bind" for i in sub):
                monadic.append(True)
            return (sub, t)
        return f
    # first as data, to learn whether a branch can raise
    parts = {}

    def capture(key, node):
        def f(e):
            parts[key] = branch(node)(e)
            return f"⟦{key}⟧"
        return f
    skeleton = tr_cond(n.test, env, cx, items, capture("a", n.body), capture("b", n.orelse))
    if monadic:
        for key, (sub, t) in parts.items():
            skeleton = skeleton.replace(f"⟦{key}⟧", do(sub, "pure " + t))
        r = cx.fresh()
        items.append(("bind", r, skeleton))
        return r, ty
    for key, (sub, t) in parts.items():
        skeleton = skeleton.replace(f"⟦{key}⟧", pure_let(sub, t))
    return skeleton, ty


# ---------------------------------------------------------------------------------------------------
# statements
# ---------------------------------------------------------------------------------------------------
def has(node_or_list, kinds) -> bool:
    nodes = node_or_list if isinstance(node_or_list, list) else [node_or_list]
    for n in nodes:
        for x in ast.walk(n):
            if isinstance(x, kinds):
                return True
    return False


def assigned(stmts, cx) -> set:
    """names (re)bound by the statements, including variables mutated in place"""
    out = set()
    for s in stmts:
        for x in ast.walk(s):
            if isinstance(x, (ast.Assign, ast.AnnAssign, ast.AugAssign)):
                targets = x.targets if isinstance(x, ast.Assign) else [x.target]
                for t in targets:
                    if isinstance(t, ast.Name):
                        out.add(t.id)
                    elif isinstance(t, ast.Subscript) and isinstance(t.value, ast.Name):
                        out.add("elem__" if cx.slot and t.value.id == cx.slot[0] else t.value.id)
                    elif isinstance(t, ast.Attribute) and isinstance(t.value, ast.Name):
                        out.add(t.value.id)
                    elif isinstance(t, ast.Tuple):
                        out |= {e.id for e in t.elts if isinstance(e, ast.Name)}
            elif isinstance(x, ast.Call):
                f = dotted(x.func)
                if isinstance(x.func, ast.Attribute) and x.func.attr in ("remove", "append", "extend", "insert", "pop", "update", "sort") \
                        and isinstance(x.func.value, ast.Name):
                    out.add(x.func.value.id)
                fn = cx.fns.get(f)
                if fn is not None and fn.mutates:
                    for p, a in zip(fn.params, x.args):
                        if p[0] in fn.mutates and isinstance(a, ast.Name):
                            out.add(a.id)
            elif isinstance(x, ast.For):
                for e in ast.walk(x.target):
                    if isinstance(e, ast.Name):
                        out.add(e.id)
    return out


def stmt(s, env, cx, items):
    """one statement without `return` / `yield` inside; appends to items, updates env"""
    if isinstance(s, ast.Expr) and isinstance(s.value, ast.Constant) and isinstance(s.value.value, str):
        return
    if isinstance(s, ast.AnnAssign) and s.value is not None:
        s = ast.Assign(targets=[s.target], value=s.value)
    if isinstance(s, ast.Assign) and len(s.targets) == 1:
        tg = s.targets[0]
        if isinstance(tg, ast.Name):
            t, ty = ex(s.value, env, cx, items)
            if not (isinstance(s.value, ast.Name) and s.value.id == tg.id) and t != lid(tg.id):
                items.append(("let", lid(tg.id), t))
            env[tg.id] = ty
            return
        if isinstance(tg, ast.Subscript) and isinstance(tg.value, ast.Name):
            d = tg.value.id
            if cx.slot and d == cx.slot[0]:
                if not (isinstance(tg.slice, ast.Name) and tg.slice.id == cx.slot[1]):
                    raise Untranslatable("in-place update of another element than the current one")
                t, _ = ex(s.value, env, cx, items, cx.slot[2])
                items.append(("let", "elem__", t))
                return
            dty = env.get(d)
            if isinstance(dty, tuple) and dty[0] == "dict":
                k, _ = ex(tg.slice, env, cx, items, STR)
                v, vty = ex(s.value, env, cx, items, None if dty[1] == "?" else dty[1])
                items.append(("let", lid(d), f"Py.dictSet {lid(d)} {k} {v}"))
                env[d] = D(vty)
                return
            raise Untranslatable("subscript assignment to something that is not a dict")
        if isinstance(tg, ast.Attribute) and isinstance(tg.value, ast.Name) and env.get(tg.value.id) == PARAM and tg.attr == "label":
            t, _ = ex(s.value, env, cx, items, STR)
            items.append(("bind", lid(tg.value.id), f"Py.setLabel {lid(tg.value.id)} {t}"))
            return
        raise Untranslatable("assignment target")
    if isinstance(s, ast.AugAssign) and isinstance(s.target, ast.Name) and s.target.id in env:
        v = s.target.id
        ty = env[v]
        if isinstance(s.op, ast.Add) and isinstance(ty, tuple) and ty[0] == "list":
            t, _ = ex(s.value, env, cx, items, ty)
            items.append(("let", lid(v), f"{lid(v)} ++ {t}"))
            return
        if isinstance(s.op, ast.BitOr) and isinstance(ty, tuple) and ty[0] == "dict":
            t, _ = ex(s.value, env, cx, items, OPTS)
            if ty != OPTS:
                raise Untranslatable(f"|= on a dict of {ty[1]}")
            items.append(("let", lid(v), f"dictUpdate {lid(v)} {t}"))
            return
        raise Untranslatable("augmented assignment")
    if isinstance(s, ast.Expr) and isinstance(s.value, ast.Call) and isinstance(s.value.func, ast.Attribute) \
            and s.value.func.attr == "remove" and isinstance(s.value.func.value, ast.Name) and len(s.value.args) == 1:
        v = s.value.func.value.id
        ty = env.get(v)
        if isinstance(ty, tuple) and ty[0] == "list":
            t, _ = ex(s.value.args[0], env, cx, items, ty[1])
            items.append(("bind", lid(v), f"Py.remove {lid(v)} {t}"))
            return
        raise Untranslatable(".remove on something that is not a list")
    if isinstance(s, ast.If):
        return if_stmt(s, env, cx, items)
    if isinstance(s, ast.For) and not s.orelse:
        return for_stmt(s, env, cx, items)
    raise Untranslatable(f"statement {type(s).__name__}")


def if_stmt(s, env, cx, items):
    names = sorted(assigned(s.body, cx) | assigned(s.orelse, cx))
    for nm in names:
        if nm not in env:
            raise Untranslatable(f"{nm} is assigned in one branch of an if only")
    if not names:
        raise Untranslatable("an if without effect on any variable")
    finals = []

    def probe(stmts):
        def f(e):
            sub = []
            for x in stmts:
                stmt(x, e, cx, sub)
            finals.append([e[nm] for nm in names])
            return "_"
        return f
    tr_cond(s.test, env, cx, [], probe(s.body), probe(s.orelse))
    tys = [join(a, b) for a, b in zip(finals[0], finals[1])]

    def branch(stmts):
        def f(e):
            sub = []
            for x in stmts:
                stmt(x, e, cx, sub)
            outs = [coerce(cx, sub, lid(nm), e[nm], ty) for nm, ty in zip(names, tys)]
            return do(sub, "pure " + (outs[0] if len(outs) == 1 else "(" + ", ".join(outs) + ")"))
        return f
    term = tr_cond(s.test, env, cx, items, branch(s.body), branch(s.orelse))
    items.append(("bind", tup(names), term))
    for nm, ty in zip(names, tys):
        env[nm] = ty


def for_stmt(s, env, cx, items):
    # in-place, element-wise update of a list:  for i, v in enumerate(L): … L[i] = e …
    if isinstance(s.iter, ast.Call) and dotted(s.iter.func) == "enumerate" and len(s.iter.args) == 1 and not s.iter.keywords \
            and isinstance(s.iter.args[0], ast.Name) and isinstance(s.target, ast.Tuple) and len(s.target.elts) == 2 \
            and all(isinstance(e, ast.Name) for e in s.target.elts):
        lname, iname, vname = s.iter.args[0].id, s.target.elts[0].id, s.target.elts[1].id
        stores = [x for x in ast.walk(s) if isinstance(x, ast.Subscript) and isinstance(x.ctx, ast.Store)
                  and isinstance(x.value, ast.Name) and x.value.id == lname]
        if stores:
            lty = env.get(lname)
            if not (isinstance(lty, tuple) and lty[0] == "list"):
                raise Untranslatable("element update of something that is not a list")
            uses_l = [x for x in ast.walk(s) if isinstance(x, ast.Name) and x.id == lname]
            uses_i = [x for x in ast.walk(s) if isinstance(x, ast.Name) and x.id == iname]
            if len(uses_l) != len(stores) + 1 or len(uses_i) != len(stores) + 1 or cx.slot:
                raise Untranslatable("a loop that updates a list in place and also reads it")
            if assigned(s.body, Cx(cx.fn, cx.cls, cx.fns)) - {lname, vname} - {n for n in assigned(s.body, cx) if n not in env}:
                raise Untranslatable("a loop that updates a list in place and other variables")
            cx.slot = (lname, iname, lty[1])
            inner = dict(env)
            inner[vname] = lty[1]
            inner["elem__"] = lty[1]
            sub = [("let", "elem__", lid(vname))]
            try:
                for x in s.body:
                    stmt(x, inner, cx, sub)
            finally:
                cx.slot = None
            items.append(("bind", lid(lname), f"{lid(lname)}.mapM (fun {lid(vname)} => {do(sub, 'pure elem__')})"))
            return
    it, ity = iterable(s.iter, env, cx, items)
    state = sorted(n for n in assigned(s.body, cx) if n in env)
    if not state:
        raise Untranslatable("a loop without effect on any variable")
    sub = []
    if ity[0] == "stream":
        pat, inner = bind_target(s.target, L(ity[1]), env)
        sub.append(("bind", pat, "r__"))
        pat = "r__"
    else:
        pat, inner = bind_target(s.target, ity, env)
    # the types of the state variables must be stable over the loop: translate twice if the first pass changes them
    for _ in range(2):
        before = {n: inner[n] for n in state}
        trial, e = list(sub), dict(inner)
        for x in s.body:
            stmt(x, e, cx, trial)
        after = {n: e[n] for n in state}
        if after == before:
            break
        for n in state:
            inner[n] = after[n]
    else:
        raise Untranslatable("a loop that changes the type of a variable")
    outs = tup(state)
    items.append(("bind", outs, f"{it}.foldlM (fun {outs} {pat} => {do(trial, 'pure ' + outs)}) {outs}"))
    for n in state:
        env[n] = after[n]


def block(stmts, env, cx) -> str:
    """function body: a term of type `Except Err <result>`"""
    items = []
    for idx, s in enumerate(stmts):
        if isinstance(s, ast.Return):
            return do(items, ret_term(s, env, cx, items))
        if isinstance(s, ast.If) and has(s, ast.Return):
            if not (s.body and isinstance(s.body[-1], ast.Return)) or has(s.body[:-1], ast.Return):
                raise Untranslatable("an if whose body returns conditionally")
            rest = s.orelse + stmts[idx + 1:]
            term = tr_cond(s.test, env, cx, items, lambda e: block(s.body, e, cx), lambda e: block(rest, e, cx))
            return do(items, term)
        if has(s, ast.Return):
            raise Untranslatable("return inside a loop")
        stmt(s, env, cx, items)
    raise Untranslatable("a function body that can end without return")


def ret_term(s, env, cx, items) -> str:
    fn = cx.fn
    if s.value is None:
        raise Untranslatable("return without value")
    t, _ = ex(s.value, env, cx, items, fn.ret)
    if fn.mutates and not fn.returns_self:
        return "pure (" + ", ".join([t] + [lid(p) for p in fn.mutates]) + ")"
    return "pure " + t


def gblock(stmts, env, cx) -> str:
    """generator body: a term of type `List (Except Err <yielded>)`"""
    if not stmts:
        return "[]"
    s, rest = stmts[0], stmts[1:]
    yt = cx.fn.ret[1]
    if isinstance(s, ast.Expr) and isinstance(s.value, ast.Yield) and s.value.value is not None:
        items = []
        t, _ = ex(s.value.value, env, cx, items, yt)
        tail = gblock(rest, env, cx)
        return gen_wrap(items, f"[Except.ok {t}]" if tail == "[]" else f"([Except.ok {t}] ++ {tail})")
    if isinstance(s, ast.For) and has(s, ast.Yield) and not s.orelse:
        items = []
        it, ity = iterable(s.iter, env, cx, items)
        if ity[0] == "stream":
            pat, inner = bind_target(s.target, L(ity[1]), env)
            body = f"Py.genBind r__ (fun {pat} => {gblock(s.body, inner, cx)})"
            pat = "r__"
        else:
            pat, inner = bind_target(s.target, ity, env)
            body = gblock(s.body, inner, cx)
        tail = gblock(rest, dict(env), cx)
        term = f"({it}.flatMap (fun {pat} => {body}))"
        return gen_wrap(items, term if tail == "[]" else f"({term} ++ {tail})")
    if isinstance(s, ast.If) and has(s, ast.Yield):
        if rest:
            raise Untranslatable("statements after an if that yields")
        items = []
        term = tr_cond(s.test, env, cx, items, lambda e: gblock(s.body, e, cx), lambda e: gblock(s.orelse, e, cx))
        return gen_wrap(items, term)
    if has(s, (ast.Yield, ast.YieldFrom, ast.Return)):
        raise Untranslatable(f"yield inside {type(s).__name__}")
    items = []
    stmt(s, env, cx, items)
    return gen_wrap(items, gblock(rest, env, cx))


# ---------------------------------------------------------------------------------------------------
# functions
# ---------------------------------------------------------------------------------------------------
def find_def(tree, qual):
    parts = qual.split(".")
    body = tree.body
    node = None
    for i, p in enumerate(parts):
        node = next((x for x in body if isinstance(x, (ast.FunctionDef, ast.ClassDef)) and x.name == p), None)
        if node is None:
            return None
        body = node.body
    return node if isinstance(node, ast.FunctionDef) else None


def strip_doc(body):
    if body and isinstance(body[0], ast.Expr) and isinstance(body[0].value, ast.Constant) and isinstance(body[0].value.value, str):
        return body[1:]
    return body


def mutation_summary(fn: Fn, fd, cx):
    names = {p[0] for p in fn.params}
    rebound = {t.id for x in ast.walk(fd) if isinstance(x, ast.Assign) for t in x.targets if isinstance(t, ast.Name)}
    touched = set()
    for x in ast.walk(fd):
        if isinstance(x, ast.Subscript) and isinstance(x.ctx, ast.Store) and isinstance(x.value, ast.Name):
            touched.add(x.value.id)
        if isinstance(x, ast.AugAssign) and isinstance(x.target, ast.Name):
            touched.add(x.target.id)
        if isinstance(x, ast.Call) and isinstance(x.func, ast.Attribute) and isinstance(x.func.value, ast.Name) \
                and x.func.attr in ("remove", "append", "extend", "insert", "pop", "update", "sort", "clear"):
            touched.add(x.func.value.id)
        if isinstance(x, ast.Call) and dotted(x.func) in cx.fns and cx.fns[dotted(x.func)].mutates:
            g = cx.fns[dotted(x.func)]
            for p, a in zip(g.params, x.args):
                if p[0] in g.mutates and isinstance(a, ast.Name):
                    touched.add(a.id)
    fn.mutates = [p[0] for p in fn.params if p[0] in touched and p[0] not in rebound]
    rets = [x for x in ast.walk(fd) if isinstance(x, ast.Return)]
    fn.returns_self = (len(fn.mutates) == 1 and bool(rets)
                       and all(isinstance(r.value, ast.Name) and r.value.id == fn.mutates[0] for r in rets))


def translate(fn: Fn, fns: dict) -> str:
    src = (core.REPO / fn.sig["file"]).read_text()
    fd = find_def(ast.parse(src), fn.name)
    if fd is None:
        raise Untranslatable("definition not found")
    cls = fn.name.split(".")[0] if "." in fn.name else None
    cx = Cx(fn, cls, fns)
    a = fd.args
    if a.vararg or a.kwarg or a.posonlyargs:
        raise Untranslatable("star arguments")
    deco = [dotted(d) for d in fd.decorator_list]
    if any(d not in ("classmethod", "staticmethod") for d in deco):
        raise Untranslatable(f"decorator {deco}")
    pos = [x.arg for x in a.args]
    if cls and "staticmethod" not in deco:
        pos = pos[1:]
    allp = pos + [x.arg for x in a.kwonlyargs]
    if allp != [p[0] for p in fn.params]:
        raise Untranslatable(f"parameters {allp} (the translator knows {[p[0] for p in fn.params]})")
    for x, d in zip(a.args[len(a.args) - len(a.defaults):], a.defaults):
        fn.defaults[x.arg] = d
    for x, d in zip(a.kwonlyargs, a.kw_defaults):
        if d is not None:
            fn.defaults[x.arg] = d
    mutation_summary(fn, fd, cx)
    env = {p: t for p, t in fn.params}
    body = strip_doc(fd.body)
    params = " ".join(f"({lid(p)} : {lean_ty(t)})" for p, t in fn.params)
    if fn.gen != has(body, (ast.Yield, ast.YieldFrom)):
        raise Untranslatable("generator where a function is expected or the other way round")
    if fn.gen:
        # the loop over the items of a nested dict, with recursion into the values
        if not (fn.params[0][1] == KIDS and len(fn.params) == 1 and len(body) == 1 and isinstance(body[0], ast.For) and not body[0].orelse
                and isinstance(body[0].iter, ast.Call) and isinstance(body[0].iter.func, ast.Attribute) and body[0].iter.func.attr == "items"
                and isinstance(body[0].iter.func.value, ast.Name) and body[0].iter.func.value.id == fn.params[0][0]
                and isinstance(body[0].target, ast.Tuple) and len(body[0].target.elts) == 2
                and all(isinstance(e, ast.Name) for e in body[0].target.elts)):
            raise Untranslatable("a generator that is not one loop over the items of its dict argument")
        k, v = (e.id for e in body[0].target.elts)
        p = fn.params[0][0]
        if p in {x.id for x in ast.walk(ast.Module(body=body[0].body, type_ignores=[])) if isinstance(x, ast.Name)}:
            raise Untranslatable("the dict argument is used inside the loop over its items")
        inner = {k: STR, v: NODE}
        cx.fns = dict(fns)
        cx.fns[fn.name] = fn
        term = gblock(body[0].body, inner, cx)
        rt = lean_ty(fn.ret)
        return (f"mutual\n"
                f"/-- the body of the loop of `{fn.name}` for one `(key, value)` of the dict -/\n"
                f"def {fn.lean}_entry (env : Py.Env) ({lid(k)} : String) ({lid(v)} : Node) : {rt} :=\n  {term}\n"
                f"/-- `{fn.name}` ({fn.sig['file']}) -/\n"
                f"def {fn.lean} (env : Py.Env) ({lid(p)} : Kids) : {rt} :=\n"
                f"  match {lid(p)} with\n  | .nil => []\n"
                f"  | .cons {lid(k)} {lid(v)} rest => {fn.lean}_entry env {lid(k)} {lid(v)} ++ {fn.lean} env rest\nend\n")
    rt = lean_ty(fn.ret)
    if fn.mutates and not fn.returns_self:
        rt = "(" + " × ".join([rt] + [lean_ty(dict(fn.params)[m]) for m in fn.mutates]) + ")"
    term = block(body, env, cx)
    return (f"/-- `{fn.name}` ({fn.sig['file']})" + (f"; also returns the argument(s) it changes in place: {', '.join(fn.mutates)}" if fn.mutates and not fn.returns_self else "")
            + " -/\n" + f"def {fn.lean} (env : Py.Env) {params} : Except Err {paren(rt)} :=\n  {term}\n")


def render() -> tuple[str, dict]:
    fns: dict[str, Fn] = {}
    out = ["/- GENERATED by harness/props/_c16_fns.py from the source text of " + ", ".join(SOURCES) + " — do not edit.\n"
           "   Every definition is the Python function of the same name translated statement by statement (vocabulary:\n"
           "   GlotaranModel/C16Py.lean); `Py.Untranslatable` marks a function outside the translated subset. -/",
           "import GlotaranModel.C16Py\nset_option linter.unusedVariables false\nnamespace Glotaran.C16\nnamespace Generated.Fns\n"]
    status = {}
    for sig in SIGS:
        fn = Fn(sig)
        try:
            text = translate(fn, fns)
            status[fn.name] = "translated"
        except Untranslatable as e:
            fn.failed = str(e)
            status[fn.name] = "untranslatable: " + str(e)
            text = (f"/-- `{fn.name}` ({sig['file']}) could not be translated -/\n"
                    f"def {fn.lean} : Py.Untranslatable := ⟨{lstr(str(e))}⟩\n")
        except (SyntaxError, OSError, KeyError, AttributeError, IndexError, TypeError, ValueError) as e:
            fn.failed = f"{type(e).__name__}: {e}"
            status[fn.name] = "untranslatable: " + fn.failed
            text = (f"/-- `{fn.name}` ({sig['file']}) could not be translated -/\n"
                    f"def {fn.lean} : Py.Untranslatable := ⟨{lstr(fn.failed)}⟩\n")
        fns[fn.name] = fn
        if "." in fn.name:
            fns["cls." + fn.name.split(".")[1]] = fn       # `cls.from_list(...)` inside the class
        out.append(text)
    out.append("end Generated.Fns\nend Glotaran.C16\n")
    return "\n".join(out), status


def generate(ck):
    text, status = render()
    GEN_FILE.parent.mkdir(parents=True, exist_ok=True)
    if not GEN_FILE.exists() or GEN_FILE.read_text() != text:
        GEN_FILE.write_text(text)
    h = hashlib.sha1()
    for f in SOURCES:
        h.update((core.REPO / f).read_bytes())
    return {"table": "Fns (lean/GlotaranModel/Generated/C16Fns.lean): " + ", ".join(s["name"] for s in SIGS)
                     + " translated from the source text (python ast -> Lean)",
            "source": SOURCES, "source_sha1": h.hexdigest(), "sha1": hashlib.sha1(text.encode()).hexdigest(),
            "functions": status}


if __name__ == "__main__":
    t, st = render()
    print(t)
    for k, v in st.items():
        print("--", k, ":", v)
