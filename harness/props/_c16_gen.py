"""C16 — generators (every random choice from the rng handed in)."""
from __future__ import annotations

import math
import struct
from fractions import Fraction

from harness.props import c12 as x12
from harness.props._c16_real import D

SPECIAL = [0.0, -0.0, 5e-324, 2.2250738585072014e-308, 1.7976931348623157e308, -1.7976931348623157e308, 0.1 + 0.2,
           0.00017054887045275802, 1e22, 1e23, 9007199254740993.0, 123456789.12345678, 1 / 3, 1e-7, 1e16, 1e15, 0.1,
           100.0, 2.5e-5, 1e300, -1e-300, 4.35, 0.07, 1.0000000000000002, 0.9999999999999999, 299792458.0, 6.02214076e23]
NA_LABELS = ["NA", "null", "NULL", "NaN", "none"]
GROUPS = ["kinetic", "irf", "a", "b1", "osc.rates", "_x", "K", "rates.k", "s", "inputs", "scale.d1"]
TRICKY = ["x.e", "pi.x", "nan.1", "inf.a", "True.1", "NA.1", "k.NA", "k.null", "k.inf", "k.nan", "k.None", "e.1", "k.e",
          "a.none", "1.NaN", "abs.1", "k.maximum", "k.1e3", "1e3.k", "k.", ".k", "a..b", "N.A", "k.NULL", "id.x",
          "k.1e3x", "k.2e5_a", "1e3x.k"]      # short labels that only start like a scientific-notation number
SERIALIZED = {"expression": "expr", "maximum": "max", "minimum": "min", "non_negative": "non-negative",
              "standard_error": "standard-error"}


def rand_double(rng, regime: str) -> float:
    if regime == "dyadic":
        return rng.randint(-64, 64) / 2 ** rng.randint(0, 4)
    if regime == "int":
        return float(rng.randint(-5, 200))
    if regime == "special":
        return rng.choice(SPECIAL)
    if regime == "decimal":
        return round(rng.uniform(-100, 100), rng.randint(0, 6))
    if regime == "uniform":
        return rng.random() * rng.choice([1, 1, 1e-3, 1e3, -1])
    if regime == "full":
        while True:
            x = struct.unpack(">d", struct.pack(">Q", rng.getrandbits(64)))[0]
            if math.isfinite(x):
                return x
    raise AssertionError(regime)


def numeric_label(rng) -> str:
    k = rng.random()
    if k < 0.3:
        return f"{rng.randint(0, 99)}.{rng.choice(['0', '10', '50', '5', '00', '25', '100'])}"
    if k < 0.5:
        return "0" * rng.randint(0, 2) + str(rng.randint(0, 120))
    if k < 0.62:
        return f"{rng.randint(1, 9)}e{rng.randint(0, 5)}"
    if k < 0.7:
        return rng.choice([".5", "1.", "00", "0.0", "0", "1.0e3", "1_0", "0x1", "12", "1.2.3", "1E5", "5e1"])
    return str(rng.randint(1, 30))


def word_label(rng) -> str:
    g = rng.choice(GROUPS)
    k = rng.random()
    if k < 0.5:
        return f"{g}.{rng.randint(1, 12)}"
    if k < 0.7:
        return f"{g}.{numeric_label(rng)}"
    if k < 0.85:
        return f"{g}.{rng.choice(['center', 'width', 'k1', 'amp_2', 'T', 'x'])}"
    return rng.choice(["k", "amp", "center", "width_1", "B", "scale", "_t", "x0", "foo"])


def label_set(rng, n: int, shape: str):
    """n distinct valid labels; `shape` controls what the label *column* looks like to a type-inferring reader"""
    out = []
    guard = 0
    while len(out) < n and guard < 1000:
        guard += 1
        if shape == "numeric":
            l = numeric_label(rng)
        elif shape == "integer":
            l = str(rng.randint(0, 40)) if rng.random() < 0.8 else "0" * rng.randint(1, 2) + str(rng.randint(0, 9))
        elif shape == "nested":
            l = word_label(rng)
        elif shape == "tricky":
            l = rng.choice(TRICKY) if rng.random() < 0.7 else word_label(rng)
        elif shape == "na":
            l = rng.choice(NA_LABELS) if not out or rng.random() < 0.3 else word_label(rng)
        else:
            l = rng.choice([numeric_label, word_label, word_label])(rng)
        if l not in out:
            out.append(l)
    return out


def column_regime(rng, choices):
    return rng.choice(choices)


def make_expr(rng, refs, env):
    """(text, ast) of an expression over `refs` whose evaluation is exact on `env`, or None"""
    for _ in range(8):
        k = rng.random()
        r = lambda: ("ref", rng.choice(refs))
        lit = lambda: ("lit", rng.choice([2, 0.5, 1, 3, 0.25, 1.5, 4, 10, 100.0]))
        if not refs or k < 0.12:
            e = rng.choice([("lit", 1), ("lit", 2.5), ("lit", 2), ("add", ("lit", 1), ("lit", 0.5)), ("lit", 10), ("lit", 0.125)])
        elif k < 0.3:
            e = r()
        elif k < 0.5:
            e = (rng.choice(["mul", "add", "sub"]), r(), lit())
        elif k < 0.65:
            e = (rng.choice(["add", "sub", "mul"]), r(), r())
        elif k < 0.75:
            e = ("div", r(), ("lit", rng.choice([2, 4, 0.5])))
        elif k < 0.82:
            e = ("neg", r())
        elif k < 0.9:
            e = ("sub", ("lit", 1), r())
        elif k < 0.95:
            e = ("call1", "abs", (rng.choice(["sub", "add"]), r(), lit()))
        else:
            e = ("call2", rng.choice(["max", "min"]), r(), lit())
        try:
            v = x12.exact_eval(e, env)
        except x12.Unsupported:
            continue
        if v is None:
            continue
        text = x12.render(e, rng)
        try:
            if x12.norm_ast(x12.parse_expr(text)) != x12.norm_ast(e):
                continue
        except x12.Unsupported:
            continue
        return text, e, v
    return None


def param_set(rng, n=None, shape=None, with_expr=None):
    """list of keyword dicts for Parameters.from_parameter_dict_list: a valid parameter set"""
    if n is None:
        n = rng.choice([0, 1, 1, 2, 2, 3, 3, 4, 5, 6, 8])
    if shape is None:
        shape = rng.choice(["numeric", "numeric", "integer", "nested", "nested", "tricky", "mixed", "mixed"])
    labels = label_set(rng, n, shape)
    if with_expr is None:
        with_expr = rng.random() < 0.45
    vreg = column_regime(rng, ["int", "full", "full", "special", "decimal", "uniform", "mixed", "nan", "dyadic"])
    breg = column_regime(rng, ["none", "none", "finite", "mixed", "mixed", "zero", "ints", "odd"])
    sreg = column_regime(rng, ["nan", "nan", "float", "mixed", "zero"])
    freg = column_regime(rng, ["default", "random", "random", "alltrue", "allfalse"])
    dicts = []
    env = {}
    for i, l in enumerate(labels):
        d = {"label": l}
        if with_expr:
            v = rand_double(rng, "dyadic") if rng.random() < 0.8 else rand_double(rng, rng.choice(["special", "full"]))
        elif vreg == "mixed":
            v = rand_double(rng, rng.choice(["int", "full", "special", "decimal", "uniform"]))
        elif vreg == "nan":
            v = math.nan
        else:
            v = rand_double(rng, vreg)
        if not with_expr and rng.random() < 0.04:
            v = rng.choice([math.inf, -math.inf, math.nan])
        if vreg == "int" and math.isfinite(v) and rng.random() < 0.3:
            v = int(v)
        if not (isinstance(v, float) and math.isnan(v) and rng.random() < 0.5):
            d["value"] = v
        # bounds
        if breg == "finite" or (breg == "mixed" and rng.random() < 0.5):
            lo = rand_double(rng, rng.choice(["decimal", "special", "full", "int"]))
            hi = rand_double(rng, rng.choice(["decimal", "special", "full", "int"]))
            if rng.random() < 0.7:
                d["minimum"] = lo
            if rng.random() < 0.7:
                d["maximum"] = hi
        elif breg == "zero":
            d["minimum"] = 0.0 if rng.random() < 0.5 else 0
        elif breg == "ints":
            d["minimum"] = rng.randint(-5, 0)
            d["maximum"] = rng.randint(1, 1000)
        elif breg == "odd" and rng.random() < 0.5:
            d[rng.choice(["minimum", "maximum"])] = rng.choice([math.inf, -math.inf])
        # standard error
        if sreg == "float" or (sreg == "mixed" and rng.random() < 0.5):
            d["standard_error"] = abs(rand_double(rng, rng.choice(["uniform", "special", "decimal", "full"])))
        elif sreg == "zero":
            d["standard_error"] = 0.0
        if sreg != "nan" and rng.random() < 0.03:
            d["standard_error"] = math.inf
        # flags
        if freg == "random":
            if rng.random() < 0.5:
                d["vary"] = rng.random() < 0.5
            if rng.random() < 0.5:
                d["non_negative"] = rng.random() < 0.5
        elif freg == "alltrue":
            d["vary"], d["non_negative"] = True, True
        elif freg == "allfalse":
            d["vary"], d["non_negative"] = False, False
        dicts.append(d)
        fv = float(d.get("value", math.nan))
        env[l] = None if math.isnan(fv) else (Fraction(fv) if math.isfinite(fv) else "inf")
    asts = {}
    if with_expr and n:
        ereg = rng.choice(["some", "some", "all-but-one", "constants"])
        order = list(range(n))
        rng.shuffle(order)
        for rank, i in enumerate(order):
            if ereg == "some" and rng.random() < 0.55:
                continue
            if ereg == "all-but-one" and rank == 0:
                continue
            refs = [labels[j] for j in order[:rank] if env[labels[j]] not in (None, "inf")] if ereg != "constants" else []
            finite_env = {k: v for k, v in env.items() if v not in (None, "inf")}
            made = make_expr(rng, refs, finite_env)
            if made is None:
                continue
            text, e, v = made
            dicts[i]["expression"] = text
            asts[text] = e
            env[labels[i]] = v
        if any(v == "inf" for v in env.values()) and asts:
            for d in dicts:
                if "value" in d and isinstance(d["value"], float) and math.isinf(d["value"]):
                    d["value"] = 1.0
    return dicts, asts


# ------------------------------------------------------------------------------------------
# hand-written tables
# ------------------------------------------------------------------------------------------
HEADER_VARIANTS = {
    "label": ["label", "Label", "LABEL"],
    "value": ["value", "Value", "VALUE"],
    "standard_error": ["standard_error", "standard-error", "Standard-Error", "Standard_Error"],
    "expression": ["expression", "expr", "Expr", "Expression"],
    "maximum": ["maximum", "max", "Max", "Maximum", "MAX"],
    "minimum": ["minimum", "min", "Min", "Minimum"],
    "non_negative": ["non_negative", "non-negative", "Non-Negative", "Non_Negative"],
    "vary": ["vary", "Vary", "VARY"],
}


def num_cell(rng, x):
    if isinstance(x, int) and not isinstance(x, bool):
        return ["i", x]
    x = float(x)
    if math.isnan(x):
        return ["z"] if rng.random() < 0.7 else ["f", x]
    if math.isfinite(x) and x == int(x) and abs(x) < 1e15 and rng.random() < 0.4:
        return ["i", int(x)]
    return ["f", x]


def table_from_params(rng, tuples, fault=None, excel=False, variants=True):
    """(header as written, attribute names, rows of cells) for a hand-written table holding `tuples`"""
    attrs = ["label", "value"]
    optional = ["standard_error", "expression", "maximum", "minimum", "non_negative", "vary"]
    attrs += [a for a in optional if rng.random() < 0.6]
    if fault == "missing-label":
        attrs.remove("label")
    if fault == "missing-value":
        attrs.remove("value")
    rng.shuffle(attrs)
    header = [rng.choice(HEADER_VARIANTS[a]) if variants or rng.random() < 0.04 else a for a in attrs]
    int_bools = {a: rng.random() < 0.3 for a in ("non_negative", "vary")}
    rows = []
    for t in tuples:
        rec = dict(zip(["label", "value", "standard_error", "expression", "maximum", "minimum", "non_negative", "vary"], t))
        row = []
        for a in attrs:
            v = rec[a]
            if a == "label":
                row.append(["s", v])
            elif a == "expression":
                row.append(["z"] if v is None else ["s", v])
            elif a in ("non_negative", "vary"):
                row.append(["i", int(v)] if int_bools[a] else ["b", bool(v)])
            elif a in ("maximum", "minimum"):
                x = float(v)
                if math.isinf(x) and ((a == "maximum") == (x > 0)) and rng.random() < 0.8:
                    row.append(["z"] if rng.random() < 0.5 else ["s", ""])
                else:
                    row.append(num_cell(rng, v))
            else:
                row.append(num_cell(rng, v))
        rows.append(row)
    if fault == "unknown-column":
        header.append(rng.choice(["comment", "unit", "Note"]))
        for r in rows:
            r.append(["s", "x"])
        attrs.append("?")
    if rows and fault in ("junk-number", "na-bool", "float-bool", "str-bool", "bad-label", "reserved-label", "na-label",
                          "dup-label", "nan-bound", "int-label", "num-expression"):
        r = rng.choice(rows)
        col = lambda name: attrs.index(name) if name in attrs else None
        if fault == "junk-number":
            c = rng.choice([a for a in attrs if a in ("value", "maximum", "minimum")])
            r[col(c)] = ["s", rng.choice(["abc", "1,5", "1.5x", "--"])]
        elif fault in ("na-bool", "float-bool", "str-bool"):
            cs = [a for a in attrs if a in ("vary", "non_negative")]
            if cs:
                c = rng.choice(cs)
                r[col(c)] = {"na-bool": ["z"], "float-bool": ["f", 0.5], "str-bool": ["s", "yes"]}[fault]
        elif fault == "bad-label" and col("label") is not None:
            r[col("label")] = ["s", rng.choice(["a-b", "a b", "k/1", "é", "a,b", "a:b", "k.1 ", "$a"])]
        elif fault == "reserved-label" and col("label") is not None:
            r[col("label")] = ["s", rng.choice(["sin", "e", "pi", "max", "True", "inf", "parameters", "iteration", "abs"])]
        elif fault == "na-label" and col("label") is not None:
            r[col("label")] = rng.choice([["s", "NA"], ["s", "null"], ["z"], ["s", ""], ["s", "none"], ["s", "nan"], ["s", "N/A"]])
        elif fault == "dup-label" and col("label") is not None and len(rows) > 1:
            r[col("label")] = list(rows[0][col("label")])
        elif fault == "num-expression" and col("expression") is not None:
            r[col("expression")] = rng.choice([["i", 1], ["f", 2.5], ["b", True], ["f", float("nan")], ["i", 0]])
        elif fault == "nan-bound":
            cs = [a for a in attrs if a in ("maximum", "minimum")]
            if cs:
                r[col(rng.choice(cs))] = ["z"]
        elif fault == "int-label" and col("label") is not None:
            for rr in rows:
                rr[col("label")] = ["s", str(rng.randint(1, 50))]
    return header, rows


# ------------------------------------------------------------------------------------------
# specifications (arbitrary; correspondence stream)
# ------------------------------------------------------------------------------------------
SPEC_LABELS = ["k1", "amp", "1", "2", "10", "1.10", "007", "x_1", "T", "foo", "center", "e", "sin", "a-b", "", "1e3", "2E-1",
               "1e5x", ".5e1", "1.e5", "e5", "+1e2", "1e+", "null", "NA", "none", "k.1", "b"]
SPEC_KEYS = ["a", "b", "kinetic", "irf", "1", "10", "2.5", "k_1", "osc", "x", "a-b", "rates", "007"]


def rand_opts(rng, allow_bad=True):
    pairs = []
    names = ["vary", "non-negative", "non_negative", "min", "minimum", "max", "maximum", "expr", "expression",
             "standard-error", "standard_error"]
    for name in rng.sample(names, rng.choice([0, 1, 1, 2, 2, 3])):
        base = {"non-negative": "non_negative", "min": "minimum", "max": "maximum", "expr": "expression",
                "standard-error": "standard_error"}.get(name, name)
        if base in ("vary", "non_negative"):
            v = rng.random() < 0.5
        elif base in ("minimum", "maximum"):
            v = rng.choice([0, 1, -1.5, 100.0, 1e-3, math.inf, -math.inf, 5, 2.5])
            if allow_bad and rng.random() < 0.04:
                v = rng.choice(["1e5", "x", None])
        elif base == "expression":
            # constants written in scientific notation: an expression is a text, never converted to a number
            v = rng.choice(["2", "1 + 1.5", "0.5", None, "3 * 2", "1e3", "2.5E-1", "5e-1", "1.5e+2"])
        else:
            v = rng.choice([0.1, 1e-3, 2, 0.0])
        pairs.append((name, v))
    if allow_bad and rng.random() < 0.03:
        pairs.append((rng.choice(["bogus", "Vary", "unit"]), 1))
    if rng.random() < 0.04:
        pairs.append(("label", rng.choice(["zz", "q1"])))
    if rng.random() < 0.04:
        pairs.append(("value", rng.choice([4, 2.5])))
    return D(pairs)


def rand_number(rng):
    k = rng.random()
    if k < 0.35:
        return rng.randint(-3, 50)
    if k < 0.8:
        return rand_double(rng, rng.choice(["decimal", "dyadic", "special", "uniform", "full"]))
    if k < 0.86:
        return rng.choice([math.nan, math.inf, -math.inf])
    return float(rng.randint(0, 9))


def rand_sci(rng):
    return rng.choice(["1e3", "2E-1", "1.5e+2", "-3e2", ".5e1", "+1e2", "1e5x", "1.e5", "e5", "1e+", "1e-7", "6.02e23", "12e0",
                       "1e400", "0e0", "1e3 ", " 1e3", "1_0e2", "1e3e4", "1e-400"])


def rand_definition(rng):
    atoms = []
    if rng.random() < 0.6:
        atoms.append(rng.choice(SPEC_LABELS))
    if rng.random() < 0.85:
        atoms.append(rand_number(rng) if rng.random() < 0.85 else rand_sci(rng))
    if rng.random() < 0.45:
        atoms.append(rand_opts(rng))
    if rng.random() < 0.12:
        atoms.append(rng.choice([None, rand_number(rng), rng.choice(SPEC_LABELS), rand_opts(rng), rand_sci(rng)]))
    rng.shuffle(atoms)
    return atoms


def rand_items(rng):
    items = []
    for _ in range(rng.choice([0, 1, 2, 2, 3, 4, 6])):
        k = rng.random()
        if k < 0.3:
            items.append(rand_number(rng))
        elif k < 0.36:
            items.append(rand_sci(rng))
        elif k < 0.42:
            items.append(rng.choice(SPEC_LABELS))
        elif k < 0.45:
            items.append(None)
        elif k < 0.6:
            items.append(rand_opts(rng))
        else:
            items.append(rand_definition(rng))
    return items


def rand_group(rng, depth):
    pairs = []
    keys = rng.sample(SPEC_KEYS, rng.choice([1, 1, 2, 3]))
    for k in keys:
        if rng.random() < 0.12:
            k = rng.choice([1, 2, 10, 2.5]) if rng.random() < 0.8 else k
        r = rng.random()
        if depth < 3 and r < 0.3:
            v = rand_group(rng, depth + 1)
        elif r < 0.95:
            v = rand_items(rng)
        else:
            v = rng.choice([5, "x", None, 1.5])
        if all(f"{k}" != f"{k2}" for k2, _ in pairs):
            pairs.append((k, v))
    return D(pairs)


# ------------------------------------------------------------------------------------------
# intents: what the author of a specification means; rendered in many styles
# ------------------------------------------------------------------------------------------
# "1e3x", "2e5_k", "1e3_4": valid labels with a number-like prefix (convert_scientific_to_float has to leave them alone: fullmatch;
# float("1e3_4") is 1e34, so a prefix match would silently turn that label into a value)
INTENT_LABELS = ["k1", "amp", "center", "width", "x_1", "T", "foo", "b", "q", "kappa", "1.10", "007", "2.50", "k.1", "e", "pi",
                 "1e3x", "2e5_k", "1e3_4"]
INTENT_GROUPS = ["a", "b", "kinetic", "irf", "osc", "rates", "1", "10", "2", "k_1", "x", "007", "1.10"]


def intent_value(rng):
    k = rng.random()
    if k < 0.3:
        return float(rng.randint(-3, 50))
    if k < 0.9:
        return rand_double(rng, rng.choice(["decimal", "dyadic", "special", "uniform", "full"]))
    return rng.choice([math.nan, math.inf])


def intent_options(rng):
    o = {}
    if rng.random() < 0.3:
        o["vary"] = rng.random() < 0.5
    if rng.random() < 0.25:
        o["non_negative"] = rng.random() < 0.5
    if rng.random() < 0.25:
        o["minimum"] = rng.choice([0, -1.5, 1e-3, -math.inf, 0.0, -5])
    if rng.random() < 0.25:
        o["maximum"] = rng.choice([1, 100.0, 1e3, math.inf, 5, 2.5])
    if rng.random() < 0.1:
        o["standard_error"] = rng.choice([0.1, 1e-3, 0.0])
    return o


def make_intent(rng, flat=None, reserved_ok=False):
    """{"flat": bool, "groups": [{"path": [...], "defaults": opts|None, "defaults_at": i, "params": [...]}]}
    param: {"label": str|None, "value": float, "opts": {...}, "style": ..., "names": serialized|attr per key}"""
    if flat is None:
        flat = rng.random() < 0.3
    groups = []
    paths = [[]] if flat else []
    if not flat:
        tops = rng.sample(INTENT_GROUPS, rng.choice([1, 2, 2, 3]))
        for t in tops:
            if rng.random() < 0.3:
                for s in rng.sample(INTENT_GROUPS, rng.choice([1, 2])):
                    if rng.random() < 0.25:
                        paths.append([t, s, rng.choice(INTENT_GROUPS)])
                    else:
                        paths.append([t, s])
            else:
                paths.append([t])
    for path in paths:
        n = rng.choice([1, 2, 2, 3, 4, 5])
        params = []
        used = set()
        for _ in range(n):
            label = None
            if rng.random() < 0.5:
                pool = [l for l in INTENT_LABELS if l not in used and (reserved_ok or l not in ("e", "pi"))
                        and (not flat or l not in ("e", "pi"))]
                label = rng.choice(pool)
                used.add(label)
            value = intent_value(rng)
            opts = intent_options(rng)
            styles = ["list"]
            if label is None and not opts:
                styles += ["bare", "bare"]
                if math.isfinite(value):
                    styles += ["bare-sci"]
            style = rng.choice(styles)
            params.append({"label": label, "value": value, "opts": opts, "style": style,
                           "sci": style == "list" and math.isfinite(value) and rng.random() < 0.2,
                           "order": rng.sample(["label", "value", "opts"], 3),
                           "serialized": {k: rng.random() < 0.6 for k in opts}})
        defaults = intent_options(rng) if rng.random() < 0.4 else None
        groups.append({"path": path, "defaults": defaults, "defaults_at": rng.randint(0, n),
                       "defaults_serialized": {k: rng.random() < 0.6 for k in (defaults or {})}, "params": params})
    # expressions referring to other groups (values dyadic so that evaluation is exact)
    intent = {"flat": flat, "groups": groups}
    if rng.random() < 0.5:
        add_intent_expressions(rng, intent)
    if rng.random() < 0.15:
        add_sci_constant_expressions(rng, intent)
    return intent


# expressions whose whole text is a number in scientific notation (dyadic values: exact regime)
SCI_CONSTANT_EXPRESSIONS = ["1e3", "2.5E-1", "5e-1", "1.5e+2", "2E0", "1.25e-1", "5E2", "1e0", "+1e2", ".5e1", "7.5e-01"]


def add_sci_constant_expressions(rng, intent):
    """the corner "scientific-notation strings" x "expressions": a constant expression written like 1e3, in the own
    options of a parameter or in the default block of a group (then it holds for every parameter without an own one)"""
    labels = [full for _, _, full in intent_labels(intent)]
    if not labels or len(set(labels)) != len(labels):
        return
    g = rng.choice(intent["groups"])
    text = rng.choice(SCI_CONSTANT_EXPRESSIONS)
    if rng.random() < 0.4:
        if g["defaults"] is None:
            g["defaults"] = {}
            g["defaults_serialized"] = {}
        g["defaults"]["expression"] = text
        g["defaults_serialized"]["expression"] = rng.random() < 0.6
        return
    p = rng.choice(g["params"])
    if "expression" in p["opts"]:
        return
    p["opts"]["expression"] = text
    p["serialized"]["expression"] = rng.random() < 0.6
    p["style"] = "list"
    p["sci"] = p.get("sci", False) and math.isfinite(p["value"])
    p["ast"] = x12.parse_expr(text)


def sci_text(rng, v: float) -> str:
    s = f"{v:.17e}"
    k = rng.random()
    if k < 0.3:
        m, e = s.split("e")
        m = m.rstrip("0")
        if m.endswith("."):
            m += "0"
        s2 = f"{m}E{int(e)}" if rng.random() < 0.5 else f"{m}e{int(e):+d}"
        if float(s2) == v:
            return s2
    r = repr(v)
    if "e" in r and rng.random() < 0.5:
        return r
    return s


def intent_labels(intent):
    """[(group index, param index, full label)] with automatic numbers resolved"""
    out = []
    for gi, g in enumerate(intent["groups"]):
        for pi, p in enumerate(g["params"]):
            short = p["label"] if p["label"] is not None else str(pi + 1)
            out.append((gi, pi, ".".join(g["path"] + [short])))
    return out


def add_intent_expressions(rng, intent):
    labels = intent_labels(intent)
    if len(labels) < 2:
        return
    seen = set()
    for gi, pi, full in labels:
        if full in seen:
            return          # duplicates: keep the intent free of expressions
        seen.add(full)
    for g in intent["groups"]:
        if g["defaults"] and ("vary" in g["defaults"]):
            pass
    env = {}
    order = list(range(len(labels)))
    rng.shuffle(order)
    for rank, idx in enumerate(order):
        gi, pi, full = labels[idx]
        p = intent["groups"][gi]["params"][pi]
        if rank > 0 and rng.random() < 0.4 and env:
            made = make_expr(rng, list(env), env)
            if made:
                text, e, v = made
                p["opts"]["expression"] = text
                p["serialized"]["expression"] = rng.random() < 0.6
                p["style"] = "list"
                p["ast"] = e
                p["value"] = float(v)       # what the author would write down (stale or not does not matter)
                if rng.random() < 0.5:
                    p["value"] = rand_double(rng, "dyadic")
                env[full] = v
                continue
        p["value"] = rand_double(rng, "dyadic")
        env[full] = Fraction(p["value"])


def render_opts(opts: dict, serialized: dict) -> D:
    return D([((SERIALIZED.get(k, k) if serialized.get(k) else k), v) for k, v in opts.items()])


def render_intent(rng_free_intent):
    """the specification (D / list) an intent stands for — deterministic in the intent"""
    it = rng_free_intent

    def items_of(g):
        items = []
        for p in g["params"]:
            if p["style"] == "bare":
                v = p["value"]
                items.append(int(v) if p.get("as_int") else v)
            elif p["style"] == "bare-sci":
                items.append(p["text"])
            else:
                parts = {}
                if p["label"] is not None:
                    parts["label"] = p["label"]
                if not (isinstance(p["value"], float) and math.isnan(p["value"]) and p.get("omit_nan")):
                    parts["value"] = p["text"] if p["sci"] else p["value"]
                if p["opts"]:
                    parts["opts"] = render_opts(p["opts"], p["serialized"])
                items.append([parts[k] for k in p["order"] if k in parts])
        if g["defaults"] is not None:
            items.insert(min(g["defaults_at"], len(items)), render_opts(g["defaults"], g["defaults_serialized"]))
        return items

    if it["flat"]:
        return items_of(it["groups"][0])
    root = D([])

    def insert(node: D, path, items):
        for i, (k, v) in enumerate(node.pairs):
            if k == path[0]:
                if len(path) == 1:
                    return False
                if not isinstance(v, D):
                    return False
                return insert(v, path[1:], items)
        if len(path) == 1:
            node.pairs.append((path[0], items))
        else:
            child = D([])
            node.pairs.append((path[0], child))
            insert(child, path[1:], items)
        return True

    kept = []
    for g in it["groups"]:
        if insert(root, g["path"], items_of(g)):
            kept.append(g)
    it["groups"] = kept
    return root


def finish_intent(rng, intent):
    """fix the texts of scientific-notation renderings (needs the rng once)"""
    for g in intent["groups"]:
        for p in g["params"]:
            if p["style"] == "bare-sci" or p["sci"]:
                p["text"] = sci_text(rng, p["value"])
            v = p["value"]
            p["as_int"] = p["style"] == "bare" and math.isfinite(v) and v == int(v) and abs(v) < 1e6 and rng.random() < 0.6
            p["omit_nan"] = rng.random() < 0.5
    return intent


def expected_of(intent):
    """the programmatic construction: [(full label, kwargs)] in declaration order"""
    out = []
    for g in intent["groups"]:
        for pi, p in enumerate(g["params"]):
            short = p["label"] if p["label"] is not None else str(pi + 1)
            kw = {"value": float(p["value"])}
            kw.update(g["defaults"] or {})
            kw.update(p["opts"])
            out.append((".".join(g["path"] + [short]), kw))
    return out
