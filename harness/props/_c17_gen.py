"""C17 generators: builtin-megacomplex models (every item type), datasets, JSON coding of python trees.

Everything is JSON-able so that cases can be stored in replays / corpus:
  tuple            -> {"__t__": [...]}
  tuple-keyed dict -> {"__tk__": [[[a, b], value], ...]}
  +-inf / nan      -> {"__f__": "inf" | "-inf" | "nan"}
"""
from __future__ import annotations

import math

INF = float("inf")


# ------------------------------------------------------------------------------------------------
# JSON coding of python trees (model dicts)
# ------------------------------------------------------------------------------------------------
def to_json(o):
    if isinstance(o, tuple):
        return {"__t__": [to_json(x) for x in o]}
    if isinstance(o, list):
        return [to_json(x) for x in o]
    if isinstance(o, dict):
        if any(isinstance(k, tuple) for k in o):
            return {"__tk__": [[list(k) if isinstance(k, tuple) else k, to_json(v)] for k, v in o.items()]}
        return {k: to_json(v) for k, v in o.items()}
    if isinstance(o, float) and (math.isinf(o) or math.isnan(o)):
        return {"__f__": "nan" if math.isnan(o) else ("inf" if o > 0 else "-inf")}
    return o


def from_json(o):
    if isinstance(o, list):
        return [from_json(x) for x in o]
    if isinstance(o, dict):
        if "__t__" in o:
            return tuple(from_json(x) for x in o["__t__"])
        if "__tk__" in o:
            return {(tuple(k) if isinstance(k, list) else k): from_json(v) for k, v in o["__tk__"]}
        if "__f__" in o:
            return float(o["__f__"])
        return {k: from_json(v) for k, v in o.items()}
    return o


# ------------------------------------------------------------------------------------------------
# builtin models
# ------------------------------------------------------------------------------------------------
WORD_LABELS = ["s1", "s2", "s3", "species_4", "S5", "_x", "a", "ab", "9"]
EXOTIC_LABELS = ["s-1", "s.2", "s 3", "s,4", "(s5)", "s+6", "é1", "1e3", "s:7", "s'8"]


def rand_interval(rng, lo=0.0, hi=10.0):
    r = rng.random()
    a = rng.choice([lo - 1, lo, lo + 0.5, lo + 1, lo + 2, 1, 2.5])
    b = rng.choice([a, a + 0.5, a + 1, a + 2, hi, hi + 3, 20])
    if r < 0.15:
        a = -INF
    elif r < 0.3:
        b = INF
    elif r < 0.4:
        a, b = b, a
    if rng.random() < 0.3:
        a = int(a) if a == a and abs(a) != INF and float(a).is_integer() else a
    return (a, b)


def rand_interval_field(rng, lo, hi, allow_none=True):
    """None | tuple | list of tuples | list of lists | list (single, yaml style)"""
    r = rng.random()
    if allow_none and r < 0.2:
        return None
    if r < 0.55:
        return rand_interval(rng, lo, hi)
    if r < 0.65:
        return list(rand_interval(rng, lo, hi))
    n = rng.randint(1, 3)
    if r < 0.9:
        return [rand_interval(rng, lo, hi) for _ in range(n)]
    return [list(rand_interval(rng, lo, hi)) for _ in range(n)]


def rand_builtin(rng, exotic=False, min_items=False):
    """a random valid model over the builtin megacomplexes + parameters + axes.
    returns a JSON-able spec {"model": ..., "parameters": {label: value}, "datasets": {label: {"time": [...], "spectral": [...], "seed": n}}}"""
    pool = list(WORD_LABELS)
    if exotic:
        pool = EXOTIC_LABELS + WORD_LABELS[:3]
    rng.shuffle(pool)
    params: dict[str, float] = {}
    groups = ["k", "j", "irf", "shape", "osc", "scale", "rel", "pen", "b.nested.deep"]

    kgroup = rng.choice(["k", "kin.rates", "a.b.c"])

    def P(group, value):
        if group == "k":
            group = kgroup
        n = sum(1 for l in params if l.startswith(group + ".")) + 1
        label = f"{group}.{n}"
        params[label] = value
        return label

    n_comp = rng.randint(2, 3)
    comps = pool[:n_comp]
    model: dict = {}
    mcs: dict = {}
    kms: dict = {}
    ics: dict = {}
    irfs: dict = {}
    shapes: dict = {}
    # --- decay megacomplexes
    n_decay = rng.choice([1, 1, 2])
    decay_labels = []
    for i in range(n_decay):
        kind = rng.choice(["decay", "decay", "decay-sequential", "decay-parallel"])
        label = f"mc_{kind.replace('-', '_')}_{i}"
        if kind == "decay":
            nk = rng.choice([1, 1, 2])
            km_labels = []
            for j in range(nk):
                km_label = f"km{i}{j}"
                matrix = {}
                style = rng.choice(["sequential", "parallel", "target"])
                if style == "sequential":
                    for a, b in zip(comps[1:], comps[:-1]):
                        matrix[(a, b)] = P("k", rng.choice([0.5, 0.25, 1.5, 0.125]) * (1 + len(matrix)))
                    matrix[(comps[-1], comps[-1])] = P("k", 0.0625 * (1 + j))
                elif style == "parallel":
                    for a in comps:
                        matrix[(a, a)] = P("k", 0.3 * (1 + len(matrix)) + 0.01 * j)
                else:
                    for a in comps:
                        for b in comps:
                            if rng.random() < 0.5 or a == b:
                                matrix[(a, b)] = P("k", 0.2 + 0.13 * len(matrix))
                kms[km_label] = {"matrix": matrix}
                km_labels.append(km_label)
            mcs[label] = {"type": "decay", "k_matrix": km_labels}
            if rng.random() < 0.5:
                mcs[label]["dimension"] = "time"
        else:
            mcs[label] = {"type": kind, "compartments": list(comps),
                          "rates": [P("k", 0.4 + 0.21 * c + 0.07 * i) for c in range(n_comp)]}
        decay_labels.append(label)
    # --- extra time megacomplexes
    extra = []
    if not min_items and rng.random() < 0.3:
        mcs["mc_baseline"] = {"type": "baseline", "dimension": "time"}
        extra.append("mc_baseline")
    use_irf = rng.random() < 0.7
    if not min_items and use_irf and rng.random() < 0.3:
        mcs["mc_coh"] = {"type": "coherent-artifact", "order": rng.randint(1, 3)}
        if rng.random() < 0.5:
            mcs["mc_coh"]["width"] = P("irf", 0.4)
        extra.append("mc_coh")
    if not min_items and rng.random() < 0.25:
        n_osc = rng.randint(1, 2)
        mcs["mc_osc"] = {"type": "damped-oscillation", "labels": [f"osc{i+1}" for i in range(n_osc)],
                         "frequencies": [P("osc", 3.0 + i) for i in range(n_osc)],
                         "rates": [P("osc", 0.5 + 0.1 * i) for i in range(n_osc)]}
        extra.append("mc_osc")
    # --- irf
    if use_irf:
        kind = rng.choice(["gaussian", "gaussian", "multi-gaussian", "spectral-gaussian"])
        irf = {"type": kind}
        if kind == "multi-gaussian":
            n = rng.randint(1, 2)
            irf["center"] = [P("irf", 0.3 + 0.1 * i) for i in range(n)]
            irf["width"] = [P("irf", 0.1 + 0.05 * i) for i in range(n)]
            if n > 1 or rng.random() < 0.3:
                irf["scale"] = [P("irf", 1.0 + i) for i in range(n)]
        else:
            irf["center"] = P("irf", 0.3)
            irf["width"] = P("irf", 0.1)
        if kind == "spectral-gaussian":
            irf["dispersion_center"] = P("irf", 500.0)
            irf["center_dispersion_coefficients"] = [P("irf", 0.01)]
            if rng.random() < 0.5:
                irf["width_dispersion_coefficients"] = [P("irf", 0.001)]
            if rng.random() < 0.3:
                irf["model_dispersion_with_wavenumber"] = True
        if rng.random() < 0.3:
            irf["normalize"] = False
        if rng.random() < 0.2:
            irf["backsweep"] = True
            irf["backsweep_period"] = P("irf", 13.0)
        irfs["irf1"] = irf
    # --- datasets / groups
    n_ds = rng.choice([1, 1, 2, 3])
    n_groups = 1 if n_ds == 1 else rng.choice([1, 1, 2])
    group_names = ["default"] if n_groups == 1 and rng.random() < 0.7 else [f"g{i+1}" for i in range(n_groups)]
    dataset_groups = {}
    for g in group_names:
        if g == "default" and rng.random() < 0.5:
            continue
        opts = {}
        if rng.random() < 0.6:
            opts["residual_function"] = rng.choice(["variable_projection", "non_negative_least_squares"])
        if rng.random() < 0.5:
            opts["link_clp"] = rng.choice([True, False, None])
        dataset_groups[g] = opts
    # full model (spectral global megacomplex) only with a single unlinked dataset group member
    full = (not min_items) and rng.random() < 0.2
    if full:
        sh = {}
        for c in comps:
            kind = rng.choice(["gaussian", "gaussian", "skewed-gaussian", "one", "zero"]) if c != comps[0] else "gaussian"
            sl = f"sh_{len(shapes)+1}"
            s = {"type": kind}
            if kind in ("gaussian", "skewed-gaussian"):
                if rng.random() < 0.6:
                    s["amplitude"] = P("shape", 2.0 + len(shapes))
                s["location"] = P("shape", 480.0 + 30 * len(shapes))
                s["width"] = P("shape", 40.0 + 5 * len(shapes))
                if kind == "skewed-gaussian":
                    s["skewness"] = P("shape", 0.25)
            shapes[sl] = s
            sh[c] = sl
        mcs["mc_spectral"] = {"type": "spectral", "shape": sh}
    datasets = {}
    ds_axes = {}
    for d in range(n_ds):
        label = f"dataset_{d+1}" if not exotic else rng.choice([f"dataset_{d+1}", f"data-{d+1}", f"ds {d+1}"])
        mclist = [rng.choice(decay_labels)] + [m for m in extra if rng.random() < 0.7]
        if rng.random() < 0.3 and len(decay_labels) > 1:
            mclist = list(decay_labels) + mclist[1:]
        ds = {"megacomplex": mclist}
        g = group_names[d % len(group_names)]
        if g != "default" or rng.random() < 0.3:
            ds["group"] = g
        if any(mcs[m]["type"] == "decay" for m in mclist):
            icl = f"ic{d+1}"
            ics[icl] = {"compartments": list(comps), "parameters": [P("j", 1.0 if c == 0 else rng.choice([0.0, 1.0, 0.5])) for c in range(n_comp)]}
            if rng.random() < 0.3:
                ics[icl]["exclude_from_normalize"] = [comps[-1]]
            ds["initial_concentration"] = icl
        if use_irf:
            ds["irf"] = "irf1"
        if rng.random() < 0.3:
            ds["scale"] = P("scale", rng.choice([2.0, 0.5, 3.0]))
        if rng.random() < 0.3:
            ds["megacomplex_scale"] = [P("scale", 1.0 + 0.5 * i) for i in range(len(mclist))]
        if rng.random() < 0.15:
            ds["force_index_dependent"] = True
        if full and d == 0:
            ds["global_megacomplex"] = ["mc_spectral"]
            if rng.random() < 0.4:
                ds["global_megacomplex_scale"] = [P("scale", 1.5)]
            if rng.random() < 0.3:
                ds["spectral_axis_inverted"] = True
                ds["spectral_axis_scale"] = 1e7
            dataset_groups.setdefault(ds.get("group", "default"), {})["link_clp"] = False
        datasets[label] = ds
        nt = rng.randint(6, 10)
        ns = rng.randint(2, 4)
        t0 = rng.choice([-1.0, 0.0, -0.5])
        time = [t0 + 0.5 * i for i in range(nt)]
        s0 = rng.choice([450.0, 500.0, 480.0])
        spectral = [s0 + 20.0 * i for i in range(ns)] if rng.random() < 0.7 or d == 0 else [s0 + 5.0 + 20.0 * i for i in range(ns)]
        ds_axes[label] = {"time": time, "spectral": spectral, "seed": rng.randint(0, 10**6)}
    if full:
        # a group with a full-model dataset must not link
        for lbl, ds in datasets.items():
            if "global_megacomplex" in ds:
                gname = ds.get("group", "default")
                for l2, d2 in list(datasets.items()):
                    if l2 != lbl and d2.get("group", "default") == gname:
                        d2["group"] = gname  # stays; link_clp False set above
    # --- clp items
    all_clp = list(comps)
    lo, hi = 440.0, 560.0
    constraints, relations, penalties, weights = [], [], [], []
    if not min_items:
        for _ in range(rng.choice([0, 0, 1, 2])):
            c = {"type": rng.choice(["zero", "zero", "only"]), "target": rng.choice(all_clp[1:])}
            iv = rand_interval_field(rng, lo, hi, allow_none=(c["type"] == "zero"))
            if iv is not None:
                c["interval"] = iv
            constraints.append(c)
        if rng.random() < 0.3 and n_comp >= 3:
            r = {"source": all_clp[0], "target": all_clp[2], "parameter": P("rel", rng.choice([2.0, 0.5]))}
            iv = rand_interval_field(rng, lo, hi)
            if iv is not None:
                r["interval"] = iv
            relations.append(r)
        if rng.random() < 0.3:
            penalties.append({"type": "equal_area", "source": all_clp[0], "target": all_clp[1],
                              "source_intervals": [rand_interval(rng, lo, hi) for _ in range(rng.randint(1, 2))],
                              "target_intervals": [rand_interval(rng, lo, hi)],
                              "parameter": P("pen", 1.5), "weight": rng.choice([0.1, 1.0, 0.0016, 1e-05])})
        if rng.random() < 0.3:
            w = {"datasets": [rng.choice(list(datasets))], "value": rng.choice([0.5, 2.0, 1e-3])}
            if rng.random() < 0.7:
                w["global_interval"] = rand_interval(rng, lo, hi)
            if rng.random() < 0.5:
                w["model_interval"] = rand_interval(rng, 0.0, 3.0)
            weights.append(w)
    model["megacomplex"] = mcs
    if kms:
        model["k_matrix"] = kms
    if ics:
        model["initial_concentration"] = ics
    if irfs:
        model["irf"] = irfs
    if shapes:
        model["shape"] = shapes
    model["dataset"] = datasets
    if dataset_groups:
        model["dataset_groups"] = dataset_groups
    if constraints:
        model["clp_constraints"] = constraints
    if relations:
        model["clp_relations"] = relations
    if penalties:
        model["clp_penalties"] = penalties
    if weights:
        model["weights"] = weights
    return {"model": to_json(model), "parameters": params, "datasets": ds_axes, "exotic": exotic}


def build_builtin(spec):
    """spec -> (model, parameters, data)"""
    import numpy as np
    import xarray as xr
    from glotaran.model import Model
    from glotaran.parameter import Parameters
    from glotaran.plugin_system.megacomplex_registration import get_megacomplex

    md = from_json(spec["model"])
    types = {get_megacomplex(m["type"]) for m in md["megacomplex"].values()}
    model = Model.create_class_from_megacomplexes(types)(**md)
    parameters = Parameters.from_dict(_nest(spec["parameters"]))
    data = {}
    for label, ax in spec["datasets"].items():
        r = np.random.RandomState(ax["seed"])
        arr = r.randint(-8, 9, size=(len(ax["time"]), len(ax["spectral"]))).astype(float) / 4.0
        da = xr.DataArray(arr, coords={"time": np.array(ax["time"]), "spectral": np.array(ax["spectral"])}, dims=("time", "spectral"))
        data[label] = da.to_dataset(name="data")
    return model, parameters, data


def _nest(flat):
    """{'a.b.1': v} -> nested dict of lists as Parameters.from_dict wants it: {'a': {'b': [['1', v], ...]}}"""
    tree: dict = {}
    for label, v in flat.items():
        *path, leaf = label.split(".")
        node = tree
        for p in path[:-1]:
            node = node.setdefault(p, {})
        node.setdefault(path[-1], []).append([leaf, v])
    return tree
