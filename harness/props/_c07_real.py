"""C07 helpers: build the real glotaran objects of a case and call the real `calculate_matrix`;
protocol line of a case; term parser / evaluators.  (Private to harness/props/c07.py.)

A case is a JSON-able dict:
  kind      : "osc" | "pfid" | "artifact" | "spectral"
  oscs      : [[label, frequency(cm-1), rate], ...]                          (osc, pfid)
  irf       : None | {type, center[], width[], scale[]|None, shift[]|None, dispersion_center|None,
                      center_dispersion_coefficients[], width_dispersion_coefficients[],
                      model_dispersion_with_wavenumber}
  global_axis, model_axis : lists of floats
  global_axis_dtype       : optional numpy dtype name of the *array* the spectral axis is handed over in ("int64", "int32";
                            default "float64"); the values of global_axis are then whole numbers (same values for the model)
  inverted, scale         : spectral axis options (pfid, spectral)
  order, width, label     : coherent artifact
  shapes    : [[compartment, "gaussian"|"skewed"|"one"|"zero", amplitude|None, location, width, skewness], ...]
"""
from __future__ import annotations

import re
from fractions import Fraction

import numpy as np

from harness import core
from harness.core import bool_, enc, lst, rat

SPECTRAL_TYPES = ("spectral-gaussian", "spectral-multi-gaussian")
SINGLE_TYPES = ("gaussian", "spectral-gaussian")


# ------------------------------------------------------------------------------------------
# real objects
# ------------------------------------------------------------------------------------------
class _Reg:
    """parameter registrar: every number of a case becomes one fixed glotaran parameter"""

    def __init__(self):
        self.items = []

    def __call__(self, v):
        label = f"p{len(self.items) + 1}"
        self.items.append([label, float(v), {"non-negative": False, "vary": False}])
        return label


def _irf_item(irf, P):
    d = {"type": irf["type"]}
    if irf["type"] in SINGLE_TYPES:
        d["center"] = P(irf["center"][0])
        d["width"] = P(irf["width"][0])
    else:
        d["center"] = [P(c) for c in irf["center"]]
        d["width"] = [P(w) for w in irf["width"]]
    if irf.get("scale") is not None:
        d["scale"] = [P(s) for s in irf["scale"]]
    if irf.get("shift") is not None:
        d["shift"] = [P(s) for s in irf["shift"]]
    if irf["type"] in SPECTRAL_TYPES:
        d["dispersion_center"] = P(irf["dispersion_center"])
        d["center_dispersion_coefficients"] = [P(c) for c in irf.get("center_dispersion_coefficients", [])]
        d["width_dispersion_coefficients"] = [P(c) for c in irf.get("width_dispersion_coefficients", [])]
        d["model_dispersion_with_wavenumber"] = bool(irf.get("model_dispersion_with_wavenumber", False))
    if "normalize" in irf:
        d["normalize"] = bool(irf["normalize"])
    return d


_MODEL_CLASSES = {}


def _model_class(kind):
    if kind not in _MODEL_CLASSES:
        from glotaran.builtin.megacomplexes.coherent_artifact import CoherentArtifactMegacomplex
        from glotaran.builtin.megacomplexes.damped_oscillation import DampedOscillationMegacomplex
        from glotaran.builtin.megacomplexes.decay import DecayMegacomplex
        from glotaran.builtin.megacomplexes.pfid import PFIDMegacomplex
        from glotaran.builtin.megacomplexes.spectral import SpectralMegacomplex
        from glotaran.model import Model
        mcs = {
            "osc": [DampedOscillationMegacomplex, DecayMegacomplex],
            "pfid": [PFIDMegacomplex, DecayMegacomplex],
            "artifact": [CoherentArtifactMegacomplex, DecayMegacomplex],
            "spectral": [SpectralMegacomplex],
            "spectralds": [SpectralMegacomplex],
        }[kind]
        _MODEL_CLASSES[kind] = Model.create_class_from_megacomplexes(mcs)
    return _MODEL_CLASSES[kind]


def build(case, decay_rate=None):
    """-> (filled dataset model, the megacomplex under test, decay megacomplex or None)"""
    from glotaran.model import fill_item
    from glotaran.parameter import Parameters
    P = _Reg()
    kind = case["kind"]
    md = {"megacomplex": {}, "dataset": {"ds": {"megacomplex": ["m"]}}}
    ds = md["dataset"]["ds"]
    if case.get("irf") is not None:
        md["irf"] = {"irf1": _irf_item(case["irf"], P)}
        ds["irf"] = "irf1"
    if kind in ("osc", "pfid"):
        md["megacomplex"]["m"] = {
            "type": "damped-oscillation" if kind == "osc" else "pfid",
            "labels": [o[0] for o in case["oscs"]],
            "frequencies": [P(o[1]) for o in case["oscs"]],
            "rates": [P(o[2]) for o in case["oscs"]],
        }
    elif kind == "artifact":
        mc = {"type": "coherent-artifact", "order": int(case["order"])}
        if case.get("width") is not None:
            mc["width"] = P(case["width"])
        md["megacomplex"] = {case.get("label", "m"): mc}
        ds["megacomplex"] = [case.get("label", "m")]
    elif kind in ("spectral", "spectralds"):
        shape_items = {}
        megas = [case["shapes"]] if kind == "spectral" else case["megas"]
        names = []
        for k, shape_list in enumerate(megas):
            shapes = {}
            for i, (comp, typ, amp, loc, width, skew) in enumerate(shape_list):
                name = f"sh{k}_{i}"
                shapes[comp] = name
                if typ in ("one", "zero"):
                    shape_items[name] = {"type": typ}
                else:
                    it = {"type": "gaussian" if typ == "gaussian" else "skewed-gaussian",
                          "location": P(loc), "width": P(width)}
                    if amp is not None:
                        it["amplitude"] = P(amp)
                    if typ == "skewed":
                        it["skewness"] = P(skew)
                    shape_items[name] = it
            mname = "m" if kind == "spectral" else f"m{k}"
            names.append(mname)
            md["megacomplex"][mname] = {"type": "spectral", "shape": shapes}
        ds["megacomplex"] = names
        md["shape"] = shape_items
    if kind in ("pfid", "spectral", "spectralds"):
        if case.get("inverted"):
            ds["spectral_axis_inverted"] = True
        if case.get("scale", 1) != 1:
            ds["spectral_axis_scale"] = float(case["scale"])
    if decay_rate is not None:
        md["megacomplex"]["dec"] = {"type": "decay-parallel", "compartments": ["s1"], "rates": [P(decay_rate)]}
        ds["megacomplex"] = ds["megacomplex"] + ["dec"]
    if not P.items:
        P(0.0)
    model = _model_class(kind)(**md)
    params = Parameters.from_list(P.items)
    dm = fill_item(model.dataset["ds"], model, params)
    mcs = list(dm.megacomplex)
    return dm, mcs[0], (mcs[1] if decay_rate is not None else None)


ERR_CLASS = {
    "irfLength": "ModelError", "scaleLength": "ModelError", "noDispersionCenter": "ModelError", "noIrf": None, "order": "ModelError",
    "axisTooShort": "ValueError", "zipStrict": "ValueError", "noIndex": "TypeError",
}


def global_axis_array(case):
    """the spectral (global) axis as the array the library receives: float64, or - `global_axis_dtype` - an integer
    array holding the same (whole) numbers, as `np.arange(400, 700, 10)`, pixel numbers or integer wavelengths of a file"""
    dt = np.dtype(case.get("global_axis_dtype") or "float64")
    vals = [float(x) for x in case["global_axis"]]
    if dt.kind in "iu":
        if any(v != int(v) for v in vals):
            raise core.HarnessError(f"integer spectral axis asked for non-integer values {vals}")
        return np.asarray([int(v) for v in vals], dtype=dt)
    return np.asarray(vals, dtype=dt)


def run_real(case):
    """-> ("ok", labels, matrix[(index,) time, column]) or ("err", exception class name, message)"""
    try:
        dm, mc, _ = build(case)
        g = global_axis_array(case)
        m = np.asarray(case["model_axis"], dtype=np.float64)
        if case["kind"] == "spectralds":
            # dataset-level matrix: every megacomplex of the dataset, combined by clp label (the public static method the
            # optimisation itself calls)
            from glotaran.optimization.matrix_provider import MatrixProvider
            with np.errstate(all="ignore"):
                MatrixProvider.calculate_dataset_matrix(dm, g, m)
                c = MatrixProvider.calculate_dataset_matrix(dm, g, m)
            return "ok", [str(l) for l in c.clp_labels], np.asarray(c.matrix, dtype=np.float64)
        with np.errstate(all="ignore"):
            # An optimisation evaluates the megacomplex again and again on the *same* axis arrays, so what is observed is
            # the second of two evaluations on the same arrays (seeded change C07-1: the spectral axis scaled in place,
            # first evaluation right, every later one on scale**n * axis).
            mc.calculate_matrix(dm, g, m)
            labels, matrix = mc.calculate_matrix(dm, g, m)
        return "ok", [str(l) for l in labels], np.asarray(matrix, dtype=np.float64)
    except Exception as e:  # noqa: BLE001 - the class is the observable
        return "err", type(e).__name__, str(e)[:200]


def run_real_decay(case, rate):
    """matrix of a one-compartment decay (rate `rate`) in the same dataset: (index?, time) array"""
    dm, _, dec = build(case, decay_rate=rate)
    g = global_axis_array(case)
    m = np.asarray(case["model_axis"], dtype=np.float64)
    with np.errstate(all="ignore"):
        labels, matrix = dec.calculate_matrix(dm, g, m)
    matrix = np.asarray(matrix, dtype=np.float64)
    return matrix[..., 0]


# ------------------------------------------------------------------------------------------
# protocol
# ------------------------------------------------------------------------------------------
def _rats(xs):
    return lst(rat(float(x)) for x in xs)


def _opt(x, f):
    return "none" if x is None else f(x)


def irf_proto(irf):
    if irf is None:
        return "none"
    spectral = irf["type"] in SPECTRAL_TYPES
    return lst([
        _rats(irf["center"]), _rats(irf["width"]), _opt(irf.get("scale"), _rats), _opt(irf.get("shift"), _rats),
        bool_(spectral),
        _opt(irf.get("dispersion_center") if spectral else None, lambda v: rat(float(v))),
        _rats(irf.get("center_dispersion_coefficients", []) if spectral else []),
        _rats(irf.get("width_dispersion_coefficients", []) if spectral else []),
        bool_(bool(irf.get("model_dispersion_with_wavenumber", False)) if spectral else False),
    ])


def case_line(case):
    k = case["kind"]
    if k == "osc":
        oscs = lst(lst([enc(o[0]), rat(float(o[1])), rat(float(o[2]))]) for o in case["oscs"])
        return f"osc {oscs} {irf_proto(case.get('irf'))} {_rats(case['global_axis'])} {_rats(case['model_axis'])}"
    if k == "pfid":
        oscs = lst(lst([enc(o[0]), rat(float(o[1])), rat(float(o[2]))]) for o in case["oscs"])
        return (f"pfid {bool_(bool(case.get('inverted')))} {rat(float(case.get('scale', 1)))} {oscs} "
                f"{irf_proto(case.get('irf'))} {_rats(case['global_axis'])}")
    if k == "artifact":
        return (f"artifact {enc(case.get('label', 'm'))} {int(case['order'])} "
                f"{_opt(case.get('width'), lambda v: rat(float(v)))} {irf_proto(case.get('irf'))} "
                f"{_rats(case['global_axis'])}")
    if k in ("spectral", "spectralds"):
        def shape_items(shape_list):
            items = []
            for comp, typ, amp, loc, width, skew in shape_list:
                if typ in ("one", "zero"):
                    items.append(lst([enc(comp), typ]))
                elif typ == "gaussian":
                    items.append(lst([enc(comp), "gaussian", _opt(amp, lambda v: rat(float(v))), rat(float(loc)),
                                      rat(float(width))]))
                else:
                    items.append(lst([enc(comp), "skewed", _opt(amp, lambda v: rat(float(v))), rat(float(loc)),
                                      rat(float(width)), rat(float(skew))]))
            return lst(items)
        if k == "spectral":
            return f"spectral {bool_(bool(case.get('inverted')))} {rat(float(case.get('scale', 1)))} {shape_items(case['shapes'])}"
        return (f"spectralds {bool_(bool(case.get('inverted')))} {rat(float(case.get('scale', 1)))} "
                f"{lst(shape_items(m) for m in case['megas'])}")
    raise core.HarnessError(f"unknown case kind {k}")


# ------------------------------------------------------------------------------------------
# terms
# ------------------------------------------------------------------------------------------
_TOK = re.compile(r"[\[\],]|[^\[\],\s]+")


def parse_answer(s: str):
    """fast parser of one answer line -> list of trees (nested lists / atom strings)"""
    out, stack, cur = [], [], None
    for tok in _TOK.findall(s):
        if tok == "[":
            new = []
            if cur is not None:
                cur.append(new)
                stack.append(cur)
            cur = new
        elif tok == "]":
            if stack:
                cur = stack.pop()
            else:
                out.append(cur)
                cur = None
        elif tok == ",":
            continue
        elif cur is None:
            out.append(tok)
        else:
            cur.append(tok)
    return out


class NumpyEval:
    """evaluates a model term on the model axis with IEEE doubles: numpy / scipy.special.erf, i.e. the
    elementary functions the implementation itself calls, applied to the operands the model chose.
    Next to every value a first-order forward bound of its rounding error is carried (|delta| of the result if
    every operation commits one relative rounding `U`), so that a comparison with another evaluation order of
    the same real-number expression (numba: fma contraction, pow by multiplication, another libm) can allow for
    cancellation where — and only where — the expression cancels."""

    U = 2.0 ** -52

    def __init__(self):
        from scipy.special import erf
        self.erf = erf
        self.ops = {}
        self.branch = {}

    def atom(self, a, t):
        if a == "t":
            return t, 0.0
        if a == "pi":
            return np.pi, self.U * np.pi
        if a == "sqrt2":
            return np.sqrt(2), self.U * 1.5
        if a == "ln2":
            return np.log(2), self.U * 0.7
        if a == "I":
            return 1j, 0.0
        fr = Fraction(a)
        v = np.float64(float(fr))
        return v, (0.0 if Fraction(float(v)) == fr else self.U * abs(float(v)))

    def ev(self, n, t):
        """-> (value, absolute error bound)"""
        U = self.U
        if isinstance(n, str):
            return self.atom(n, t)
        op = n[0]
        self.ops[op] = self.ops.get(op, 0) + 1
        if op in ("iflt", "ifeq"):
            (a, _ea), (b, _eb) = self.ev(n[1], t), self.ev(n[2], t)
            cond = (a < b) if op == "iflt" else (a == b)
            if np.ndim(cond) == 0:
                self.branch[f"{op}:scalar:{bool(cond)}"] = self.branch.get(f"{op}:scalar:{bool(cond)}", 0) + 1
                return self.ev(n[3] if cond else n[4], t)
            cond = np.asarray(cond)
            key = f"{op}:mask:" + ("all" if cond.all() else "none" if not cond.any() else "mixed")
            self.branch[key] = self.branch.get(key, 0) + 1
            (c, ec), (d, ed) = self.ev(n[3], t), self.ev(n[4], t)
            return np.where(cond, c, d), np.where(cond, ec, ed)
        if op == "pow":
            a, ea = self.ev(n[1], t)
            k = int(n[2])
            v = a ** k
            return v, k * np.abs(a) ** (k - 1) * ea + k * U * np.abs(v)
        vs = [self.ev(x, t) for x in n[1:]]
        a, ea = vs[0]
        if len(vs) > 1:
            b, eb = vs[1]
        if op == "add":
            v = a + b
            return v, ea + eb + U * np.abs(v)
        if op == "sub":
            v = a - b
            return v, ea + eb + U * np.abs(v)
        if op == "mul":
            v = a * b
            return v, np.abs(a) * eb + np.abs(b) * ea + 2 * U * np.abs(v)
        if op == "div":
            v = np.divide(a, b)
            return v, (ea + np.abs(v) * eb) / np.abs(b) + 2 * U * np.abs(v)
        if op == "neg":
            return -a, ea
        if op == "abs":
            return np.abs(a), ea
        if op == "exp":
            v = np.exp(a)
            return v, np.abs(v) * ea + 4 * U * np.abs(v)
        if op == "log":
            v = np.log(a)
            return v, ea / np.abs(a) + 4 * U * np.abs(v)
        if op == "fmod":
            v = np.mod(a, b)
            return v, ea + np.abs(np.floor(np.divide(a, b))) * eb + 2 * U * (np.abs(a) + np.abs(v))
        if op == "re":
            return np.real(a), ea
        if op == "im":
            return np.imag(a), ea
        if op == "erf":
            v = self.erf(a)
            return v, 2 / np.sqrt(np.pi) * np.abs(np.exp(-(a * a))) * ea + 8 * U * np.abs(v)
        raise core.HarnessError(f"unknown term operator {op!r}")

    def column(self, n, t):
        """-> (values on the axis, error bounds on the axis)"""
        with np.errstate(all="ignore"):
            v, e = self.ev(n, t)
        v = np.broadcast_to(np.asarray(v, dtype=np.float64), t.shape).copy()
        e = np.broadcast_to(np.asarray(np.real(e), dtype=np.float64), t.shape).copy()
        return v, np.where(np.isfinite(e), e, 0.0)


class MpEval:
    """the same term evaluated by mpmath at one coordinate (independent evaluator of the elementary functions)"""

    def __init__(self, dps=40):
        import mpmath
        self.mp = mpmath
        self.dps = dps

    def ev(self, n, t):
        mp = self.mp
        if isinstance(n, str):
            if n == "t":
                return t
            if n == "pi":
                return mp.pi
            if n == "sqrt2":
                return mp.sqrt(2)
            if n == "ln2":
                return mp.log(2)
            if n == "I":
                return mp.mpc(0, 1)
            fr = Fraction(n)
            return mp.mpf(fr.numerator) / mp.mpf(fr.denominator)
        op = n[0]
        if op in ("iflt", "ifeq"):
            a, b = self.ev(n[1], t), self.ev(n[2], t)
            cond = (a < b) if op == "iflt" else (a == b)
            return self.ev(n[3] if cond else n[4], t)
        if op == "pow":
            return self.ev(n[1], t) ** int(n[2])
        v = [self.ev(x, t) for x in n[1:]]
        if op == "add":
            return v[0] + v[1]
        if op == "sub":
            return v[0] - v[1]
        if op == "mul":
            return v[0] * v[1]
        if op == "div":
            return v[0] / v[1]
        if op == "neg":
            return -v[0]
        if op == "abs":
            return abs(v[0])
        if op == "exp":
            return mp.exp(v[0])
        if op == "log":
            return mp.log(v[0])
        if op == "fmod":
            return v[0] - mp.floor(v[0] / v[1]) * v[1]
        if op == "re":
            return mp.re(v[0])
        if op == "im":
            return mp.im(v[0])
        if op == "erf":
            return mp.erf(v[0])
        raise core.HarnessError(f"unknown term operator {op!r}")

    def value(self, n, t):
        """None when the term divides by zero (numpy: inf / nan; e.g. delta_min = 0)"""
        with self.mp.workdps(self.dps):
            try:
                return self.ev(n, self.mp.mpf(float(t)))
            except ZeroDivisionError:
                return None


# ------------------------------------------------------------------------------------------
# end to end: the variables of Result.data[...] the property names
# ------------------------------------------------------------------------------------------
def run_result(cases, clp_seed=1):
    """one dataset combining the megacomplexes of `cases` (same IRF / axes; at most one per kind), simulated
    with random clps and evaluated by optimize() with a single function evaluation.
    -> list of ("ok", labels, matrix) per case, taken from the result dataset's own variables
       (damped_oscillation_cos/_sin, pfid_cos/_sin, coherent_artifact_response, species_spectra)"""
    import xarray as xr
    from glotaran.model import Model
    from glotaran.optimization.optimize import optimize
    from glotaran.parameter import Parameters
    from glotaran.project import Scheme
    from glotaran.simulation import simulate
    from glotaran.builtin.megacomplexes.coherent_artifact import CoherentArtifactMegacomplex
    from glotaran.builtin.megacomplexes.damped_oscillation import DampedOscillationMegacomplex
    from glotaran.builtin.megacomplexes.decay import DecayParallelMegacomplex
    from glotaran.builtin.megacomplexes.pfid import PFIDMegacomplex
    from glotaran.builtin.megacomplexes.spectral import SpectralMegacomplex
    P = _Reg()
    first = cases[0]
    kinds = [c["kind"] for c in cases]
    md = {"megacomplex": {}, "dataset": {"ds": {"megacomplex": []}}}
    ds = md["dataset"]["ds"]
    labels = []
    if first.get("irf") is not None:
        md["irf"] = {"irf1": _irf_item(first["irf"], P)}
        ds["irf"] = "irf1"
    classes = []
    for c in cases:
        k = c["kind"]
        if k in ("osc", "pfid"):
            name = "mo" if k == "osc" else "mp"
            md["megacomplex"][name] = {"type": "damped-oscillation" if k == "osc" else "pfid",
                                       "labels": [o[0] for o in c["oscs"]],
                                       "frequencies": [P(o[1]) for o in c["oscs"]],
                                       "rates": [P(o[2]) for o in c["oscs"]]}
            ds["megacomplex"].append(name)
            labels += [o[0] + "_cos" for o in c["oscs"]] + [o[0] + "_sin" for o in c["oscs"]]
            classes.append(DampedOscillationMegacomplex if k == "osc" else PFIDMegacomplex)
            if k == "pfid":
                if c.get("inverted"):
                    ds["spectral_axis_inverted"] = True
                if c.get("scale", 1) != 1:
                    ds["spectral_axis_scale"] = float(c["scale"])
        elif k == "artifact":
            mc = {"type": "coherent-artifact", "order": int(c["order"])}
            if c.get("width") is not None:
                mc["width"] = P(c["width"])
            md["megacomplex"][c.get("label", "m")] = mc
            ds["megacomplex"].append(c.get("label", "m"))
            labels += [f"coherent_artifact_{i}_{c.get('label', 'm')}" for i in range(1, c["order"] + 1)]
            classes.append(CoherentArtifactMegacomplex)
        elif k == "spectral":
            shapes, items = {}, {}
            for i, (comp, typ, amp, loc, width, skew) in enumerate(c["shapes"]):
                shapes[comp] = f"sh{i}"
                if typ in ("one", "zero"):
                    items[f"sh{i}"] = {"type": typ}
                else:
                    it = {"type": "gaussian" if typ == "gaussian" else "skewed-gaussian", "location": P(loc), "width": P(width)}
                    if amp is not None:
                        it["amplitude"] = P(amp)
                    if typ == "skewed":
                        it["skewness"] = P(skew)
                    items[f"sh{i}"] = it
            md["megacomplex"]["ms"] = {"type": "spectral", "shape": shapes}
            md["shape"] = items
            ds["megacomplex"].append("ms")
            labels += [s[0] for s in c["shapes"]]
            classes.append(SpectralMegacomplex)
            if c.get("inverted"):
                ds["spectral_axis_inverted"] = True
            if c.get("scale", 1) != 1:
                ds["spectral_axis_scale"] = float(c["scale"])
    if "spectral" not in kinds:
        md["megacomplex"]["dec"] = {"type": "decay-parallel", "compartments": ["s_dec"], "rates": [P(0.37)]}
        ds["megacomplex"].append("dec")
        labels.append("s_dec")
        classes.append(DecayParallelMegacomplex)
    for it in P.items:
        it[2] = {"non-negative": False, "vary": False}
    P.items[-1][2]["vary"] = True       # least_squares needs one free parameter
    model = Model.create_class_from_megacomplexes(list(dict.fromkeys(classes)))(**md)
    params = Parameters.from_list(P.items)
    g = global_axis_array(first)
    m = np.asarray(first["model_axis"], dtype=np.float64)
    spectral = "spectral" in kinds
    gdim, mdim = ("time", "spectral") if spectral else ("spectral", "time")
    rs = np.random.RandomState(clp_seed)
    clp = xr.DataArray(rs.uniform(0.5, 2.0, (g.size, len(labels))), coords=[(gdim, g), ("clp_label", labels)])
    with np.errstate(all="ignore"):
        data = simulate(model, "ds", params, {gdim: g, mdim: m}, clp)
        res = optimize(Scheme(model=model, parameters=params, data={"ds": data},
                              maximum_number_function_evaluations=1), verbose=False, raise_exception=True)
    out_ds = res.data["ds"]
    out = []
    for c in cases:
        k = c["kind"]
        if k in ("osc", "pfid"):
            pre = "damped_oscillation" if k == "osc" else "pfid"
            names = [str(x) for x in out_ds.coords[pre].values]
            cos, sin = out_ds[f"{pre}_cos"], out_ds[f"{pre}_sin"]
            tr = (gdim, mdim, pre) if cos.ndim == 3 else (mdim, pre)
            mat = np.concatenate([cos.transpose(*tr).values, sin.transpose(*tr).values], axis=-1)
            out.append(("ok", [n + "_cos" for n in names] + [n + "_sin" for n in names], mat,
                        {"frequency": [float(x) for x in out_ds.coords[f"{pre}_frequency"].values],
                         "rate": [float(x) for x in out_ds.coords[f"{pre}_rate"].values]}))
        elif k == "artifact":
            v = out_ds["coherent_artifact_response"]
            tr = (gdim, mdim, "coherent_artifact_order") if v.ndim == 3 else (mdim, "coherent_artifact_order")
            order = [int(x) for x in out_ds.coords["coherent_artifact_order"].values]
            out.append(("ok", [f"coherent_artifact_{i}_{c.get('label', 'm')}" for i in order], v.transpose(*tr).values, {}))
        else:
            v = out_ds["species_spectra"]
            out.append(("ok", [str(x) for x in out_ds.coords["species"].values], v.transpose(mdim, "species").values, {}))
    return out
