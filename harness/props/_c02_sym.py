"""C02 helper: a small symbolic executor for the provider methods (pure `ast`, nothing imported from glotaran).

Executing a method symbolically gives (a) the list of EFFECTS on the `self._*` containers in program order and (b) the
returned TERM.  Terms are nested tuples in which local variable names have disappeared (every local is replaced by the
term it holds), small methods of the analysed classes are inlined (getters, `create_scaled_matrix`, `apply_weight`,
`reduce_matrix` …), loop variables are `("elem", <iterable>, n)` / `("idx", n)` / `("key", X, n)` / `("val", X, n)` with
`n` the number of the loop in execution order, a list built by `append` in a loop is the same term as the comprehension.
So renaming locals, introducing temporaries, calling a getter instead of reading the attribute (or the other way round)
and turning a comprehension into a loop do not change the terms, while changing the order of operations, an operand, a
subscript or a condition does.
"""
from __future__ import annotations

import ast
import hashlib
from pathlib import Path

FILES = ["glotaran/optimization/optimizer.py", "glotaran/optimization/optimization_group.py",
         "glotaran/optimization/matrix_provider.py", "glotaran/optimization/estimation_provider.py",
         "glotaran/optimization/data_provider.py"]

BASES = {"MatrixProviderUnlinked": "MatrixProvider", "MatrixProviderLinked": "MatrixProvider",
         "EstimationProviderUnlinked": "EstimationProvider", "EstimationProviderLinked": "EstimationProvider",
         "DataProviderLinked": "DataProvider"}
# attributes holding objects of the analysed classes
OBJECTS = {"_data_provider": "DataProvider", "_matrix_provider": "MatrixProvider", "_estimation_provider": "EstimationProvider",
           "_group": "DatasetGroup", "_dataset_group": "DatasetGroup"}
FAMILY = {"DataProvider": {"unlinked": "DataProvider", "linked": "DataProviderLinked"},
          "MatrixProvider": {"unlinked": "MatrixProviderUnlinked", "linked": "MatrixProviderLinked"},
          "EstimationProvider": {"unlinked": "EstimationProviderUnlinked", "linked": "EstimationProviderLinked"}}
# methods that are steps of the pipeline (never inlined)
OPAQUE = {"apply_relations", "apply_constraints", "combine_megacomplex_matrices", "align_matrices", "calculate_residual",
          "retrieve_clps", "calculate_clp_penalties", "does_interval_item_apply", "get_axis_slice_from_interval",
          "align_index", "create_aligned_global_axes", "align_groups", "align_dataset_indices", "align_full_clp_labels",
          "infer_global_dimension"}
VALUE_CLASS = "MatrixContainer"
MAX_DEPTH = 8


class Untranslatable(Exception):
    pass


class Source:
    def __init__(self, repo):
        self.classes, self.props, self.static, self.sha = {}, {}, {}, {}
        for rel in FILES:
            p = Path(repo) / rel
            if not p.exists():
                continue
            text = p.read_text()
            self.sha[rel] = hashlib.sha1(text.encode()).hexdigest()
            try:
                tree = ast.parse(text)
            except SyntaxError:
                continue
            for node in tree.body:
                if isinstance(node, ast.ClassDef):
                    ms, ps, ss = {}, set(), set()
                    for it in node.body:
                        if isinstance(it, ast.FunctionDef):
                            decs = {d.attr if isinstance(d, ast.Attribute) else getattr(d, "id", "") for d in it.decorator_list}
                            if "setter" in decs:
                                continue
                            ms[it.name] = it
                            if "property" in decs:
                                ps.add(it.name)
                            if "staticmethod" in decs:
                                ss.add(it.name)
                    self.classes[node.name] = ms
                    self.props[node.name] = ps
                    self.static[node.name] = ss

    def mro(self, cls):
        out = [cls]
        while out[-1] in BASES:
            out.append(BASES[out[-1]])
        return out

    def find(self, cls, meth):
        for c in self.mro(cls):
            if meth in self.classes.get(c, {}):
                return c, self.classes[c][meth]
        return None, None

    def is_prop(self, cls, name):
        return any(name in self.props.get(c, ()) for c in self.mro(cls))

    def is_static(self, cls, name):
        return any(name in self.static.get(c, ()) for c in self.mro(cls))


NONE = ("const", None)


def walk(t):
    """all sub-terms"""
    yield t
    if isinstance(t, tuple):
        for x in t[1:] if t and isinstance(t[0], str) else t:
            if isinstance(x, tuple):
                yield from walk(x)


def contains(t, sub):
    return any(x == sub for x in walk(t))


class Sym:
    def __init__(self, src: Source, mode: str):
        self.src = src
        self.mode = mode
        self.nloop = 0
        self.loops = {}          # n -> iterable term
        self.carry_init = {}
        self.depth = 0

    # ---------------------------------------------------------------- entry
    def run_method(self, cls, name, args=None):
        """symbolically execute cls.name with its parameters unbound (`("arg", name)`) -> (effects, return term)"""
        owner, fn = self.src.find(cls, name)
        if fn is None:
            raise Untranslatable(f"no method {cls}.{name}")
        env = {"self": ("self", cls)}
        params = [a.arg for a in fn.args.args]
        if params and params[0] == "self":
            params = params[1:]
        for i, p in enumerate(params):
            env[p] = (args or {}).get(p, ("arg", p))
        eff = []
        ret = self.block(fn.body, env, eff)
        return eff, ret

    # ---------------------------------------------------------------- statements
    def block(self, stmts, env, eff):
        """returns the returned term (None when the block falls through)"""
        for k, st in enumerate(stmts):
            rest = stmts[k + 1:]
            if isinstance(st, ast.Expr) and isinstance(st.value, ast.Constant):
                continue                                   # docstring
            if isinstance(st, ast.Return):
                return self.expr(st.value, env, eff) if st.value is not None else NONE
            if isinstance(st, ast.Continue):
                return ("continue",)
            if isinstance(st, ast.If):
                cond = self.expr(st.test, env)
                if cond in (("const", True), ("const", False)):
                    r = self.block((st.body if cond[1] else st.orelse) + rest, env, eff)
                    return r
                e1, e2 = dict(env), dict(env)
                f1, f2 = [], []
                r1 = self.block(st.body, e1, f1)
                r2 = self.block(st.orelse, e2, f2)
                if r1 is not None and r2 is None:          # early exit in the then-branch: the rest is the else-branch
                    r2 = self.block(rest, e2, f2)
                    self.emit_if(eff, cond, f1, f2)
                    env.clear(); env.update(e2)
                    return self.join_ret(cond, r1, r2)
                if r2 is not None and r1 is None:
                    r1 = self.block(rest, e1, f1)
                    self.emit_if(eff, cond, f1, f2)
                    env.clear(); env.update(e1)
                    return self.join_ret(cond, r1, r2)
                self.emit_if(eff, cond, f1, f2)
                if r1 is not None and r2 is not None:
                    return self.join_ret(cond, r1, r2)
                for name in sorted(set(e1) | set(e2)):
                    a, b = e1.get(name), e2.get(name)
                    if a == b:
                        env[name] = a
                    else:
                        env[name] = ("phi", cond, a if a is not None else ("undef",), b if b is not None else ("undef",))
                continue
            if isinstance(st, ast.For):
                self.for_loop(st, env, eff)
                continue
            if isinstance(st, (ast.Assign, ast.AnnAssign)):
                if isinstance(st, ast.AnnAssign):
                    if st.value is None:
                        continue
                    targets = [st.target]
                else:
                    targets = st.targets
                val = self.expr(st.value, env, eff)
                for t in targets:
                    self.assign(t, val, env, eff)
                continue
            if isinstance(st, ast.AugAssign):
                op = type(st.op).__name__
                val = self.expr(st.value, env)
                if isinstance(st.target, ast.Name):
                    old = env.get(st.target.id, ("undef",))
                    if self.is_container_ref(old):
                        eff.append(("augstore", op, old, val))
                    else:
                        env[st.target.id] = ("inplace", op, old, val)
                else:
                    tgt = self.expr(st.target, env)
                    if self.is_container_ref(tgt):
                        eff.append(("augstore", op, tgt, val))
                    else:
                        eff.append(("untranslatable", f"in-place update of {ast.unparse(st.target)}"))
                continue
            if isinstance(st, ast.Expr):
                self.expr_stmt(st.value, env, eff)
                continue
            if isinstance(st, (ast.Pass, ast.Import, ast.ImportFrom)):
                continue
            if isinstance(st, ast.Raise):
                return ("raise",)
            if isinstance(st, ast.FunctionDef):
                env[st.name] = ("localfn", ast.dump(st))
                continue
            eff.append(("untranslatable", f"statement {type(st).__name__}"))
        return None

    def join_ret(self, cond, r1, r2):
        if r1 == ("continue",) and r2 == ("continue",):
            return ("continue",)
        if r1 == ("continue",) or r2 == ("continue",):
            # one arm leaves the loop body, the other fell through to the end of it
            return ("continue",) if (r1 in (("continue",), None) and r2 in (("continue",), None)) else ("ifexp", cond, r1, r2)
        if r1 == r2:
            return r1
        return ("ifexp", cond, r1, r2)

    @staticmethod
    def emit_if(eff, cond, f1, f2):
        if f1 or f2:
            eff.append(("if", cond, tuple(f1), tuple(f2)))

    def is_container_ref(self, t):
        return isinstance(t, tuple) and (t[0] == "cont" or (t[0] in ("sub", "val") and self.is_container_ref(t[1])))

    def assign(self, target, val, env, eff):
        if isinstance(target, ast.Name):
            env[target.id] = val
        elif isinstance(target, (ast.Tuple, ast.List)):
            n = len(target.elts)
            if isinstance(val, tuple) and val[0] == "tuple" and len(val) - 1 == n:
                parts = val[1:]
            else:
                parts = [("item", val, i) for i in range(n)]
            for t, p in zip(target.elts, parts):
                self.assign(t, p, env, eff)
        else:
            tgt = self.expr(target, env)
            if self.is_container_ref(tgt):
                eff.append(("store", tgt, val))
            elif isinstance(target, ast.Subscript) and isinstance(target.value, ast.Name):
                # store into a local array / dict / list: the local now holds the updated object
                name = target.value.id
                env[name] = ("setitem", env.get(name, ("undef",)), self.expr(target.slice, env), val)
            else:
                eff.append(("untranslatable", f"assignment to {ast.unparse(target)}"))

    def expr_stmt(self, node, env, eff):
        if isinstance(node, ast.Call) and isinstance(node.func, ast.Attribute):
            meth = node.func.attr
            if isinstance(node.func.value, ast.Name) and node.func.value.id in env and meth in ("append", "extend", "clear") \
                    and not self.is_container_ref(env[node.func.value.id]) and env[node.func.value.id][0] != "self":
                name = node.func.value.id
                args = tuple(self.expr(a, env) for a in node.args)
                env[name] = (meth, env[name]) + args
                return
            recv = self.expr(node.func.value, env)
            if self.is_container_ref(recv) and meth in ("append", "extend", "clear", "update", "pop", "insert"):
                eff.append(("mcall", recv, meth, tuple(self.expr(a, env) for a in node.args)))
                return
        t = self.expr(node, env, eff)
        if isinstance(t, tuple) and t[0] == "call" and contains(t, ("name", "warnings")):
            return
        if t == NONE or (isinstance(t, tuple) and t[0] == "inlined-procedure"):
            return
        eff.append(("expr", t))

    def for_loop(self, st, env, eff):
        it = self.expr(st.iter, env)
        self.nloop += 1
        n = self.nloop
        self.loops[n] = it
        body_env = dict(env)
        self.bind_loop_target(st.target, it, n, body_env)
        # loop-carried locals: assigned in the body and alive before it
        carried = []
        for node in ast.walk(ast.Module(body=st.body, type_ignores=[])):
            names = []
            if isinstance(node, ast.Name) and isinstance(node.ctx, ast.Store):
                names = [node.id]
            elif isinstance(node, ast.AugAssign) and isinstance(node.target, ast.Name):
                names = [node.target.id]
            elif isinstance(node, ast.Call) and isinstance(node.func, ast.Attribute) and isinstance(node.func.value, ast.Name) \
                    and node.func.attr in ("append", "extend", "clear"):
                names = [node.func.value.id]
            elif isinstance(node, ast.Subscript) and isinstance(node.ctx, ast.Store) and isinstance(node.value, ast.Name):
                names = [node.value.id]
            for nm in names:
                if nm in env and nm not in carried and not self.is_container_ref(env[nm]) and env[nm][0] != "self":
                    carried.append(nm)
        for j, nm in enumerate(carried):
            body_env[nm] = ("carry", n, j)
            self.carry_init[(n, j)] = env[nm]
        f = []
        r = self.block(st.body, body_env, f)
        if r is not None and r != ("continue",):
            f.append(("untranslatable", "return inside a loop"))
        if st.orelse:
            f.append(("untranslatable", "for-else"))
        if f:
            eff.append(("for", n, it, tuple(f)))
        for j, nm in enumerate(carried):
            upd = body_env.get(nm)
            env[nm] = self.close_loop(n, self.loops[n], j, env[nm], upd)

    def close_loop(self, n, it, j, init, upd):
        carry = ("carry", n, j)
        if upd == carry:
            return init
        # a list built by append: the comprehension
        def appended(u):
            if isinstance(u, tuple) and u[0] == "append" and u[1] == carry and len(u) == 3:
                return u[2]
            if isinstance(u, tuple) and u[0] == "phi":
                a, b = appended(u[2]), appended(u[3])
                if a is not None and b is not None:
                    return ("ifexp", u[1], a, b)
            return None
        x = appended(upd)
        if x is not None and init == ("list",) and not contains(x, carry):
            return ("listcomp", x, ((n, it, ()),))
        return ("loop", n, it, init, upd)

    def bind_loop_target(self, target, it, n, env):
        def base(t):
            return t
        if isinstance(target, ast.Name):
            if it[0] == "call" and it[1] == ("name", "range"):
                env[target.id] = ("idx", n)
            else:
                env[target.id] = ("elem", it, n)
            return
        if isinstance(target, (ast.Tuple, ast.List)) and len(target.elts) == 2:
            a, b = target.elts
            if it[0] == "call" and it[1] == ("name", "enumerate") and len(it[2]) == 1:
                self.loops[n] = it[2][0]
                self.assign_simple(a, ("idx", n), env)
                self.assign_simple(b, ("elem", it[2][0], n), env)
                return
            if it[0] == "call" and it[1][0] == "attr" and it[1][2] == "items" and not it[2]:
                self.loops[n] = ("keys", it[1][1])
                self.assign_simple(a, ("key", it[1][1], n), env)
                self.assign_simple(b, ("val", it[1][1], n), env)
                return
            if it[0] == "call" and it[1] == ("name", "zip") and len(it[2]) == 2:
                self.assign_simple(a, ("elem", it[2][0], n), env)
                self.assign_simple(b, ("elem", it[2][1], n), env)
                return
        if isinstance(target, (ast.Tuple, ast.List)):
            for i, e in enumerate(target.elts):
                self.assign_simple(e, ("item", ("elem", it, n), i), env)
            return
        raise Untranslatable("loop target " + ast.unparse(target))

    def assign_simple(self, target, val, env):
        if isinstance(target, ast.Name):
            env[target.id] = val
        elif isinstance(target, (ast.Tuple, ast.List)):
            for i, e in enumerate(target.elts):
                self.assign_simple(e, ("item", val, i), env)
        else:
            raise Untranslatable("loop target " + ast.unparse(target))

    # ---------------------------------------------------------------- expressions
    def expr(self, node, env, eff=None):
        if node is None:
            return NONE
        if isinstance(node, ast.Constant):
            return ("const", node.value)
        if isinstance(node, ast.Name):
            if node.id in env:
                return env[node.id]
            return ("name", node.id)
        if isinstance(node, ast.Attribute):
            v = self.expr(node.value, env, eff)
            return self.attr(v, node.attr, env, eff)
        if isinstance(node, ast.Subscript):
            v = self.expr(node.value, env, eff)
            s = self.slice(node.slice, env, eff)
            return self.subscript(v, s)
        if isinstance(node, ast.Call):
            return self.call(node, env, eff)
        if isinstance(node, ast.BinOp):
            return ("bin", type(node.op).__name__, self.expr(node.left, env, eff), self.expr(node.right, env, eff))
        if isinstance(node, ast.UnaryOp):
            return ("un", type(node.op).__name__, self.expr(node.operand, env, eff))
        if isinstance(node, ast.BoolOp):
            return ("bool", type(node.op).__name__) + tuple(self.expr(v, env, eff) for v in node.values)
        if isinstance(node, ast.Compare):
            if len(node.ops) == 1:
                l, r = self.expr(node.left, env, eff), self.expr(node.comparators[0], env, eff)
                op = type(node.ops[0]).__name__
                if op == "IsNot" and r == NONE:
                    return ("notnone", l)
                if op == "Is" and r == NONE:
                    return ("isnone", l)
                return ("cmp", op, l, r)
            return ("cmpn", ast.dump(node))
        if isinstance(node, ast.IfExp):
            return ("ifexp", self.expr(node.test, env, eff), self.expr(node.body, env, eff), self.expr(node.orelse, env, eff))
        if isinstance(node, ast.Tuple):
            return ("tuple",) + tuple(self.expr(e, env, eff) for e in node.elts)
        if isinstance(node, ast.List):
            return ("list",) + tuple(self.expr(e, env, eff) for e in node.elts)
        if isinstance(node, ast.Dict):
            return ("dict",) + tuple((self.expr(k, env, eff), self.expr(v, env, eff)) for k, v in zip(node.keys, node.values))
        if isinstance(node, (ast.ListComp, ast.GeneratorExp)):
            e2 = dict(env)
            gens = []
            for g in node.generators:
                it = self.expr(g.iter, e2, eff)
                self.nloop += 1
                n = self.nloop
                self.loops[n] = it
                self.bind_loop_target(g.target, it, n, e2)
                gens.append((n, self.loops[n] if self.loops[n] != it else it, tuple(self.expr(c, e2, eff) for c in g.ifs)))
            return ("listcomp", self.expr(node.elt, e2, eff), tuple(gens))
        if isinstance(node, ast.DictComp):
            e2 = dict(env)
            gens = []
            for g in node.generators:
                it = self.expr(g.iter, e2, eff)
                self.nloop += 1
                n = self.nloop
                self.loops[n] = it
                self.bind_loop_target(g.target, it, n, e2)
                gens.append((n, it, tuple(self.expr(c, e2, eff) for c in g.ifs)))
            return ("dictcomp", self.expr(node.key, e2, eff), self.expr(node.value, e2, eff), tuple(gens))
        if isinstance(node, ast.JoinedStr):
            return ("fstring",)
        if isinstance(node, ast.Lambda):
            return ("lambda", ast.dump(node))
        if isinstance(node, ast.Starred):
            return ("star", self.expr(node.value, env, eff))
        return ("opaque", type(node).__name__)

    def slice(self, node, env, eff):
        if isinstance(node, ast.Slice):
            return ("slice", self.expr(node.lower, env, eff), self.expr(node.upper, env, eff), self.expr(node.step, env, eff))
        if isinstance(node, ast.Tuple):
            return ("tuple",) + tuple(self.slice(e, env, eff) for e in node.elts)
        return self.expr(node, env, eff)

    def subscript(self, v, s):
        # X[i] with i the index of a loop over X  ->  the element;  D[k] with k the key of a loop over D.items() -> the value
        if s[0] == "idx" and self.loops.get(s[1]) == v:
            return ("elem", v, s[1])
        if s[0] == "key" and s[1] == v:
            return ("val", v, s[2])
        # the element just appended to a list that was empty before the loop, read back at the loop index
        if v[0] == "append" and len(v) == 3 and v[1][0] == "carry" and s == ("idx", v[1][1]) \
                and self.carry_init.get((v[1][1], v[1][2])) == ("list",):
            return v[2]
        return ("sub", v, s)

    def attr(self, v, name, env, eff):
        if v[0] == "self":
            cls = v[1]
            if name in OBJECTS:
                fam = OBJECTS[name]
                return ("self", FAMILY.get(fam, {}).get(self.mode, fam))
            if self.src.is_prop(cls, name):
                return self.inline(cls, name, v, [], {}, eff)
            if name.startswith("_"):
                return ("cont", name)
            return ("attr", v, name)
        if v[0] == "container" and name in ("matrix", "clp_labels"):
            return v[1] if name == "clp_labels" else v[2]
        if name == "T":
            if v[0] == "T":
                return v[1]
            return ("T", v)
        return ("attr", v, name)

    def call(self, node, env, eff):
        f = node.func
        args = [self.expr(a, env, eff) for a in node.args]
        kw = {k.arg: self.expr(k.value, env, eff) for k in node.keywords if k.arg is not None}
        if isinstance(f, ast.Attribute):
            recv = self.expr(f.value, env, eff)
            meth = f.attr
            if recv[0] == "self":
                cls = recv[1]
                owner, fn = self.src.find(cls, meth)
                if fn is not None and meth not in OPAQUE:
                    return self.inline(cls, meth, recv, args, kw, eff)
                if fn is not None:
                    return ("op", meth, tuple(args), tuple(sorted(kw.items())))
                return ("call", ("attr", recv, meth), tuple(args), tuple(sorted(kw.items())))
            if recv == ("name", VALUE_CLASS) or recv[0] == "name" and recv[1] in self.src.classes:
                cls = recv[1]
                owner, fn = self.src.find(cls, meth)
                if fn is not None and meth not in OPAQUE and self.src.is_static(cls, meth):
                    return self.inline(cls, meth, None, args, kw, eff)
                if fn is not None:
                    return ("op", meth, tuple(args), tuple(sorted(kw.items())))
            # methods of the value class on any term
            if meth in self.src.classes.get(VALUE_CLASS, {}) and meth not in OPAQUE:
                return self.inline(VALUE_CLASS, meth, recv, args, kw, eff)
            if meth == "copy" and not args:
                return ("copy", recv)
            return ("call", ("attr", recv, meth), tuple(args), tuple(sorted(kw.items())))
        fn_t = self.expr(f, env, eff)
        if fn_t == ("name", VALUE_CLASS):
            names = ["clp_labels", "matrix"]
            for i, a in enumerate(args):
                kw[names[i]] = a
            return ("container", kw.get("clp_labels", ("undef",)), kw.get("matrix", ("undef",)))
        if fn_t == ("name", "replace") and len(args) == 1 and set(kw) == {"matrix"}:
            return ("container", self.attr(args[0], "clp_labels", env, eff), kw["matrix"])
        return ("call", fn_t, tuple(args), tuple(sorted(kw.items())))

    def inline(self, cls, meth, recv, args, kw, eff):
        owner, fn = self.src.find(cls, meth)
        if self.depth >= MAX_DEPTH:
            raise Untranslatable("inlining too deep at " + meth)
        params = [a.arg for a in fn.args.args]
        static = self.src.is_static(cls, meth)
        env = {}
        if not static:
            env[params[0]] = recv
            params = params[1:]
        defaults = fn.args.defaults
        dmap = {}
        for p, d in zip(params[len(params) - len(defaults):], defaults):
            dmap[p] = self.expr(d, {})
        for i, p in enumerate(params):
            if i < len(args):
                env[p] = args[i]
            elif p in kw:
                env[p] = kw[p]
            elif p in dmap:
                env[p] = dmap[p]
            else:
                env[p] = ("undef",)
        self.depth += 1
        try:
            sub = [] if eff is None else eff
            n0 = len(sub)
            r = self.block(fn.body, env, sub)
            if eff is None and sub:
                raise Untranslatable(f"{meth} has effects where a value is expected")
        finally:
            self.depth -= 1
        if r is None:
            return ("inlined-procedure", meth)
        return r

    # containers in attribute values: `("container", labels, matrix)`
    @staticmethod
    def simplify(t):
        return t


def container_attr(t, name):
    """`.matrix` / `.clp_labels` of a container term"""
    if isinstance(t, tuple) and t[0] == "container":
        return t[1] if name == "clp_labels" else t[2]
    return ("attr", t, name)


def fmt(t, depth=0):
    """compact rendering of a term for messages"""
    if not isinstance(t, tuple):
        return repr(t)
    if not t:
        return "()"
    if isinstance(t[0], str):
        return t[0] + "(" + ", ".join(fmt(x, depth + 1) for x in t[1:]) + ")"
    return "[" + ", ".join(fmt(x, depth + 1) for x in t) + "]"
