"""C06 helpers: JSON-able specs of models made of the *builtin* megacomplexes, their construction with the
public glotaran API, declaration-order permutation ("twins") and by-label access to the outputs.

spec = {
  "parameters": {"p.1": 0.5, ...},                       # label -> value (all non-negative=False, vary=True unless "fixed")
  "fixed": ["p.3", ...],
  "k_matrix":              [[name, [[to, from, par], ...]], ...],
  "initial_concentration": [[name, {"compartments": [...], "parameters": [...], "exclude_from_normalize": [...]}], ...],
  "irf":                   [[name, {"type": ..., "center": ..., "width": ..., ...}], ...],
  "shape":                 [[name, {"type": "gaussian", "amplitude": par, "location": par, "width": par}], ...],
  "megacomplex":           [[name, {"type": ..., ...}], ...],     # spectral: "shape": [[compartment, shape name], ...]
  "dataset":               [[label, {"megacomplex": [...], "megacomplex_scale": [...]|None, "irf": name|None,
                                     "initial_concentration": name|None, "global_megacomplex": [...]|None,
                                     "model_dim": "time", "global_dim": "spectral",
                                     "model_axis": [...], "global_axis": [...], "data": [[model x global]]}], ...],
  "groups": {"default": {"link_clp": None, "residual_function": "variable_projection"}} }
Every ordered collection is a list of pairs so that the declaration order is explicit and survives JSON.
"""
from __future__ import annotations

import copy

import numpy as np

_MODEL_CLS = None


def model_class():
    global _MODEL_CLS
    if _MODEL_CLS is None:
        from glotaran.builtin.megacomplexes.baseline import BaselineMegacomplex
        from glotaran.builtin.megacomplexes.clp_guide import ClpGuideMegacomplex
        from glotaran.builtin.megacomplexes.coherent_artifact import CoherentArtifactMegacomplex
        from glotaran.builtin.megacomplexes.damped_oscillation import DampedOscillationMegacomplex
        from glotaran.builtin.megacomplexes.decay import DecayMegacomplex
        from glotaran.builtin.megacomplexes.decay import DecayParallelMegacomplex
        from glotaran.builtin.megacomplexes.decay import DecaySequentialMegacomplex
        from glotaran.builtin.megacomplexes.pfid import PFIDMegacomplex
        from glotaran.builtin.megacomplexes.spectral import SpectralMegacomplex
        from glotaran.model import Model

        _MODEL_CLS = Model.create_class_from_megacomplexes([
            DecayMegacomplex, DecayParallelMegacomplex, DecaySequentialMegacomplex, DampedOscillationMegacomplex,
            PFIDMegacomplex, SpectralMegacomplex, BaselineMegacomplex, CoherentArtifactMegacomplex, ClpGuideMegacomplex,
        ])
    return _MODEL_CLS


def _group_params(spec):
    out = {}
    for label, v in spec["parameters"].items():
        g, n = label.rsplit(".", 1)
        out.setdefault(g, {})[int(n)] = (label, v)
    return {g: [d[i] for i in sorted(d)] for g, d in out.items()}


def parameters_of(spec):
    from glotaran.parameter import Parameters

    fixed = set(spec.get("fixed", []))
    return Parameters.from_dict({
        g: [[str(i + 1), v, {"vary": label not in fixed, "non-negative": False}] for i, (label, v) in enumerate(items)]
        for g, items in _group_params(spec).items()})


def model_dict(spec) -> dict:
    md: dict = {}
    if spec.get("groups"):
        md["dataset_groups"] = {g: {k: v for k, v in o.items() if v is not None} for g, o in spec["groups"].items()}
    if spec.get("k_matrix"):
        md["k_matrix"] = {name: {"matrix": {(t, f): p for t, f, p in entries}} for name, entries in spec["k_matrix"]}
    if spec.get("initial_concentration"):
        md["initial_concentration"] = {name: dict(d) for name, d in spec["initial_concentration"]}
    if spec.get("irf"):
        md["irf"] = {name: dict(d) for name, d in spec["irf"]}
    if spec.get("shape"):
        md["shape"] = {name: dict(d) for name, d in spec["shape"]}
    mcs = {}
    for name, d in spec["megacomplex"]:
        d = dict(d)
        if d["type"] == "spectral":
            d["shape"] = {c: s for c, s in d["shape"]}
        mcs[name] = d
    md["megacomplex"] = mcs
    dss = {}
    for label, d in spec["dataset"]:
        e = {"megacomplex": list(d["megacomplex"])}
        if d.get("megacomplex_scale") is not None:
            e["megacomplex_scale"] = list(d["megacomplex_scale"])
        if d.get("global_megacomplex"):
            e["global_megacomplex"] = list(d["global_megacomplex"])
            if d.get("global_megacomplex_scale") is not None:
                e["global_megacomplex_scale"] = list(d["global_megacomplex_scale"])
        for k in ("irf", "initial_concentration", "scale", "group", "spectral_axis_inverted", "spectral_axis_scale"):
            if d.get(k) is not None:
                e[k] = d[k]
        dss[label] = e
    md["dataset"] = dss
    return md


def build(spec):
    """spec -> (model, parameters, data dict)"""
    import xarray as xr

    model = model_class()(**model_dict(spec))
    parameters = parameters_of(spec)
    data = {}
    for label, d in spec["dataset"]:
        md, gd = d.get("model_dim", "time"), d.get("global_dim", "spectral")
        arr = np.array(d["data"], dtype=np.float64)
        da = xr.DataArray(arr, coords={md: np.array(d["model_axis"], dtype=np.float64),
                                       gd: np.array(d["global_axis"], dtype=np.float64)}, dims=(md, gd))
        data[label] = da.to_dataset(name="data")
    return model, parameters, data


def dataset_matrices(spec):
    """{dataset label: (clp labels, matrix)} from MatrixProvider.calculate_dataset_matrix on the filled dataset models"""
    from glotaran.model import fill_item
    from glotaran.optimization.matrix_provider import MatrixProvider

    model, parameters, _ = build(spec)
    out = {}
    for label, d in spec["dataset"]:
        dm = fill_item(model.dataset[label], model, parameters)
        mc = MatrixProvider.calculate_dataset_matrix(
            dm, np.array(d["global_axis"], dtype=np.float64), np.array(d["model_axis"], dtype=np.float64))
        out[label] = (list(mc.clp_labels), np.array(mc.matrix, dtype=np.float64))
    return out


def megacomplex_matrix(spec, dataset_label, mc_name):
    """(labels, matrix) of one megacomplex of one dataset (real calculate_matrix, unscaled)"""
    from glotaran.model import fill_item

    model, parameters, _ = build(spec)
    d = dict(spec["dataset"])[dataset_label]
    dm = fill_item(model.dataset[dataset_label], model, parameters)
    for m in dm.megacomplex:
        if m.label == mc_name:
            labels, mat = m.calculate_matrix(dm, np.array(d["global_axis"], dtype=np.float64),
                                             np.array(d["model_axis"], dtype=np.float64))
            return list(labels), np.array(mat, dtype=np.float64)
    raise KeyError(mc_name)


def optimize_spec(spec, nfev=1):
    from glotaran.optimization.optimize import optimize
    from glotaran.project import Scheme

    model, parameters, data = build(spec)
    scheme = Scheme(model=model, parameters=parameters, data=data, maximum_number_function_evaluations=nfev,
                    clp_link_tolerance=spec.get("clp_link_tolerance", 0.0))
    return optimize(scheme, verbose=False, raise_exception=True)


# ------------------------------------------------------------------------------------------------------
# declaration-order permutation
# ------------------------------------------------------------------------------------------------------
def _shuffled(rng, xs):
    xs = list(xs)
    rng.shuffle(xs)
    return xs


def _perm(rng, n):
    p = list(range(n))
    rng.shuffle(p)
    return p


def permute(spec, rng, what=None):
    """a twin of `spec`: the same model with declaration orders permuted.  `what` restricts the kinds of
    permutation (set of: sections, compartments, k_entries, oscillations, shapes, megacomplexes, datasets,
    k_matrices); default all.  Sequential compartments are never permuted (their order is the chain)."""
    kinds = {"sections", "compartments", "k_entries", "oscillations", "shapes", "megacomplexes", "datasets", "k_matrices"}
    what = kinds if what is None else set(what)
    s = copy.deepcopy(spec)
    if "sections" in what:
        for sec in ("k_matrix", "initial_concentration", "irf", "shape", "megacomplex"):
            if s.get(sec):
                s[sec] = _shuffled(rng, s[sec])
    if "datasets" in what:
        s["dataset"] = _shuffled(rng, s["dataset"])
    if "k_entries" in what:
        for item in s.get("k_matrix", []):
            item[1] = _shuffled(rng, item[1])
    if "compartments" in what:
        for _, ic in s.get("initial_concentration", []):
            p = _perm(rng, len(ic["compartments"]))
            ic["compartments"] = [ic["compartments"][i] for i in p]
            ic["parameters"] = [ic["parameters"][i] for i in p]
            if ic.get("exclude_from_normalize"):
                ic["exclude_from_normalize"] = _shuffled(rng, ic["exclude_from_normalize"])
    for _, mc in s["megacomplex"]:
        t = mc["type"]
        if t in ("damped-oscillation", "pfid") and "oscillations" in what:
            p = _perm(rng, len(mc["labels"]))
            for k in ("labels", "frequencies", "rates"):
                mc[k] = [mc[k][i] for i in p]
        elif t == "decay-parallel" and "compartments" in what:
            p = _perm(rng, len(mc["compartments"]))
            for k in ("compartments", "rates"):
                mc[k] = [mc[k][i] for i in p]
        elif t == "spectral" and "shapes" in what:
            mc["shape"] = _shuffled(rng, mc["shape"])
        elif t == "decay" and "k_matrices" in what and not mc.get("k_order_matters"):
            mc["k_matrix"] = _shuffled(rng, mc["k_matrix"])
    if "megacomplexes" in what:
        for _, d in s["dataset"]:
            for lst, sc in (("megacomplex", "megacomplex_scale"), ("global_megacomplex", "global_megacomplex_scale")):
                if d.get(lst):
                    p = _perm(rng, len(d[lst]))
                    d[lst] = [d[lst][i] for i in p]
                    if d.get(sc) is not None:
                        d[sc] = [d[sc][i] for i in p]
    return s


def col_by_label(labels, matrix, label):
    """the column (2-D: vector, 3-D: index x model array) stored under `label`"""
    j = list(labels).index(label)
    return matrix[..., j]


# ------------------------------------------------------------------------------------------------------
# random specs over the builtin megacomplexes
# ------------------------------------------------------------------------------------------------------
RATE_POOL = [0.25, 0.5, 1.0, 1.5, 2.0, 3.0, 0.125, 0.75, 4.0]
FREQ_POOL = [5.0, 12.0, 20.0, 33.0, 47.0, 8.0, 26.0]
TIME_TYPES = ["decay", "decay-parallel", "decay-sequential", "damped-oscillation", "pfid", "coherent-artifact", "baseline"]
ALL_TYPES = TIME_TYPES + ["spectral", "clp-guide"]
IRF_KINDS = ["none", "gaussian", "multi-gaussian", "shift", "dispersion"]
COMP_POOL = ["s1", "s2", "s3", "s4", "s10", "s1a"]
OSC_POOL = ["osc1", "osc2", "o", "o_cos", "osc10"]


class SpecBuilder:
    def __init__(self, rng):
        self.rng = rng
        self.params = {}
        self.spec = {"parameters": self.params, "fixed": [], "k_matrix": [], "initial_concentration": [], "irf": [],
                     "shape": [], "megacomplex": [], "dataset": [],
                     "groups": {"default": {"link_clp": None, "residual_function": "variable_projection"}}}

    def par(self, v, group="p"):
        label = f"{group}.{sum(1 for k in self.params if k.startswith(group + '.')) + 1}"
        self.params[label] = float(v)
        return label

    def distinct(self, pool, n):
        return self.rng.sample(pool, n)

    # -- items -----------------------------------------------------------------------------------------
    def irf(self, kind, n_global):
        rng = self.rng
        if kind == "none":
            return None
        name = f"irf{len(self.spec['irf']) + 1}"
        if kind == "gaussian":
            d = {"type": "gaussian", "center": self.par(rng.choice([0.25, 0.5, 0.0]), "irf"),
                 "width": self.par(rng.choice([0.25, 0.5, 0.125]), "irf")}
        elif kind == "multi-gaussian":
            d = {"type": "multi-gaussian", "center": [self.par(0.25, "irf"), self.par(0.75, "irf")],
                 "width": [self.par(0.25, "irf"), self.par(0.5, "irf")],
                 "scale": [self.par(1.0, "irf"), self.par(0.5, "irf")]}
        elif kind == "shift":
            d = {"type": "gaussian", "center": self.par(0.5, "irf"), "width": self.par(0.25, "irf"),
                 "shift": [self.par(0.125 * (i + 1) * rng.choice([1, -1]), "irf") for i in range(n_global)]}
        else:
            d = {"type": "spectral-gaussian", "center": self.par(0.5, "irf"), "width": self.par(0.25, "irf"),
                 "dispersion_center": self.par(620.0, "irf"),
                 "center_dispersion_coefficients": [self.par(0.5, "irf"), self.par(-0.25, "irf")]}
        self.spec["irf"].append([name, d])
        return name

    def decay_general(self, name, comps, topology):
        """K-matrix (+ maybe a second one) over `comps`; returns megacomplex entry"""
        rng = self.rng
        rates = self.distinct(RATE_POOL, len(comps) + 2)
        entries = []
        n = len(comps)
        if n == 1:
            topology = "parallel"
        if topology == "chain":
            for i in range(n - 1):
                entries.append([comps[i + 1], comps[i], self.par(rates[i], "k")])
            entries.append([comps[-1], comps[-1], self.par(rates[n - 1], "k")])
        elif topology == "parallel":
            for i in range(n):
                entries.append([comps[i], comps[i], self.par(rates[i], "k")])
        elif topology == "branch":     # c0 -> c1, c0 -> c2, ... and every ci decays
            for i in range(1, n):
                entries.append([comps[i], comps[0], self.par(rates[i], "k")])
            for i in range(1, n):
                entries.append([comps[i], comps[i], self.par(rates[(i + 3) % len(rates)] + 0.0625 * i, "k")])
        else:                          # reversible first step + decay of the last
            entries.append([comps[1 % n], comps[0], self.par(rates[0], "k")])
            if n > 1:
                entries.append([comps[0], comps[1], self.par(rates[1], "k")])
            for i in range(1, n - 1):
                entries.append([comps[i + 1], comps[i], self.par(rates[i + 1], "k")])
            entries.append([comps[-1], comps[-1], self.par(rates[n], "k")])
        knames = []
        if len(entries) >= 2 and rng.random() < 0.4:     # split over two k-matrices (disjoint entries)
            cut = rng.randint(1, len(entries) - 1)
            parts = [entries[:cut], entries[cut:]]
        else:
            parts = [entries]
        for part in parts:
            kn = f"km{len(self.spec['k_matrix']) + 1}"
            self.spec["k_matrix"].append([kn, part])
            knames.append(kn)
        self.spec["megacomplex"].append([name, {"type": "decay", "k_matrix": knames}])

    def initial_concentration(self, comps, mode):
        rng = self.rng
        n = len(comps)
        if mode == "first":
            vals = [1.0] + [0.0] * (n - 1)
        elif mode == "second":
            vals = [0.0, 1.0] + [0.0] * (n - 2) if n > 1 else [1.0]
        elif mode == "even":
            vals = [1.0] * n
        else:
            vals = [float(rng.choice([1, 2, 3])) for _ in range(n)]
        name = f"j{len(self.spec['initial_concentration']) + 1}"
        d = {"compartments": list(comps), "parameters": [self.par(v, "j") for v in vals]}
        if mode == "exclude" and n > 1:
            d["exclude_from_normalize"] = [comps[-1]]
        self.spec["initial_concentration"].append([name, d])
        self.spec["fixed"] += d["parameters"]
        return name

    def oscillation(self, name, typ, labels):
        rng = self.rng
        fr = self.distinct(FREQ_POOL, len(labels))
        ra = self.distinct(RATE_POOL, len(labels))
        if typ == "pfid":
            fr = [600.0 + f for f in fr]
            ra = [-r for r in ra]
        elif rng.random() < 0.2:
            ra[0] = -ra[0] * 0.25
        self.spec["megacomplex"].append([name, {"type": typ, "labels": list(labels),
                                                "frequencies": [self.par(f, "osc") for f in fr],
                                                "rates": [self.par(r, "osc") for r in ra]}])

    def shape(self, loc):
        name = f"sh{len(self.spec['shape']) + 1}"
        self.spec["shape"].append([name, {"type": "gaussian", "amplitude": self.par(self.rng.choice([1.0, 2.0, 3.0]), "sh"),
                                           "location": self.par(loc, "sh"), "width": self.par(self.rng.choice([10.0, 20.0, 30.0]), "sh")}])
        return name


def decay_spectra_ok(spec):
    """every general decay megacomplex has real, well separated eigenvalues (the domain of the decay formulas;
    degenerate spectra make the eigenvector matrix singular and the result numerically arbitrary)"""
    ks = dict(spec.get("k_matrix", []))
    for _, mc in spec["megacomplex"]:
        if mc["type"] != "decay":
            continue
        entries = {}
        for kn in mc["k_matrix"]:
            for a, b, p in ks[kn]:
                entries[(a, b)] = spec["parameters"][p]
        comps = sorted({x for key in entries for x in key})
        K = np.zeros((len(comps), len(comps)))
        for (a, b), v in entries.items():
            i, j = comps.index(a), comps.index(b)
            if i == j:
                K[i, i] -= v
            else:
                K[i, j] += v
                K[j, j] -= v
        ev = np.linalg.eigvals(K)
        if np.max(np.abs(ev.imag)) > 1e-12:
            return False
        ev = np.sort(ev.real)
        if len(ev) > 1 and np.min(np.diff(ev)) < 0.06:
            return False
        if np.max(ev) > -0.05:
            return False
    return True


def gen_spec(rng, types=None, irf_kind=None, n_datasets=None, n_mc=None):
    """one random spec (see _gen_spec); general decay schemes are redrawn until their spectra are real and separated"""
    for _ in range(200):
        spec = _gen_spec(rng, types, irf_kind, n_datasets, n_mc)
        if decay_spectra_ok(spec):
            return spec
    raise RuntimeError("no admissible spec generated")


def _gen_spec(rng, types=None, irf_kind=None, n_datasets=None, n_mc=None):
    """one random spec: `types` = megacomplex types to draw from (time-dimension types, or ["spectral"])"""
    b = SpecBuilder(rng)
    spec = b.spec
    n_ds = n_datasets or rng.choice([1, 1, 2])
    spectral_main = types == ["spectral"]
    n_global = rng.choice([2, 3, 4])
    if spectral_main:
        model_axis = [600.0 + 10.0 * i for i in range(rng.randint(7, 10))]
        global_axis = [0.5 * i for i in range(n_global)]
    else:
        t0 = rng.choice([-1.0, -0.5, 0.0])
        step = rng.choice([0.25, 0.375, 0.5])
        model_axis = [t0 + step * i for i in range(rng.randint(9, 13))]
        if rng.random() < 0.3:   # irregular axis
            model_axis = sorted(set(model_axis + [model_axis[2] + step / 4, model_axis[-1] + 2 * step]))
        global_axis = [600.0 + 20.0 * i for i in range(n_global)]
    irf_kind = irf_kind if irf_kind is not None else rng.choice(IRF_KINDS)
    for di in range(n_ds):
        dlabel = ["d1", "d2", "d10"][di]
        d = {"megacomplex": [], "megacomplex_scale": None, "irf": None, "initial_concentration": None,
             "model_dim": "spectral" if spectral_main else "time", "global_dim": "time" if spectral_main else "spectral",
             "model_axis": list(model_axis), "global_axis": list(global_axis)}
        if spectral_main:
            k = n_mc or rng.choice([1, 2])
            comps = rng.sample(COMP_POOL, rng.randint(2, 4))
            for mi in range(k):
                mname = f"m{len(spec['megacomplex']) + 1}"
                mine = comps if mi == 0 else rng.sample(comps, rng.randint(1, len(comps)))
                spec["megacomplex"].append([mname, {"type": "spectral",
                                                    "shape": [[c, b.shape(rng.choice(model_axis))] for c in mine]}])
                d["megacomplex"].append(mname)
        else:
            pool = [t for t in (types or TIME_TYPES)]
            k = n_mc or rng.choice([1, 2, 2, 3])
            chosen = [rng.choice(pool) for _ in range(k)]
            need_irf = any(t in ("pfid", "coherent-artifact") for t in chosen)
            kind = irf_kind
            if need_irf and kind == "none":
                kind = rng.choice(IRF_KINDS[1:])
            d["irf"] = b.irf(kind, n_global)
            seen_unique = set()
            general_comps = None
            for t in chosen:
                if t in ("baseline", "coherent-artifact"):
                    if t in seen_unique:
                        continue
                    seen_unique.add(t)
                mname = f"m{len(spec['megacomplex']) + 1}"
                if t == "decay":
                    if general_comps is None:
                        general_comps = rng.sample(COMP_POOL, rng.randint(2, 4))
                        mode = rng.choice(["first", "second", "even", "even", "random", "random", "exclude"])
                        d["initial_concentration"] = b.initial_concentration(general_comps, mode)
                        mine = general_comps if rng.random() < 0.7 else rng.sample(general_comps, rng.randint(1, len(general_comps)))
                    else:
                        mine = rng.sample(general_comps, rng.randint(1, len(general_comps)))
                    # the K-matrix sees its compartments in an order unrelated to the initial concentration's
                    b.decay_general(mname, _shuffled(rng, mine), rng.choice(["chain", "parallel", "branch", "reversible"]))
                elif t in ("decay-parallel", "decay-sequential"):
                    comps = rng.sample(COMP_POOL, rng.randint(1, 4))
                    rates = b.distinct(RATE_POOL, len(comps))
                    spec["megacomplex"].append([mname, {"type": t, "compartments": comps,
                                                        "rates": [b.par(r, "k") for r in rates]}])
                elif t in ("damped-oscillation", "pfid"):
                    b.oscillation(mname, t, rng.sample(OSC_POOL, rng.randint(1, 4)))
                elif t == "coherent-artifact":
                    mc = {"type": t, "order": rng.randint(1, 3)}
                    if rng.random() < 0.3:
                        mc["width"] = b.par(0.375, "irf")
                    spec["megacomplex"].append([mname, mc])
                elif t == "baseline":
                    spec["megacomplex"].append([mname, {"type": t, "dimension": "time"}])
                d["megacomplex"].append(mname)
            if not any(k.split(".")[0] in ("k", "osc") for k in b.params):
                # nothing to optimise (baseline / artifact only): add a parallel decay so that the fit is defined
                mname = f"m{len(spec['megacomplex']) + 1}"
                comps = rng.sample(COMP_POOL, 2)
                spec["megacomplex"].append([mname, {"type": "decay-parallel", "compartments": comps,
                                                    "rates": [b.par(r, "k") for r in b.distinct(RATE_POOL, 2)]}])
                d["megacomplex"].append(mname)
            if len(d["megacomplex"]) > 1 and rng.random() < 0.5:
                d["megacomplex_scale"] = [b.par(rng.choice([1.0, 2.0, 0.5, 3.0]), "sc") for _ in d["megacomplex"]]
                spec["fixed"] += d["megacomplex_scale"]
        # enough model-axis points for the least-squares problem: at least (number of clp labels) + 4
        n_clp = 0
        for mname in d["megacomplex"]:
            mc = dict(spec["megacomplex"])[mname]
            n_clp += {"decay": 4, "decay-parallel": len(mc.get("compartments", [])), "decay-sequential": len(mc.get("compartments", [])),
                      "damped-oscillation": 2 * len(mc.get("labels", [])), "pfid": 2 * len(mc.get("labels", [])),
                      "coherent-artifact": mc.get("order", 0), "baseline": 1, "spectral": len(mc.get("shape", []))}[mc["type"]]
        while len(d["model_axis"]) < n_clp + 4:
            step = d["model_axis"][-1] - d["model_axis"][-2]
            d["model_axis"].append(d["model_axis"][-1] + step)
        nm, ng = len(d["model_axis"]), len(d["global_axis"])
        d["data"] = [[round(rng.uniform(-1, 3), 3) for _ in range(ng)] for _ in range(nm)]
        spec["dataset"].append([dlabel, d])
    return spec


def d4_misclassified(spec):
    """names of `decay` megacomplexes (per dataset) for which the real KMatrix.is_sequential answers True although the
    scheme is not a chain started in its first compartment (harness' own reading of 'sequential'): known defect D4"""
    from glotaran.model import fill_item

    model, parameters, _ = build(spec)
    bad = []
    for label, d in spec["dataset"]:
        dm = fill_item(model.dataset[label], model, parameters)
        for m in dm.megacomplex:
            if m.type != "decay":
                continue
            comps = m.get_compartments(dm)
            j = np.asarray(m.get_initial_concentration(dm), dtype=float)
            km = m.get_k_matrix()
            real = bool(km.is_sequential(comps, j))
            entries = {(t, f) for (t, f) in km.matrix}
            n = len(comps)
            chain = {(comps[i + 1], comps[i]) for i in range(n - 1)} | {(comps[n - 1], comps[n - 1])}
            truly = entries == chain and j[0] == 1 and not np.any(j[1:])
            if real and not truly:
                bad.append(f"{label}:{m.label}")
    return bad


def canonical(spec):
    """the same model declared in canonical order: every permutable collection sorted by label"""
    s = copy.deepcopy(spec)
    for sec in ("k_matrix", "initial_concentration", "irf", "shape", "megacomplex"):
        if s.get(sec):
            s[sec] = sorted(s[sec], key=lambda it: it[0])
    for item in s.get("k_matrix", []):
        item[1] = sorted(item[1])
    for _, ic in s.get("initial_concentration", []):
        order = sorted(range(len(ic["compartments"])), key=lambda i: ic["compartments"][i])
        ic["compartments"] = [ic["compartments"][i] for i in order]
        ic["parameters"] = [ic["parameters"][i] for i in order]
    for _, mc in s["megacomplex"]:
        t = mc["type"]
        if t in ("damped-oscillation", "pfid"):
            order = sorted(range(len(mc["labels"])), key=lambda i: mc["labels"][i])
            for k in ("labels", "frequencies", "rates"):
                mc[k] = [mc[k][i] for i in order]
        elif t == "decay-parallel":
            order = sorted(range(len(mc["compartments"])), key=lambda i: mc["compartments"][i])
            for k in ("compartments", "rates"):
                mc[k] = [mc[k][i] for i in order]
        elif t == "spectral":
            mc["shape"] = sorted(mc["shape"])
        elif t == "decay" and not mc.get("k_order_matters"):
            mc["k_matrix"] = sorted(mc["k_matrix"])
    return s


def guide_spec(rng):
    """a decay-sequential dataset and a clp-guide dataset for one of its species, linked"""
    b = SpecBuilder(rng)
    spec = b.spec
    comps = rng.sample(COMP_POOL, rng.randint(2, 3))
    rates = b.distinct(RATE_POOL, len(comps))
    spec["megacomplex"].append(["m1", {"type": "decay-sequential", "compartments": comps, "rates": [b.par(r, "k") for r in rates]}])
    target = rng.choice(comps)
    spec["megacomplex"].append(["m2", {"type": "clp-guide", "dimension": "time", "target": target}])
    spec["groups"] = {"default": {"link_clp": True, "residual_function": "variable_projection"}}
    t = [0.25 * i for i in range(12)]
    g = [600.0 + 20.0 * i for i in range(3)]
    spec["dataset"].append(["d1", {"megacomplex": ["m1"], "megacomplex_scale": None, "irf": None, "initial_concentration": None,
                                   "model_dim": "time", "global_dim": "spectral", "model_axis": t, "global_axis": g,
                                   "data": [[round(rng.uniform(-1, 3), 3) for _ in g] for _ in t]}])
    spec["dataset"].append(["d2", {"megacomplex": ["m2"], "megacomplex_scale": None, "irf": None, "initial_concentration": None,
                                   "model_dim": "time", "global_dim": "spectral", "model_axis": [0.0], "global_axis": g,
                                   "data": [[round(rng.uniform(0.5, 2), 3) for _ in g]]}])
    return spec


def apply_label_perm(spec, perm):
    """the twin in which every permutable label list of length len(perm) is re-ordered by `perm`
    (oscillation / pfid labels with their parameters, parallel compartments with rates, spectral shapes,
    initial-concentration compartments with parameters)"""
    s = copy.deepcopy(spec)
    n = len(perm)
    for _, ic in s.get("initial_concentration", []):
        if len(ic["compartments"]) == n:
            ic["compartments"] = [ic["compartments"][i] for i in perm]
            ic["parameters"] = [ic["parameters"][i] for i in perm]
    for _, mc in s["megacomplex"]:
        t = mc["type"]
        if t in ("damped-oscillation", "pfid") and len(mc["labels"]) == n:
            for k in ("labels", "frequencies", "rates"):
                mc[k] = [mc[k][i] for i in perm]
        elif t == "decay-parallel" and len(mc["compartments"]) == n:
            for k in ("compartments", "rates"):
                mc[k] = [mc[k][i] for i in perm]
        elif t == "spectral" and len(mc["shape"]) == n:
            mc["shape"] = [mc["shape"][i] for i in perm]
    return s


def apply_megacomplex_order(spec, order):
    """the twin in which every dataset with len(order) megacomplexes lists them in `order` (scales follow)"""
    s = copy.deepcopy(spec)
    for _, d in s["dataset"]:
        if len(d["megacomplex"]) == len(order):
            d["megacomplex"] = [d["megacomplex"][i] for i in order]
            if d.get("megacomplex_scale") is not None:
                d["megacomplex_scale"] = [d["megacomplex_scale"][i] for i in order]
    return s


def labelled_spec(rng, typ, n_labels, irf_kind):
    """one dataset, one megacomplex of type `typ` with exactly `n_labels` declared labels"""
    b = SpecBuilder(rng)
    spec = b.spec
    spectral = typ == "spectral"
    g = [0.5 * i for i in range(3)] if spectral else [600.0 + 20.0 * i for i in range(3)]
    t = [600.0 + 10.0 * i for i in range(10)] if spectral else [-1.0 + 0.375 * i for i in range(2 * n_labels + 8)]
    d = {"megacomplex": ["m1"], "megacomplex_scale": None, "irf": None, "initial_concentration": None,
         "model_dim": "spectral" if spectral else "time", "global_dim": "time" if spectral else "spectral",
         "model_axis": t, "global_axis": g}
    if not spectral:
        d["irf"] = b.irf(irf_kind if (irf_kind != "none" or typ != "pfid") else "gaussian", len(g))
    labels = COMP_POOL[:n_labels]
    if typ in ("damped-oscillation", "pfid"):
        b.oscillation("m1", typ, [f"o{i + 1}" for i in range(n_labels)])
        m = dict(spec["megacomplex"])["m1"]
        if typ == "damped-oscillation":      # positive rates only
            for p in m["rates"]:
                spec["parameters"][p] = abs(spec["parameters"][p])
    elif typ == "decay-parallel":
        spec["megacomplex"].append(["m1", {"type": typ, "compartments": labels, "rates": [b.par(r, "k") for r in b.distinct(RATE_POOL, n_labels)]}])
    elif typ == "spectral":
        spec["megacomplex"].append(["m1", {"type": typ, "shape": [[c, b.shape(t[1 + 2 * i])] for i, c in enumerate(labels)]}])
    elif typ == "decay":
        d["initial_concentration"] = b.initial_concentration(labels, "random")
        b.decay_general("m1", list(labels), rng.choice(["chain", "branch", "parallel"]))
    d["data"] = [[round(rng.uniform(-1, 3), 3) for _ in g] for _ in t]
    spec["dataset"].append(["d1", d])
    if not decay_spectra_ok(spec):
        return labelled_spec(rng, typ, n_labels, irf_kind)
    return spec


# ------------------------------------------------------------------------------------------------------
# full models: datasets with global megacomplexes
# ------------------------------------------------------------------------------------------------------
def global_matrices(spec):
    """{dataset label: (global clp labels, global matrix)} for the datasets with a global model
    (MatrixProvider.calculate_dataset_matrix(..., global_matrix=True) on the filled dataset models)"""
    from glotaran.model import fill_item
    from glotaran.optimization.matrix_provider import MatrixProvider

    model, parameters, _ = build(spec)
    out = {}
    for label, d in spec["dataset"]:
        if not d.get("global_megacomplex"):
            continue
        dm = fill_item(model.dataset[label], model, parameters)
        mc = MatrixProvider.calculate_dataset_matrix(
            dm, np.array(d["global_axis"], dtype=np.float64), np.array(d["model_axis"], dtype=np.float64), global_matrix=True)
        out[label] = (list(mc.clp_labels), np.array(mc.matrix, dtype=np.float64))
    return out


def half_specs(spec, dlabel):
    """(model half, global half) of the full-model dataset `dlabel`: the same dataset without its global megacomplexes,
    and the *transposed* dataset whose megacomplexes are the global megacomplexes (model axis = the global axis)"""
    d = dict(spec["dataset"])[dlabel]
    mh = copy.deepcopy(spec)
    md = copy.deepcopy(d)
    md["global_megacomplex"], md["global_megacomplex_scale"] = None, None
    mh["dataset"] = [[dlabel, md]]
    gh = copy.deepcopy(spec)
    gd = copy.deepcopy(d)
    gd["megacomplex"], gd["megacomplex_scale"] = list(d["global_megacomplex"]), d.get("global_megacomplex_scale")
    gd["global_megacomplex"], gd["global_megacomplex_scale"] = None, None
    gd["model_axis"], gd["global_axis"] = list(d["global_axis"]), list(d["model_axis"])
    gd["model_dim"], gd["global_dim"] = d.get("global_dim", "spectral"), d.get("model_dim", "time")
    gd["data"] = np.asarray(d["data"], dtype=np.float64).T.tolist()
    gh["dataset"] = [[dlabel, gd]]
    return mh, gh


def gen_full_spec(rng, kind=None):
    """one dataset with a global model.  kind 'time-x-spectral': decay-type megacomplexes along time, spectral (+ baseline)
    global megacomplexes; 'spectral-x-time': spectral megacomplexes along the spectral axis, decay-type global megacomplexes.
    Labels are partly shared between the megacomplexes of one side (their columns add) and may coincide across the two
    sides (a clp label equal to a global clp label must not confuse anything)."""
    for _ in range(200):
        spec = _gen_full_spec(rng, kind)
        if decay_spectra_ok(spec):
            return spec
    raise RuntimeError("no admissible full-model spec generated")


def _gen_full_spec(rng, kind=None):
    b = SpecBuilder(rng)
    spec = b.spec
    kind = kind or rng.choice(["time-x-spectral", "time-x-spectral", "spectral-x-time"])
    t0, step = rng.choice([-0.5, 0.0]), rng.choice([0.25, 0.375, 0.5])
    time_axis = [t0 + step * i for i in range(rng.randint(10, 12))]
    spec_axis = [600.0 + 15.0 * i for i in range(rng.randint(6, 8))]
    time_first = kind == "time-x-spectral"
    d = {"megacomplex": [], "megacomplex_scale": None, "global_megacomplex": [], "global_megacomplex_scale": None,
         "irf": None, "initial_concentration": None,
         "model_dim": "time" if time_first else "spectral", "global_dim": "spectral" if time_first else "time",
         "model_axis": time_axis if time_first else spec_axis, "global_axis": spec_axis if time_first else time_axis}
    # ---- the time side --------------------------------------------------------------------------------
    irf_kind = rng.choice(["none", "gaussian", "shift", "dispersion"] if time_first else ["none", "gaussian", "multi-gaussian"])
    d["irf"] = b.irf(irf_kind, len(d["global_axis"]))
    time_names = []
    general_comps = None
    for _k in range(rng.choice([1, 1, 2])):
        mname = f"m{len(spec['megacomplex']) + 1}"
        t = rng.choice(["decay-parallel", "decay-sequential", "decay"])
        if t == "decay":
            if general_comps is None:
                general_comps = rng.sample(COMP_POOL, rng.randint(2, 3))
                d["initial_concentration"] = b.initial_concentration(general_comps, rng.choice(["first", "even", "random"]))
            b.decay_general(mname, _shuffled(rng, general_comps), rng.choice(["chain", "parallel", "branch"]))
        else:
            comps = rng.sample(COMP_POOL, rng.randint(1, 3))
            spec["megacomplex"].append([mname, {"type": t, "compartments": comps, "rates": [b.par(r, "k") for r in b.distinct(RATE_POOL, len(comps))]}])
        time_names.append(mname)
    if rng.random() < 0.3:
        mname = f"m{len(spec['megacomplex']) + 1}"
        spec["megacomplex"].append([mname, {"type": "baseline", "dimension": "time"}])
        time_names.append(mname)
    # ---- the spectral side -----------------------------------------------------------------------------
    spectral_names = []
    comps = rng.sample(COMP_POOL + ["g1"], rng.randint(2, 3))
    locs = rng.sample(spec_axis, len(spec_axis))
    for mi in range(rng.choice([1, 2, 2, 3])):
        mname = f"m{len(spec['megacomplex']) + 1}"
        mine = comps if mi == 0 else rng.sample(comps, rng.randint(1, len(comps)))
        shapes = []
        for c in mine:
            name = f"sh{len(spec['shape']) + 1}"
            spec["shape"].append([name, {"type": "gaussian", "amplitude": b.par(rng.choice([1.0, 2.0, 3.0]), "sh"),
                                         "location": b.par(locs[len(spec['shape']) % len(locs)], "sh"),
                                         "width": b.par(rng.choice([12.0, 18.0, 25.0]), "sh")}])
            shapes.append([c, name])
        spec["megacomplex"].append([mname, {"type": "spectral", "shape": shapes}])
        spectral_names.append(mname)
    if rng.random() < 0.3:
        mname = f"m{len(spec['megacomplex']) + 1}"
        spec["megacomplex"].append([mname, {"type": "baseline", "dimension": "spectral"}])
        spectral_names.append(mname)
    model_names, global_names = (time_names, spectral_names) if time_first else (spectral_names, time_names)
    d["megacomplex"], d["global_megacomplex"] = model_names, global_names
    if len(model_names) > 1 and rng.random() < 0.5:
        d["megacomplex_scale"] = [b.par(rng.choice([1.0, 2.0, 0.5]), "sc") for _ in model_names]
        spec["fixed"] += d["megacomplex_scale"]
    if len(global_names) > 1 and rng.random() < 0.6:
        d["global_megacomplex_scale"] = [b.par(rng.choice([1.0, 2.0, 0.5, 3.0]), "sc") for _ in global_names]
        spec["fixed"] += d["global_megacomplex_scale"]
    nm, ng = len(d["model_axis"]), len(d["global_axis"])
    d["data"] = [[round(rng.uniform(-1, 3), 3) for _ in range(ng)] for _ in range(nm)]
    spec["dataset"].append(["d1", d])
    return spec


def introspection_spec(rng, typ, n, irf_kind):
    """one dataset, one megacomplex of type `typ` with `n` components (labelled_spec covers the label-list types)"""
    if typ in ("damped-oscillation", "pfid", "decay-parallel", "spectral", "decay"):
        return labelled_spec(rng, typ, n, irf_kind)
    if typ == "clp-guide":
        return guide_spec(rng)
    b = SpecBuilder(rng)
    spec = b.spec
    g = [600.0 + 20.0 * i for i in range(3)]
    t = [-1.0 + 0.375 * i for i in range(2 * n + 8)]
    d = {"megacomplex": ["m1"], "megacomplex_scale": None, "irf": b.irf(irf_kind, len(g)), "initial_concentration": None,
         "model_dim": "time", "global_dim": "spectral", "model_axis": t, "global_axis": g}
    if typ == "decay-sequential":
        spec["megacomplex"].append(["m1", {"type": typ, "compartments": COMP_POOL[:n], "rates": [b.par(r, "k") for r in b.distinct(RATE_POOL, n)]}])
    elif typ == "coherent-artifact":
        spec["megacomplex"].append(["m1", {"type": typ, "order": n}])
    elif typ == "baseline":
        spec["megacomplex"].append(["m1", {"type": typ, "dimension": "time"}])
    else:
        raise ValueError(typ)
    if typ in ("coherent-artifact", "baseline"):
        spec["megacomplex"].append(["m2", {"type": "decay-parallel", "compartments": ["s1"], "rates": [b.par(0.5, "k")]}])
        d["megacomplex"].append("m2")
    d["data"] = [[round(rng.uniform(-1, 3), 3) for _ in g] for _ in t]
    spec["dataset"].append(["d1", d])
    return spec
