"""C05 helpers: IRF specifications -> real glotaran objects, protocol encoding, evaluation of the model's
terms with mpmath, and the independent convolution oracle (mpmath quadrature).

An *IRF spec* is a plain dict (JSON-able, floats round-trip through repr):
    {"type": "gaussian" | "multi-gaussian" | "spectral-gaussian" | "spectral-multi-gaussian",
     "center": [..], "width": [..], "scale": None | [..], "shift": None | [..], "normalize": bool,
     "backsweep": bool, "backsweep_period": None | float,
     "dispersion_center": None | float, "center_disp": [..], "width_disp": [..], "wavenumber": bool}
"""
from __future__ import annotations

import re
from fractions import Fraction

import numpy as np

from harness import core
from harness.core import bool_, lst, rat, rats

SPECTRAL = ("spectral-gaussian", "spectral-multi-gaussian")
SINGLE = ("gaussian", "spectral-gaussian")


def default_irf(**kw):
    d = {"type": "multi-gaussian", "center": [0.0], "width": [1.0], "scale": None, "shift": None,
         "normalize": True, "backsweep": False, "backsweep_period": None, "dispersion_center": None,
         "center_disp": [], "width_disp": [], "wavenumber": False}
    d.update(kw)
    return d


# ------------------------------------------------------------------------------------------
# protocol encoding
# ------------------------------------------------------------------------------------------
def opt(x, f):
    return "none" if x is None else f(x)


def enc_irf(irf) -> str:
    if irf is None:
        return "none"
    return lst([
        bool_(irf["type"] in SPECTRAL), rats(irf["center"]), rats(irf["width"]),
        opt(irf["scale"], rats), opt(irf["shift"], rats), bool_(irf["normalize"]), bool_(irf["backsweep"]),
        opt(irf["backsweep_period"], rat), opt(irf["dispersion_center"], rat),
        rats(irf["center_disp"]), rats(irf["width_disp"]), bool_(irf["wavenumber"]),
    ])


def ratss(m) -> str:
    return lst(rats(r) for r in m)


# ------------------------------------------------------------------------------------------
# real objects
# ------------------------------------------------------------------------------------------
def irf_item(irf):
    """the IRF item built directly from its class with Parameter objects (no Model / fill_item)"""
    from glotaran.builtin.megacomplexes.decay.irf import IrfGaussian
    from glotaran.builtin.megacomplexes.decay.irf import IrfMultiGaussian
    from glotaran.builtin.megacomplexes.decay.irf import IrfSpectralGaussian
    from glotaran.builtin.megacomplexes.decay.irf import IrfSpectralMultiGaussian
    from glotaran.parameter import Parameter

    cls = {"gaussian": IrfGaussian, "multi-gaussian": IrfMultiGaussian,
           "spectral-gaussian": IrfSpectralGaussian, "spectral-multi-gaussian": IrfSpectralMultiGaussian}[irf["type"]]

    def P(name, v):
        return Parameter(label=name, value=float(v))

    def PL(name, vs):
        return [P(f"{name}{i}", v) for i, v in enumerate(vs)]

    kw = {"label": "irf1", "normalize": irf["normalize"], "backsweep": irf["backsweep"]}
    if irf["type"] in SINGLE and len(irf["center"]) == 1 and len(irf["width"]) == 1:
        kw["center"], kw["width"] = P("c", irf["center"][0]), P("w", irf["width"][0])
    else:
        kw["center"], kw["width"] = PL("c", irf["center"]), PL("w", irf["width"])
    if irf["scale"] is not None:
        kw["scale"] = PL("s", irf["scale"])
    if irf["shift"] is not None:
        kw["shift"] = PL("sh", irf["shift"])
    if irf["backsweep_period"] is not None:
        kw["backsweep_period"] = P("T", irf["backsweep_period"])
    if irf["type"] in SPECTRAL:
        kw["dispersion_center"] = None if irf["dispersion_center"] is None else P("dc", irf["dispersion_center"])
        kw["center_dispersion_coefficients"] = PL("cd", irf["center_disp"])
        kw["width_dispersion_coefficients"] = PL("wd", irf["width_disp"])
        kw["model_dispersion_with_wavenumber"] = irf["wavenumber"]
    return cls(**kw)


_MODEL_CLASS = {}


def model_class():
    if "m" not in _MODEL_CLASS:
        from glotaran.builtin.megacomplexes.decay import DecayMegacomplex
        from glotaran.builtin.megacomplexes.decay import DecayParallelMegacomplex
        from glotaran.builtin.megacomplexes.decay import DecaySequentialMegacomplex
        from glotaran.model import Model

        _MODEL_CLASS["m"] = Model.create_class_from_megacomplexes(
            [DecayMegacomplex, DecayParallelMegacomplex, DecaySequentialMegacomplex])
    return _MODEL_CLASS["m"]


def build_dataset(irf, mc):
    """Model + Parameters + fill_item: the filled dataset model and its decay megacomplex (the API path)."""
    from glotaran.model.item import fill_item

    model, params = build_model(irf, mc)
    ds = fill_item(model.dataset["d1"], model, params)
    return ds, ds.megacomplex[0]


def build_model(irf, mc, vary_rates=False):
    """the Model and Parameters of one dataset `d1` with megacomplex `mc1` and (optionally) IRF `irf1`.
    `mc` = {"kind": "parallel" | "sequential" | "general", "rates": [..]}.
    IRF attributes the model format cannot express (dispersion_center None on a spectral IRF) raise KeyError."""
    from glotaran.parameter import Parameters

    plist = []

    def P(name, v):
        plist.append([name, float(v), {"vary": bool(vary_rates and name.startswith("k")), "non-negative": False}])
        return f"p.{name}"

    def PL(name, vs):
        return [P(f"{name}{i}", v) for i, v in enumerate(vs)]

    rates = mc["rates"]
    comps = [f"s{i + 1}" for i in range(len(rates))]
    rate_labels = PL("k", rates)
    md = {"dataset": {"d1": {"megacomplex": ["mc1"]}}}
    if mc["kind"] == "parallel":
        md["megacomplex"] = {"mc1": {"type": "decay-parallel", "compartments": comps, "rates": rate_labels}}
    elif mc["kind"] == "sequential":
        md["megacomplex"] = {"mc1": {"type": "decay-sequential", "compartments": comps, "rates": rate_labels}}
    else:  # general: chain s1 -> s2 -> ... -> sn -> out, through the eigen-decomposition path
        matrix = {}
        for i, c in enumerate(comps):
            to = comps[i + 1] if i + 1 < len(comps) else c
            matrix[(to, c)] = rate_labels[i]
        md["megacomplex"] = {"mc1": {"type": "decay", "k_matrix": ["km1"]}}
        md["k_matrix"] = {"km1": {"matrix": matrix}}
        j = [P(f"j{i}", v) for i, v in enumerate(mc.get("j", [1.0] + [0.0] * (len(comps) - 1)))]
        md["initial_concentration"] = {"j1": {"compartments": comps, "parameters": j}}
        md["dataset"]["d1"]["initial_concentration"] = "j1"
    if irf is not None:
        d = {"type": irf["type"], "normalize": irf["normalize"], "backsweep": irf["backsweep"]}
        if irf["type"] in SINGLE:
            if len(irf["center"]) != 1 or len(irf["width"]) != 1:
                raise KeyError("single gaussian types take one centre and one width")
            d["center"], d["width"] = P("c", irf["center"][0]), P("w", irf["width"][0])
        else:
            d["center"], d["width"] = PL("c", irf["center"]), PL("w", irf["width"])
        if irf["scale"] is not None:
            d["scale"] = PL("s", irf["scale"])
        if irf["shift"] is not None:
            d["shift"] = PL("sh", irf["shift"])
        if irf["backsweep_period"] is not None:
            d["backsweep_period"] = P("T", irf["backsweep_period"])
        if irf["type"] in SPECTRAL:
            if irf["dispersion_center"] is None:
                raise KeyError("the model format needs a dispersion_center")
            d["dispersion_center"] = P("dc", irf["dispersion_center"])
            d["center_dispersion_coefficients"] = PL("cd", irf["center_disp"])
            d["width_dispersion_coefficients"] = PL("wd", irf["width_disp"])
            d["model_dispersion_with_wavenumber"] = irf["wavenumber"]
        md["irf"] = {"irf1": d}
        md["dataset"]["d1"]["irf"] = "irf1"
    model = model_class()(**md)
    params = Parameters.from_dict({"p": plist})
    return model, params


def classify_error(e: Exception) -> str:
    name = type(e).__name__
    msg = str(e)
    if name == "ModelError":
        if "len(centers)" in msg:
            return "err:ModelError:len"
        if "len(scales)" in msg:
            return "err:ModelError:scales"
        if "No shift parameter" in msg:
            return "err:ModelError:shift"
        if "No dispersion center" in msg:
            return "err:ModelError:dispersion-center"
        return "err:ModelError:other"
    if name in ("TypeError", "AttributeError", "IndexError", "ZeroDivisionError"):
        return f"err:{name}"
    if name == "ValueError" and "Non-finite" in msg:
        return "err:ValueError:non-finite"
    return f"err:other:{name}"


def real_parameter(item, gi, axis) -> str:
    """canonical answer line of `irf.parameter(gi, axis)` (same format as the Lean driver)"""
    try:
        with np.errstate(all="ignore"):
            c, w, s, shift, bs, T = item.parameter(gi, np.asarray(axis, dtype=float))
    except Exception as e:  # noqa: BLE001
        return classify_error(e)
    vals = list(np.ravel(c)) + list(np.ravel(w)) + list(np.ravel(s)) + [float(shift), float(T)]
    if not all(np.isfinite(float(v)) for v in vals):
        return "unmodelled:non-finite"
    return f"ok {rats(np.ravel(c))} {rats(np.ravel(w))} {rats(np.ravel(s))} {rat(float(shift))} {bool_(bool(bs))} {rat(float(T))}"


# ------------------------------------------------------------------------------------------
# model terms -> mpmath
# ------------------------------------------------------------------------------------------
_TOK = re.compile(r"[\[\],]|[^\[\],\s]+")


def parse_terms(s: str):
    """nested lists of atom strings from the bracket syntax (regex tokeniser: the leaves are long rationals)"""
    toks = _TOK.findall(s)
    pos = 0

    def tree():
        nonlocal pos
        t = toks[pos]
        if t == "[":
            pos += 1
            items = []
            if toks[pos] == "]":
                pos += 1
                return items
            while True:
                items.append(tree())
                t2 = toks[pos]
                pos += 1
                if t2 == "]":
                    return items
                if t2 != ",":
                    raise ValueError(f"bad term syntax near token {pos}")
        pos += 1
        return t

    out = tree()
    if pos != len(toks):
        raise ValueError("trailing tokens in term")
    return out


class TermEval:
    """value and forward-error scale of a term at 50 digits.
    scale: |leaf|, scale(a±b) = scale a + scale b, scale(a*b) = scale a * scale b, scale(a/b) = scale a / |b|,
    scale(f(a)) = |f(a)| — the comparison tolerance is relative to it, so a sum with cancellation
    (sequential A-matrix) is not asked for more digits than its operands have."""

    OPS = ("add", "sub", "mul", "div", "neg", "exp", "erf", "erfcx")

    def __init__(self, dps=50):
        import mpmath
        self.mp = mpmath
        self.dps = dps
        self.sqrt2 = None
        self.counts = {}
        self._cache = {}

    def leaf(self, a):
        mp = self.mp
        if a == "sqrt2":
            if self.sqrt2 is None:
                self.sqrt2 = mp.sqrt(2)
            return self.sqrt2, self.sqrt2
        v = self._cache.get(a)
        if v is None:
            if "/" in a:
                p, q = a.split("/")
                v = mp.mpf(int(p)) / mp.mpf(int(q))
            else:
                v = mp.mpf(int(a))
            if len(self._cache) < 200000:
                self._cache[a] = v
        return v, abs(v)

    def ev(self, t):
        mp = self.mp
        if isinstance(t, str):
            return self.leaf(t)
        op = t[0]
        self.counts[op] = self.counts.get(op, 0) + 1
        if op == "add":
            a, b = self.ev(t[1]), self.ev(t[2])
            return a[0] + b[0], a[1] + b[1]
        if op == "sub":
            a, b = self.ev(t[1]), self.ev(t[2])
            return a[0] - b[0], a[1] + b[1]
        if op == "mul":
            a, b = self.ev(t[1]), self.ev(t[2])
            return a[0] * b[0], a[1] * b[1]
        if op == "div":
            a, b = self.ev(t[1]), self.ev(t[2])
            if b[0] == 0:
                raise ZeroDivisionError("model term divides by zero")
            return a[0] / b[0], a[1] / abs(b[0])
        if op == "neg":
            a = self.ev(t[1])
            return -a[0], a[1]
        if op == "exp":
            v = mp.exp(self.ev(t[1])[0])
            return v, abs(v)
        if op == "erf":
            v = mp.erf(self.ev(t[1])[0])
            return v, abs(v)
        if op == "erfcx":
            x = self.ev(t[1])[0]
            v = mp.exp(x * x) * mp.erfc(x)
            return v, abs(v)
        raise ValueError(f"unknown term operator {op!r}")

    def matrix(self, tree):
        """nested lists of terms -> nested lists of (value, scale)"""
        if isinstance(tree, list) and tree and isinstance(tree[0], str) and tree[0] in self.OPS:
            return self.ev(tree)
        if isinstance(tree, str):
            return self.ev(tree)
        return [self.matrix(x) for x in tree]


RTOL = 1e-11     # relative to the forward-error scale of the term (see TermEval)
ATOL = 1e-300    # absolute floor near the underflow threshold of doubles


def close(mp, got: float, val, scale, rtol=RTOL, atol=ATOL, extra=0) -> bool:
    if not np.isfinite(got):
        return False
    return abs(mp.mpf(float(got)) - val) <= rtol * scale + atol + extra


def centre_magnitude(irf, axis) -> float:
    """largest |centre| + |shift| + sum |dispersion terms| over indices and Gaussians: the effective centre the
    code computes in doubles carries a rounding error of a few ulps of this magnitude"""
    mag = 0.0
    idxs = range(len(axis)) if spec_index_dependent(irf) else [None]
    for gi in idxs:
        sh = abs(irf["shift"][gi]) if irf["shift"] is not None and gi is not None and gi < len(irf["shift"]) else 0.0
        disp = 0.0
        if irf["type"] in SPECTRAL and irf["dispersion_center"] is not None and gi is not None and irf["center_disp"]:
            x, x0 = axis[gi], irf["dispersion_center"]
            if irf["wavenumber"]:
                dist = (1e3 / x - 1e3 / x0) if x != 0 and x0 != 0 else 0.0
            else:
                dist = (x - x0) / 100
            disp = sum(abs(c * dist ** (i + 1)) for i, c in enumerate(irf["center_disp"]))
        mag = max(mag, max(abs(c) for c in irf["center"]) + sh + disp) if irf["center"] else mag
    return mag


# ------------------------------------------------------------------------------------------
# the independent oracle: what the property statement demands, from the specification alone
# ------------------------------------------------------------------------------------------
def effective_gaussians(irf, gi, axis):
    """([(centre_eff, width_eff, scale)], None) for global index `gi` (None for an index-independent IRF), as
    the property states it: centres and widths broadcast as documented, centre - shift_i, plus the dispersion
    polynomial sum_n coef_n * dist**(n+1) with dist = (x - x0)/100 or 1e3/x - 1e3/x0.  Exact (Fractions).
    (None, reason) when the specification is outside the documented domain (mismatched counts, missing
    shift, ...) — the oracle then demands that no matrix is silently produced."""
    F = lambda v: Fraction(float(v))  # noqa: E731
    if gi is not None and gi >= len(axis):
        return None, "index-beyond-axis"
    cs, ws = [F(v) for v in irf["center"]], [F(v) for v in irf["width"]]
    if len(cs) != len(ws):
        if len(cs) == 1:
            cs = cs * len(ws)
        elif len(ws) == 1:
            ws = ws * len(cs)
        else:
            return None, "center-width-count"
    n = len(cs)
    ss = [Fraction(1)] * n if irf["scale"] is None else [F(v) for v in irf["scale"]]
    if len(ss) != n:
        return None, "scale-count-short" if len(ss) < n else "scale-count-long"
    shift = Fraction(0)
    if irf["shift"] is not None:
        if gi is None or gi >= len(irf["shift"]):
            return None, "no-shift-for-index"
        shift = F(irf["shift"][gi])
    dc, dw = Fraction(0), Fraction(0)
    if irf["type"] in SPECTRAL and irf["wavenumber"] and irf["dispersion_center"] is not None and gi is not None \
            and (F(axis[gi]) == 0 or F(irf["dispersion_center"]) == 0):
        return None, "zero-wavelength"
    if irf["type"] in SPECTRAL and (irf["center_disp"] or irf["width_disp"]):
        if irf["dispersion_center"] is None or gi is None:
            return None, "no-dispersion-center"
        x, x0 = F(axis[gi]), F(irf["dispersion_center"])
        if irf["wavenumber"]:
            if x == 0 or x0 == 0:
                return None, "zero-wavelength"
            dist = Fraction(1000) / x - Fraction(1000) / x0
        else:
            dist = (x - x0) / 100
        dc = sum((F(c) * dist ** (i + 1) for i, c in enumerate(irf["center_disp"])), Fraction(0))
        dw = sum((F(c) * dist ** (i + 1) for i, c in enumerate(irf["width_disp"])), Fraction(0))
    return [(c + dc - shift, w + dw, s) for c, w, s in zip(cs, ws, ss)], None


def spec_index_dependent(irf) -> bool:
    """index dependent as documented: a shift per index, or a spectral IRF (dispersion centre present)"""
    return irf["shift"] is not None or (irf["type"] in SPECTRAL and irf["dispersion_center"] is not None)


class Quad:
    """convolution of exp(-k s) 1_{s>=0} with the unit-area Gaussian N(mu, sigma) at time t by numerical
    quadrature of the defining integral  int_0^inf exp(-k s) g(t - s) ds  (no erf, no closed form):
    composite 64-point Gauss-Legendre on break points placed around the peak of the integrand (or, when it
    decays monotonically from s = 0, on its decay length).  The integrand is evaluated relative to its
    value at a reference point s0 with the difference-of-squares form of the exponent (doubles, no
    cancellation); the reference value exp(E(s0)) is evaluated with mpmath, so results far below the
    double range are still obtained with full relative accuracy (validated against mpmath's erfc form:
    relative error < 1e-12 over the property's ranges)."""

    _X, _W = np.polynomial.legendre.leggauss(64)

    def __init__(self, dps=50):
        import mpmath
        self.mp = mpmath
        self.dps = dps
        self.evals = 0

    def conv(self, k, t, mu, sigma):
        mp = self.mp
        self.evals += 1
        k, t, mu, sigma = (x if isinstance(x, Fraction) else Fraction(float(x)) for x in (k, t, mu, sigma))
        if sigma <= 0:
            raise ValueError("oracle needs a positive width")
        tau = t - mu
        kf, tf, sf = float(k), float(tau), float(sigma)
        m = tf - kf * sf * sf                      # where the integrand peaks (if >= 0)
        if m > 0:
            s0 = m
            pts = [m + j * sf for j in (-45, -24, -12, -8, -5, -3, -2, -1, 0, 1, 2, 3, 5, 8, 12, 24, 45)]
            pts = sorted({p for p in pts if p > 0} | {0.0})
        else:
            s0 = 0.0
            L = sf if m == 0 else min(sf, sf * sf / abs(m))   # monotone decay from s = 0 on this scale
            pts = [0.0] + [L * j for j in (0.25, 1, 3, 8, 20, 50, 120, 300, 800)]
        total = 0.0
        with np.errstate(under="ignore"):
            for a, b in zip(pts[:-1], pts[1:]):
                h = 0.5 * (b - a)
                s = h * self._X + 0.5 * (a + b)
                d = s - s0
                e = -d * (kf - (2 * tf - s - s0) / (2 * sf * sf))
                total += h * float(np.dot(self._W, np.exp(e)))
        fr = lambda x: mp.mpf(x.numerator) / mp.mpf(x.denominator)  # noqa: E731
        s0m = mp.mpf(s0)
        e0 = -fr(k) * s0m - (fr(tau) - s0m) ** 2 / (2 * fr(sigma) ** 2)
        return mp.exp(e0) * mp.mpf(total) / (fr(sigma) * mp.sqrt(2 * mp.pi))


def oracle_entry(q: Quad, gs, normalize, k, t):
    """(value, magnitude) of sum_g s_g * conv(k, t; c_g, w_g) / (sum_g s_g if normalize) for effective
    Gaussians `gs`; magnitude = the same sum with |s_g| (scale of the comparison when weights cancel)"""
    mp = q.mp
    fr = lambda x: mp.mpf(x.numerator) / mp.mpf(x.denominator)  # noqa: E731
    tot, mag = mp.mpf(0), mp.mpf(0)
    for c, w, s in gs:
        v = fr(s) * q.conv(Fraction(float(k)), t if isinstance(t, Fraction) else Fraction(float(t)), c, w)
        tot += v
        mag += abs(v)
    if normalize:
        d = fr(sum(s for _, _, s in gs))
        tot, mag = tot / d, mag / abs(d)
    return tot, mag
