"""C18 — overwrite protection of every save function; accumulation of project result runs.

correspondence: the real `glotaran.io.save_*`, `protect_from_overwrite`, `infer_file_format`,
`Project.create / generate_model / generate_parameters / import_data`, `ProjectResultRegistry`
and `Project.get_result_path / get_latest_result_path / load_result / load_latest_result / results`
run in-process on a scratch tree; the same inputs go to the Lean driver; canonical dumps are diffed.
oracle: the statement itself on the real code (byte/mtime comparison of the tree, run bookkeeping
recomputed from the history), independent of the model.
"""
from __future__ import annotations

import contextlib
import hashlib
import io
import itertools
import json
import os
import re
import shutil
import tempfile
import warnings
from contextlib import ExitStack
from pathlib import Path
from types import SimpleNamespace

from harness import core
from harness.core import bool_, enc, lst, strs
from harness.props import _c18_extract as ex

PROP = "C18"
GEN_FILE = core.LEAN / "GlotaranModel" / "Generated" / "C18.lean"

REQUIRED_THEOREMS = [
    # (a) overwrite protection
    "protect_refuses", "protect_keeps_files", "protect_only_adds_dirs", "protect_passes",
    "protect_first", "lookup_before_write", "save_never_destroys", "save_keeps_files_until_plugin",
    "save_unknown_format", "save_reaches_plugin", "guarded_write_never_destroys",
    "registry_save_uses_default_allow", "project_writers_pass_allow_through",
    # (a') the builtin yml / folder result plugins after entry
    "result_plugins_well_placed", "save_result_changes_only_result_files", "result_files_are_children_of_result_folder",
    "save_result_writes_only_inside_target_folder", "save_result_entry_changes_only_result_files",
    "save_result_into_absent_folder_keeps_every_file",
    # (b) result runs
    "run_name_fresh", "run_number_increases", "other_names_unaffected", "earlier_runs_unchanged",
    "earlier_runs_loadable", "latest_after_save", "latest_accepts_run_specifier",
    "history_numbering", "history_payloads", "history_latest", "results_lists_every_run",
    "source_patterns_are_the_modelled_ones",
    # (b) since the run-10000 fix (no bound on run numbers / history length) and for run-suffixed result names
    "run_names_have_run_suffix", "history_only_runs", "latest_of_run_suffixed_name_spec", "history_latest_counterexample",
    "history_latest_of_run_suffixed_name", "history_latest_of_run_suffixed_name_no_runs",
    # (b') result names with path separators (after the fix result-name-subfolder), aborted saves
    "tree_wf_kept", "run_numbers_fresh", "optimize_stores_run", "earlier_runs_unchanged_tree", "folder_listing_after_save",
    "latest_after_save_tree", "partial_run_never_reused", "latest_after_aborted_save_counterexample",
]
TRUSTED = [
    "hand-written model lean/GlotaranModel/C18.lean of io_plugin_utils.protect_from_overwrite / infer_file_format, "
    "ProjectResultRegistry (previous_result_paths, create_result_run_name, save, _latest_result_path_fallback), "
    "ProjectRegistry.items, Project.get_latest_result_path/load_latest_result and the four project-level writers, "
    "tied to the code by differential execution only",
    "extractor harness/props/_c18_extract.py (Python ast): effect lists of the save_* functions, call sites, regex constants; "
    "cross-checked on every run against observed file-system effects of the real save_* functions",
    "the OS file system, pathlib (resolve, mkdir, iterdir, is_file, is_dir), os.listdir, re, int(): observed only",
    "io plugins are arbitrary effects in the theorems of part (a); of the builtin plugins only save_result of the yml and the "
    "folder plugin is modelled after entry (step lists regenerated from the source; the writers of the single files - "
    "Path.write_text, DataFrame.to_csv, write_dict, the csv / netCDF / yml plugins behind the nested save_* calls - are "
    "parameters that write the file they are given or raise); all other builtin plugins are only observed (snapshot at "
    "plugin entry, outcome class, byte identity on refusal)",
]
ASSUMPTIONS = [
    "paths are absolute, normalised and free of symbolic links (Path.resolve is the identity on them)",
    "result names are ASCII and contain no newline (Python's \\d and int() also accept other Unicode digits); names with '/' "
    "are read as posix paths (part (b'): split at '/', empty and '.' parts dropped; absolute names and names with a '..' part are "
    "rejected by the code since the fix result-name-subfolder); Project.results (rglob over every folder) is modelled for one "
    "results folder only (part (b)), not for sub folders",
    "an aborted save is a run folder without result.yml (Kind.emptyDir), whatever else the plugin had written before the fault",
    "a result name that itself ends in _run_<four or more digits> is ambiguous for the latest-lookups by API design "
    "(get_latest_result_path strips a run specifier first, get_result_path takes it for a run folder): the latest theorems "
    "carry the hypothesis `endsWithRunSpecifier name = false`; what happens for such names is stated by "
    "latest_of_run_suffixed_name_spec / history_latest_of_run_suffixed_name(_no_runs), the failing statement by "
    "history_latest_counterexample (replayed on the real code: known finding latest-run-suffixed-name)",
    "dataset labels and format names are single path components (no '/'): the file names of the result plugins are one "
    "path component in the model (a label like '../x' leaves the result folder on the real code: recorded observation)",
    "nobody else modifies the scratch tree during a call",
]
RULE = (
    "(a) matrix save function x target state (absent, absent below missing folders, file, empty folder, folder with "
    "file, folder with folder, parent is a file, grandparent is a file, file in sub-folder) x file name "
    "(known/unknown/no/empty/hidden extension, .yml) x allow_overwrite x format_name (registered, unknown, None, '') x "
    "plugin script (nothing, write, write-then-raise, NotImplementedError, clobber-bystander-then-raise, folder-style) "
    "through a scripted spy plugin, plus every registered format (and an unknown one) with the builtin plugins on "
    "real objects; protect_from_overwrite and infer_file_format alone; the four project-level writers x "
    "{absent, file} x allow_overwrite x ignore_existing; the real save_result with the builtin yml / folder plugins on real "
    "results (one / three dataset labels, one with a dot, one with a blank) x 18 target situations (absent, given as file / "
    "as folder / with format yml, yaml, folder, folder holding siblings / the result file / a folder in the place of "
    "result.md, model.yml, parameter_history.csv, result.yml, a file in the place of the folder, top level) x allow_overwrite "
    "x saving options (default, no report, minimal filter): outcome and complete tree with the set of (re)written files "
    "against runResultPlugin over the regenerated step lists. Non-trivial = the target exists or a plugin is reached. "
    "(b) histories of optimize / foreign-file / foreign-folder operations over result names "
    "{a, ab, a_run, a_run_b, a.b, a_run_0000, a_b}; after every operation previous/create/lookups of the touched and "
    "two other names, at the end every lookup over a name universe, Project.results and a dump; "
    "non-trivial = at least two runs; distinct = distinct operation sequences. quick: seeded sample of the "
    "exhaustive space + random longer histories + histories across the 9999/10000 boundary (seeded run folders, "
    "five-digit and zero-padded foreign entries) + a few histories through the real "
    "Project.optimize; thorough: every history of length <= 5 over 5 names. "
    "(b') histories of optimize / aborted save (stand-in plugin raising before write 0, 1, 2 of its three files) / foreign file / "
    "foreign folder over result names with separators {sub/m, m, sub/, sub/deep/m, ./sub//m, sub/m_run_0000/x, ../m, <absolute>/m, "
    "sub/../m, .., blk/m, sub/m_run_b, sub/m_run_0000, ''} on the real ProjectResultRegistry of a scratch project; after every "
    "operation previous/create/lookups of the touched and two other names and the whole tree below results/ against the RTree "
    "model; pathlib's reading of f'{name}_run_' against folderOf / leafOf / nameRejected over all texts of <= 4 pieces of "
    "{a, /, ., .., _run_, 0000, b} (thorough; quick: 400 sampled); oracle without the model: stored, folder fresh, number above "
    "all earlier runs and aborted saves of that name, bytes of every earlier file unchanged, nothing outside results/, "
    "latest-lookups = most recent stored run; aborted saves at every write position also through the real Project.optimize "
    "with the real yml plugin"
)

SAVE_FNS = ["save_model", "save_parameters", "save_scheme", "save_result", "save_dataset"]


# ------------------------------------------------------------------------------------------------
# generated tables
# ------------------------------------------------------------------------------------------------
_TABLE_CACHE: dict = {}


def extract_all():
    if "fns" not in _TABLE_CACHE:
        _TABLE_CACHE["fns"] = ex.extract_save_fns(core.REPO)
        _TABLE_CACHE["sites"] = ex.extract_call_sites(core.REPO)
        _TABLE_CACHE["consts"] = ex.extract_constants(core.REPO)
        _TABLE_CACHE["plugins"] = ex.extract_result_plugins(core.REPO)
    return _TABLE_CACHE["fns"], _TABLE_CACHE["sites"], _TABLE_CACHE["consts"]


def extract_plugins():
    extract_all()
    return _TABLE_CACHE["plugins"]


def generate(ck):
    fns, sites, consts = extract_all()
    text = ex.render(fns, sites, consts, extract_plugins())
    GEN_FILE.parent.mkdir(parents=True, exist_ok=True)
    if not GEN_FILE.exists() or GEN_FILE.read_text() != text:
        GEN_FILE.write_text(text)
    files = ex.SAVE_MODULES + ["glotaran/project/project_result_registry.py", "glotaran/project/project.py",
                               "glotaran/plugin_system/io_plugin_utils.py"] + [f for f, _ in ex.RESULT_PLUGINS]
    return [{
        "table": "SaveFns + CallSites + Consts(C18) + ResultPlugins (lean/GlotaranModel/Generated/C18.lean)",
        "source": files + ["glotaran/**/*.py (call sites of save_*)"],
        "source_sha1": ex.source_sha1(core.REPO, files),
        "sha1": hashlib.sha1(text.encode()).hexdigest(),
        "save_functions": [f["name"] for f in fns],
        "call_sites": len(sites),
    }]


# ------------------------------------------------------------------------------------------------
# scratch trees
# ------------------------------------------------------------------------------------------------
def snapshot(root: Path) -> dict:
    """path components -> ('d', None, None) | ('f', bytes, mtime_ns)"""
    snap = {}
    for dirpath, dirnames, filenames in os.walk(root):
        rel = Path(dirpath).relative_to(root).parts
        for d in dirnames:
            snap[rel + (d,)] = ("d", None, None)
        for f in filenames:
            p = Path(dirpath) / f
            snap[rel + (f,)] = ("f", p.read_bytes(), p.stat().st_mtime_ns)
    return snap


def content_text(b: bytes) -> str:
    try:
        t = b.decode("utf-8")
        if all(32 <= ord(c) < 127 for c in t):
            return t
    except UnicodeDecodeError:
        pass
    return "bin-" + hashlib.sha1(b).hexdigest()[:12]


def dump(snap: dict) -> str:
    """canonical text, identical to the Lean driver's showFS"""
    items = []
    for comps in sorted(snap):
        kind, data, _ = snap[comps]
        items.append(f"[{strs(comps)},{'d,~' if kind == 'd' else 'f,' + enc(content_text(data))}]")
    return lst(items)


def spec_dump(spec) -> str:
    return lst(f"[{strs(c)},{'d,~' if k == 'd' else 'f,' + enc(t)}]" for c, k, t in sorted(spec, key=lambda e: tuple(e[0])))


def build(root: Path, spec):
    """spec: list of (components, 'd'|'f', text)"""
    for comps, kind, text in sorted(spec, key=lambda e: len(e[0])):
        p = root.joinpath(*comps)
        if kind == "d":
            p.mkdir(parents=True, exist_ok=True)
        else:
            p.parent.mkdir(parents=True, exist_ok=True)
            p.write_text(text)


def exc_name(e: BaseException | None) -> str:
    if e is None:
        return "ok"
    n = type(e).__name__
    if n in ("FileExistsError", "NotADirectoryError", "IsADirectoryError", "ValueError", "NotImplementedError"):
        return n
    return "other:" + enc(n)


class Scratch:
    def __init__(self):
        self.root = Path(tempfile.mkdtemp(prefix="c18-")).resolve()
        self.n = 0

    def fresh(self) -> Path:
        self.n += 1
        p = self.root / f"c{self.n}"
        p.mkdir()
        return p

    def drop(self, p: Path):
        shutil.rmtree(p, ignore_errors=True)

    def close(self):
        shutil.rmtree(self.root, ignore_errors=True)


# ------------------------------------------------------------------------------------------------
# (a) scenarios
# ------------------------------------------------------------------------------------------------
BYSTANDERS = [(("keep.txt",), "f", "keep-me"), (("d0",), "d", ""), (("d0", "inner.txt"), "f", "inner")]


def target_states(name: str):
    """(state label, initial tree, target components)"""
    t = name
    yield "absent", list(BYSTANDERS), (t,)
    yield "absent-deep", list(BYSTANDERS), ("new1", "new2", t)
    yield "file", BYSTANDERS + [((t,), "f", "old-content")], (t,)
    yield "emptydir", BYSTANDERS + [((t,), "d", "")], (t,)
    yield "dir-file", BYSTANDERS + [((t,), "d", ""), ((t, "child.txt"), "f", "child")], (t,)
    yield "dir-dir", BYSTANDERS + [((t,), "d", ""), ((t, "sub"), "d", "")], (t,)
    # a folder whose only entries are hidden ones is not empty (round-2 seeded change C18-6: dot entries were skipped)
    yield "dir-hidden", BYSTANDERS + [((t,), "d", ""), ((t, ".gitkeep"), "f", "")], (t,)
    yield "parent-file", BYSTANDERS + [(("pf",), "f", "iam-a-file")], ("pf", t)
    yield "grandparent-file", BYSTANDERS + [(("pf",), "f", "iam-a-file")], ("pf", "x", t)
    yield "file-in-subdir", BYSTANDERS + [(("sub",), "d", ""), (("sub", t), "f", "old-content"),
                                          (("sub", "other.txt"), "f", "other")], ("sub", t)


def exists_state(state: str) -> bool:
    return state in ("file", "dir-file", "dir-dir", "dir-hidden", "file-in-subdir")


TARGET_NAMES = ["out.fk", "out.zz", "out", "out.", ".hidden", "out.yml", "a.b.fk"]
FORMAT_MODES = [("given", "fk"), ("given", "nope"), ("none", None), ("empty", "")]


def scripts(target):
    t = list(target)
    return [
        ("nothing", []),
        ("write", [["w", t, "new"]]),
        ("write-raise", [["w", t, "new"], ["raise", "other:RuntimeError"]]),
        ("notimplemented", [["raise", "NotImplementedError"]]),
        ("clobber-raise", [["w", ["keep.txt"], "clobbered"], ["raise", "other:RuntimeError"]]),
        ("folder-style", [["mk", t], ["w", t + ["part.txt"], "part"]]),
    ]


def script_proto(ops) -> str:
    out = []
    for o in ops:
        if o[0] == "w":
            out.append(f"[w,{strs(o[1])},{enc(o[2])}]")
        elif o[0] == "mk":
            out.append(f"[mk,{strs(o[1])}]")
        else:
            out.append(f"[raise,{o[1]}]")
    return lst(out)


def run_script(root: Path, ops):
    for o in ops:
        if o[0] == "w":
            p = root.joinpath(*o[1])
            p.parent.mkdir(parents=True, exist_ok=True)
            p.write_text(o[2])
        elif o[0] == "mk":
            root.joinpath(*o[1]).mkdir(parents=True, exist_ok=True)
        else:
            name = o[1]
            if name == "NotImplementedError":
                raise NotImplementedError("scripted")
            if name == "other:RuntimeError":
                raise RuntimeError("scripted")
            raise AssertionError(name)


class Spy:
    """io plugin standing in the registry: records the tree at entry, then runs a script or the real plugin"""

    def __init__(self, real=None):
        self.real = real
        self.root = None
        self.ops = None
        self.entered = 0
        self.entry_snap = None

    def arm(self, root, ops):
        self.root, self.ops, self.entered, self.entry_snap = root, ops, 0, None

    def __getattr__(self, name):
        if name.startswith("save_"):
            def method(*a, **k):
                self.entered += 1
                if self.entered == 1:
                    self.entry_snap = snapshot(self.root)
                if self.real is not None:
                    return getattr(self.real, name)(*a, **k)
                run_script(self.root, self.ops)
                return []
            return method
        if self.real is not None:
            return getattr(self.real, name)
        raise AttributeError(name)


def call_save(fn_name, obj, path, allow, fmt_mode, fmt):
    import glotaran.io as gio

    fn = getattr(gio, fn_name)
    kw = {"allow_overwrite": allow}
    if fmt_mode in ("given", "empty"):
        kw["format_name"] = fmt
    try:
        fn(obj, path, **kw)
        return None
    except BaseException as e:  # noqa: BLE001
        if isinstance(e, (KeyboardInterrupt, SystemExit)):
            raise
        return e


def fake_object(fn_name):
    if fn_name == "save_dataset":
        return SimpleNamespace(attrs={})
    return SimpleNamespace(source_path=None)


# ------------------------------------------------------------------------------------------------
# oracle (a): the statement on the real tree
# ------------------------------------------------------------------------------------------------
def oracle_save(ck, case, before, after, err, entered, target, allow):
    """refusal before anything is written; existing files byte-identical"""
    ck.oracle_evals += 1
    t = tuple(target)
    kind = before.get(t, (None,))[0]
    nonempty = kind == "d" and any(len(p) == len(t) + 1 and p[: len(t)] == t for p in before)
    must_refuse = (not allow) and (kind == "f" or nonempty)
    fn = case.get("fn", "protect_from_overwrite")
    if must_refuse:
        if not isinstance(err, FileExistsError) or entered:
            ck.violation(f"no-refusal:{fn}", f"{fn}: target exists ({'file' if kind == 'f' else 'non-empty folder'}), "
                         f"allow_overwrite=False, but the call ended with {exc_name(err)} (plugin entered: {bool(entered)}) "
                         "instead of refusing with FileExistsError before the plugin", case)
        if {k: v[:2] for k, v in before.items()} != {k: v[:2] for k, v in after.items()}:
            changed = sorted("/".join(k) for k in set(before) | set(after) if before.get(k, (None,))[:2] != after.get(k, (None,))[:2])
            ck.violation(f"refused-but-changed:{fn}", f"{fn}: target exists and allow_overwrite=False, yet the tree changed: {changed}", case)
        elif any(before[k][2] != after[k][2] for k in before if before[k][0] == "f"):
            ck.violation(f"refused-but-touched:{fn}", f"{fn}: refused, but an existing file was rewritten (mtime changed)", case)
    elif not entered:
        # no plugin ran: whatever happened, no existing file may differ and no file may appear
        for k, v in before.items():
            if v[0] == "f" and after.get(k, (None, None))[:2] != v[:2]:
                ck.violation(f"changed-without-plugin:{fn}", f"{fn}: existing file {'/'.join(k)} changed although no plugin was called "
                             f"(outcome {exc_name(err)})", case)
        for k, v in after.items():
            if v[0] == "f" and k not in before:
                ck.violation(f"written-without-plugin:{fn}", f"{fn}: file {'/'.join(k)} appeared although no plugin was called", case)


# ------------------------------------------------------------------------------------------------
# (a) streams
# ------------------------------------------------------------------------------------------------
class Batch:
    """protocol lines + implementation answers + the case each line belongs to"""

    def __init__(self):
        self.lines, self.impl, self.cases = [], [], []

    def add(self, line, answer, case):
        self.lines.append(line)
        self.impl.append(answer)
        self.cases.append(case)

    def diff(self, ck, key):
        if not self.lines:
            return 0
        model = core.lean_driver(PROP, self.lines)
        seen, bad = set(), 0
        for i, (a, b) in enumerate(zip(self.impl, model)):
            if a is None:  # state-setting line
                if b != "ok":
                    raise core.HarnessError(f"driver rejected {self.lines[i]!r}: {b}")
                continue
            if a != b:
                cid = id(self.cases[i])
                if cid in seen:
                    continue
                seen.add(cid)
                bad += 1
                if len(ck.disagreements) < 40:
                    ck.disagree(key, f"after {self.lines[i][:300]!r}: implementation {a[:400]!r}, model {b[:400]!r}", self.cases[i])
        return bad


def known_formats(kind):
    from glotaran.plugin_system.data_io_registration import known_data_formats
    from glotaran.plugin_system.project_io_registration import known_project_formats

    return known_data_formats(full_names=True) if kind == "data" else known_project_formats(full_names=True)


def registries(spy_proj, spy_data, names):
    from glotaran.testing.plugin_system import monkeypatch_plugin_registry_data_io, monkeypatch_plugin_registry_project_io

    st = ExitStack()
    st.enter_context(monkeypatch_plugin_registry_project_io({n: spy_proj for n in names}))
    st.enter_context(monkeypatch_plugin_registry_data_io({n: spy_data for n in names}))
    return st


def save_case(ck, scratch, batch, fn, state, init, target, allow, fmt_mode, fmt, script_name, ops, spies, tag):
    spy_proj, spy_data = spies
    root = scratch.fresh()
    try:
        build(root, init)
        before = snapshot(root)
        spy = spy_data if fn == "save_dataset" else spy_proj
        spy.arm(root, ops)
        path = root.joinpath(*target)
        err = call_save(fn, fake_object(fn), path, allow, fmt_mode, fmt)
        after = snapshot(root)
        case = {"kind": "save", "fn": fn, "state": state, "init": [[list(c), k, t] for c, k, t in init], "target": list(target),
                "allow_overwrite": allow, "format_mode": fmt_mode, "format_name": fmt, "script": ops, "script_name": script_name,
                "observed": exc_name(err)}
        oracle_save(ck, case, before, after, err, spy.entered, target, allow)
        known = known_formats("data" if fn == "save_dataset" else "project")
        fmt_tok = "none" if fmt_mode == "none" else enc(fmt)
        batch.add(f"fs-reset {dump(before)}", None, case)
        batch.add(f"save {fn} {strs(target)} {bool_(allow)} {fmt_tok} {strs(known)} {script_proto(ops)} []",
                  f"{exc_name(err)} {dump(after)}", case)
        # the tree the plugin saw when it was entered
        batch.add(f"fs-reset {dump(before)}", None, case)
        entry = f"other:entered {dump(spy.entry_snap)}" if spy.entered else f"{exc_name(err)} {dump(after)}"
        batch.add(f"save {fn} {strs(target)} {bool_(allow)} {fmt_tok} {strs(known)} [[raise,other:entered]] []", entry, case)
        nontrivial = exists_state(state) or bool(spy.entered)
        ck.case(("save", fn, state, target, allow, fmt_mode, fmt, script_name), nontrivial)
        ck.count(f"a:stream:{tag}")
        ck.count(f"a:state:{state}")
        ck.count(f"a:outcome:{exc_name(err)}")
        ck.count(f"a:plugin-entered:{bool(spy.entered)}")
        ck.count(f"a:allow:{allow}")
        return case
    finally:
        scratch.drop(root)


def scripted_matrix(ck, full):
    """cases of the scripted-spy stream"""
    cases = []
    for fn in SAVE_FNS:
        for name in TARGET_NAMES:
            for state, init, target in target_states(name):
                for allow in (False, True):
                    for fmt_mode, fmt in FORMAT_MODES:
                        for script_name, ops in scripts(target):
                            cases.append((fn, state, init, target, allow, fmt_mode, fmt, script_name, ops))
    if full:
        return cases
    # quick: the complete core matrix on one file name + a seeded sample of the rest
    core_cases = [c for c in cases if c[3][-1] == "out.fk" and c[7] in ("write", "write-raise", "notimplemented")]
    rest = [c for c in cases if c not in core_cases]
    ck.rng.shuffle(rest)
    return core_cases + rest[: 600]


def stream_scripted(ck, scratch):
    spies = (Spy(), Spy())
    batch = Batch()
    cases = scripted_matrix(ck, full=not ck.quick)
    with registries(spies[0], spies[1], ["fk", "yaml"]):
        for i, (fn, state, init, target, allow, fmt_mode, fmt, script_name, ops) in enumerate(cases):
            case = save_case(ck, scratch, batch, fn, state, init, target, allow, fmt_mode, fmt, script_name, ops, spies, "scripted")
            if i % 977 == 0:
                ck.sample({k: case[k] for k in ("fn", "state", "target", "allow_overwrite", "format_mode", "format_name", "script_name", "observed")})
    batch.diff(ck, "save-model-vs-impl")
    if not ck.quick:
        ck.exhaustive = True
    ck.extra["scripted_save_matrix"] = (
        f"{len(cases)} cases: {len(SAVE_FNS)} save functions x {len(TARGET_NAMES)} file names x 9 target states x 2 x "
        f"{len(FORMAT_MODES)} format modes x 6 plugin scripts" + (" (complete)" if not ck.quick else " (complete core on out.fk + seeded sample)"))


_REAL_OBJECTS: dict = {}


def real_objects():
    """a real Model / Parameters / Scheme / Result / Dataset (one tiny optimisation, once per process)"""
    if not _REAL_OBJECTS:
        from glotaran.optimization.optimize import optimize
        from glotaran.project import Scheme
        from glotaran.testing.simulated_data.sequential_spectral_decay import DATASET, MODEL, PARAMETERS

        ds = DATASET.isel(spectral=slice(0, 8))
        scheme = Scheme(model=MODEL, parameters=PARAMETERS, data={"dataset_1": ds}, maximum_number_function_evaluations=1)
        with warnings.catch_warnings(), contextlib.redirect_stdout(io.StringIO()):
            warnings.simplefilter("ignore")
            result = optimize(scheme, raise_exception=True)
        _REAL_OBJECTS.update(save_model=MODEL, save_parameters=PARAMETERS, save_scheme=scheme, save_result=result, save_dataset=ds)
    return _REAL_OBJECTS


def stream_builtin(ck, scratch):
    """every save function x every registered format (+ an unknown one) with the builtin plugins on real objects"""
    from glotaran.plugin_system.data_io_registration import get_data_io, known_data_formats
    from glotaran.plugin_system.project_io_registration import get_project_io, known_project_formats

    objs = real_objects()
    batch = Batch()
    observations = {}
    states = [s for s in target_states("PLACEHOLDER") if s[0] in ("absent", "file", "emptydir", "dir-file")]
    for fn in SAVE_FNS:
        data = fn == "save_dataset"
        formats = (known_data_formats() if data else known_project_formats()) + ["nope"]
        for fmt in formats:
            if fmt == "yml_str":
                continue  # not a file format: the "file name" is the document itself
            for st_name, init0, target0 in states:
                for allow in (False, True):
                    for fmt_mode in ("given", "none"):
                        name = f"out.{fmt}"
                        init = [(tuple(name if c == "PLACEHOLDER" else c for c in comps), k, t) for comps, k, t in init0]
                        target = tuple(name if c == "PLACEHOLDER" else c for c in target0)
                        root = scratch.fresh()
                        try:
                            build(root, init)
                            before = snapshot(root)
                            real = None
                            eff_fmt = "yaml" if (fmt == "yml" and fmt_mode == "none") else fmt
                            if fmt != "nope":
                                real = get_data_io(eff_fmt) if data else get_project_io(eff_fmt)
                            spy = Spy(real)
                            spy.arm(root, [])
                            with ExitStack() as stack:
                                if real is not None:
                                    stack.enter_context(_one_registry(data, eff_fmt, spy))
                                err = call_save(fn, objs[fn], root.joinpath(*target), allow, fmt_mode, fmt)
                            after = snapshot(root)
                            case = {"kind": "builtin-save", "fn": fn, "format": fmt, "state": st_name, "target": list(target),
                                    "allow_overwrite": allow, "format_mode": fmt_mode, "observed": exc_name(err)}
                            oracle_save(ck, case, before, after, err, spy.entered, target, allow)
                            known = known_formats("data" if data else "project")
                            fmt_tok = "none" if fmt_mode == "none" else enc(fmt)
                            batch.add(f"fs-reset {dump(before)}", None, case)
                            if spy.entered:
                                answer = f"other:entered {dump(spy.entry_snap)}"
                            else:
                                answer = f"{exc_name(err)} {dump(after)}"
                            batch.add(f"save {fn} {strs(target)} {bool_(allow)} {fmt_tok} {strs(known)} [[raise,other:entered]] []",
                                      answer, case)
                            ck.case(("builtin", fn, fmt, st_name, allow, fmt_mode), st_name != "absent" or bool(spy.entered))
                            ck.count("a:stream:builtin")
                            ck.count(f"a:builtin-outcome:{exc_name(err)}")
                            ck.count(f"a:plugin-entered:{bool(spy.entered)}")
                            if spy.entered and err is not None:
                                observations.setdefault(f"{fn}/{fmt}: plugin raised {type(err).__name__} (state {st_name}, allow {allow})", 0)
                                observations[f"{fn}/{fmt}: plugin raised {type(err).__name__} (state {st_name}, allow {allow})"] += 1
                        finally:
                            scratch.drop(root)
    # observation (outside the statement, which speaks about the *target*): the yml result plugin writes the siblings of
    # result.yml with allow_overwrite=True
    root = scratch.fresh()
    try:
        build(root, [(("res", "model.yml"), "f", "old-model"), (("res", "notes.txt"), "f", "mine")])
        before = snapshot(root)
        err = call_save("save_result", objs["save_result"], root / "res" / "result.yml", False, "none", None)
        after = snapshot(root)
        changed = sorted("/".join(k) for k in before if before[k][0] == "f" and after.get(k, (None, None))[:2] != before[k][:2])
        observations[f"save_result(res/result.yml, allow_overwrite=False) into a folder holding other files: {exc_name(err)}; "
                     f"existing siblings rewritten: {changed}"] = 1
        ck.count("a:observation:sibling-overwrite", len(changed))
    finally:
        scratch.drop(root)
    batch.diff(ck, "builtin-save-model-vs-impl")
    ck.extra.setdefault("builtin_plugin_observations", {}).update(observations)
    ck.sample({"stream": "builtin", "save_functions": SAVE_FNS, "formats": "every registered project/data format + 'nope'",
               "states": [s[0] for s in states], "allow_overwrite": [False, True], "format_name": ["given", "inferred"]})


def _one_registry(data, fmt, spy):
    from glotaran.testing.plugin_system import monkeypatch_plugin_registry_data_io, monkeypatch_plugin_registry_project_io

    return (monkeypatch_plugin_registry_data_io if data else monkeypatch_plugin_registry_project_io)({fmt: spy})


def stream_protect(ck, scratch):
    """protect_from_overwrite and infer_file_format alone"""
    from glotaran.plugin_system.io_plugin_utils import infer_file_format, protect_from_overwrite

    batch = Batch()
    for name in TARGET_NAMES:
        for state, init, target in target_states(name):
            for allow in (False, True):
                for as_str in (False, True):
                    root = scratch.fresh()
                    try:
                        build(root, init)
                        before = snapshot(root)
                        p = root.joinpath(*target)
                        err = None
                        try:
                            protect_from_overwrite(str(p) if as_str else p, allow_overwrite=allow)
                        except Exception as e:  # noqa: BLE001
                            err = e
                        after = snapshot(root)
                        case = {"kind": "protect", "state": state, "init": [[list(c), k, t] for c, k, t in init], "target": list(target),
                                "allow_overwrite": allow, "observed": exc_name(err)}
                        oracle_save(ck, case, before, after, err, 0, target, allow)
                        batch.add(f"fs-reset {dump(before)}", None, case)
                        batch.add(f"protect {strs(target)} {bool_(allow)}", f"{exc_name(err)} {dump(after)}", case)
                        ck.case(("protect", state, target, allow), exists_state(state))
                        ck.count("a:stream:protect")
                        # infer_file_format on the resulting tree
                        for nte in (False, True):
                            for folder in (False, True):
                                try:
                                    got = "fmt " + enc(infer_file_format(p, needs_to_exist=nte, allow_folder=folder))
                                except ValueError:
                                    got = "ValueError"
                                batch.add(f"infer {strs(target)} {bool_(nte)} {bool_(folder)}", got, case)
                                ck.count("a:infer:" + got.split(" ")[0])
                    finally:
                        scratch.drop(root)
    # relative path with '..' from another working directory (Path.resolve)
    root = scratch.fresh()
    cwd = os.getcwd()
    try:
        build(root, BYSTANDERS + [(("w",), "d", ""), (("out.fk",), "f", "old")])
        os.chdir(root / "w")
        before = snapshot(root)
        err = None
        try:
            protect_from_overwrite("../out.fk")
        except Exception as e:  # noqa: BLE001
            err = e
        case = {"kind": "protect-relative", "cwd": "w", "path": "../out.fk"}
        oracle_save(ck, case, before, snapshot(root), err, 0, ("out.fk",), False)
        err2 = None
        try:
            protect_from_overwrite("../new/x/out.fk")
        except Exception as e:  # noqa: BLE001
            err2 = e
        after = snapshot(root)
        if err2 is not None or after.get(("new", "x"), (None,))[0] != "d":
            ck.disagree("protect-relative", f"protect_from_overwrite('../new/x/out.fk') from w/: {exc_name(err2)}, new/x created: "
                        f"{('new', 'x') in after}", case)
        ck.case(("protect-relative",), True)
    finally:
        os.chdir(cwd)
        scratch.drop(root)
    # an EXISTING target spelled through a folder that does not exist (yet) and '..': <root>/new/../out.fk is <root>/out.fk
    # for every save function (pathlib resolves '..' textually); the call must refuse and leave the file alone — absolute
    # spelling, relative spelling from another working directory, file and non-empty folder targets
    for kind, init_extra, target in (("file", [(("out.fk",), "f", "old")], ("out.fk",)),
                                     ("folder", [(("outd",), "d", ""), (("outd", "keep.txt"), "f", "old")], ("outd",))):
        for relative in (False, True):
            root = scratch.fresh()
            cwd = os.getcwd()
            try:
                build(root, BYSTANDERS + [(("w",), "d", "")] + init_extra)
                before = snapshot(root)
                if relative:
                    os.chdir(root / "w")
                    spelled = "/".join(("..", "new", "deeper", "..", "..") + target)
                else:
                    spelled = str(root.joinpath("new", "..", *target))
                err = None
                try:
                    protect_from_overwrite(spelled)
                except Exception as e:  # noqa: BLE001
                    err = e
                case = {"kind": "protect-dotdot-through-missing-folder", "target_kind": kind, "relative": relative,
                        "path": spelled if relative else "<root>/new/../" + "/".join(target), "observed": exc_name(err)}
                oracle_save(ck, case, before, snapshot(root), err, 0, target, False)
                ck.case(("protect-dotdot", kind, relative), True)
                ck.count("a:stream:protect-dotdot-through-missing-folder")
            finally:
                os.chdir(cwd)
                scratch.drop(root)
    batch.diff(ck, "protect-model-vs-impl")



# ------------------------------------------------------------------------------------------------
# (a') the builtin result plugins after entry: which files save_result writes
# ------------------------------------------------------------------------------------------------
OLD_NS = 1_000_000_000 * 1_000_000   # mtime given to every pre-existing file (so that a rewrite is visible)
DOCUMENTED_RESULT_FILES = {"result.md", "model.yml", "scheme.yml", "parameter_history.csv", "optimization_history.csv"}


def age_files(root: Path):
    for dirpath, _, filenames in os.walk(root):
        for f in filenames:
            os.utime(Path(dirpath) / f, ns=(OLD_NS, OLD_NS))


def result_variants():
    from dataclasses import replace

    res = real_objects()["save_result"]
    ds = res.data["dataset_1"]
    return [("one", res), ("three", replace(res, data={"dataset_1": ds, "d.2": ds.copy(), "x y": ds.copy()}))]


def plugin_cases():
    """(tag, initial tree, path components, format_name | None, result folder components)"""
    by = list(BYSTANDERS) + [(("res",), "d", ""), (("res", "model.yml"), "f", "model-of-the-parent-folder"),
                             (("res", "result.md"), "f", "report-of-the-parent-folder"), (("res", "run2"), "d", ""),
                             (("res", "run2", "result.yml"), "f", "another-run")]
    run = ("res", "run")
    sib = by + [(run, "d", ""), (run + ("model.yml",), "f", "old-model"), (run + ("notes.txt",), "f", "mine"),
                (run + ("dataset_1.nc",), "f", "old-data")]
    yield "absent", by, run + ("result.yml",), None, run
    yield "absent-given-yml", by, run + ("result.yml",), "yml", run
    yield "absent-yaml-name", by, run + ("my.yaml",), None, run
    yield "folder-path-yml", by, run, "yml", run
    yield "folder-path-folder", by, run, "folder", run
    yield "emptydir", by + [(run, "d", "")], run + ("result.yml",), None, run
    yield "siblings", sib, run + ("result.yml",), None, run
    yield "siblings-folder-path", sib, run, "yml", run
    yield "siblings-folder-format", sib, run, "folder", run
    yield "result-exists", sib + [(run + ("result.yml",), "f", "old-result")], run + ("result.yml",), None, run
    yield "result-exists-folder-path", sib + [(run + ("result.yml",), "f", "old-result")], run, "yml", run
    yield "history-is-dir", by + [(run + ("parameter_history.csv",), "d", "")], run + ("result.yml",), None, run
    yield "model-is-dir", by + [(run + ("model.yml",), "d", "")], run + ("result.yml",), None, run
    yield "report-is-dir", by + [(run + ("result.md",), "d", "")], run + ("result.yml",), None, run
    yield "result-is-dir", by + [(run + ("result.yml",), "d", "")], run + ("result.yml",), None, run
    yield "folder-is-file", by + [(("pf",), "f", "iam-a-file")], ("pf", "result.yml"), None, ("pf",)
    yield "folder-is-file-folder-format", by + [(("pf",), "f", "iam-a-file")], ("pf",), "folder", ("pf",)
    yield "top-level", by, ("result.yml",), None, ()


def stream_result_plugins(ck, scratch):
    """the real yml / folder result plugins on real results against `runResultPlugin` over the regenerated table:
    outcome and the complete tree (paths, kinds, which files were (re)written); oracle on the real tree alone"""
    import glotaran.io as gio
    from glotaran.io import SavingOptions

    batch = Batch()
    known = known_formats("project")
    options = [("default", SavingOptions()), ("no-report", SavingOptions(report=False)),
               ("minimal", SavingOptions(data_filter=["fitted_data", "residual"], report=False))]
    n = 0
    for vtag, res in result_variants():
        labels = list(res.data)
        for tag, init, comps, fmt, folder in plugin_cases():
            for allow in (False, True):
                for otag, so in options:
                    if ck.quick and (vtag, otag) not in (("one", "default"), ("three", "no-report"), ("one", "minimal")):
                        continue
                    root = scratch.fresh()
                    try:
                        build(root, init)
                        age_files(root)
                        before = snapshot(root)
                        kw = {"allow_overwrite": allow, "saving_options": so}
                        if fmt is not None:
                            kw["format_name"] = fmt
                        err = None
                        with warnings.catch_warnings():
                            warnings.simplefilter("ignore")
                            try:
                                gio.save_result(res, root.joinpath(*comps), **kw)
                            except Exception as e:  # noqa: BLE001
                                err = e
                        after = snapshot(root)
                        case = {"kind": "result-plugin", "case": tag, "result": vtag, "labels": labels, "target": list(comps),
                                "format_name": fmt, "allow_overwrite": allow, "saving_options": otag, "observed": exc_name(err)}
                        n += 1
                        # ---- oracle: the real tree alone
                        ck.oracle_evals += 1
                        oracle_save(ck, case, before, after, err, 0 if isinstance(err, FileExistsError) else 1, comps, allow)
                        inside = lambda k: k[: len(folder)] == tuple(folder) and len(k) > len(folder)  # noqa: E731
                        for k, v in before.items():
                            if v[0] == "f" and not inside(k) and after.get(k) != v:
                                ck.violation("save-result-destroys-file-outside-folder",
                                             f"save_result into {'/'.join(folder) or '.'} (allow_overwrite={allow}) changed the existing file "
                                             f"{'/'.join(k)} outside the result folder", case)
                        for k, v in after.items():
                            if k not in before and not inside(k) and not (v[0] == "d" and tuple(folder)[: len(k)] == k):
                                ck.disagree("result-plugin-outside-folder", f"save_result into {'/'.join(folder) or '.'} created "
                                            f"{'/'.join(k)} outside the result folder", case)
                        names_ok = DOCUMENTED_RESULT_FILES | {comps[-1] if comps[-1].endswith((".yml", ".yaml")) else "result.yml"} \
                            | {f"{x}_parameters.{so.parameter_format}" for x in ("initial", "optimized")} \
                            | {f"{l}.{so.data_format}" for l in labels}
                        for k, v in after.items():
                            if v[0] == "f" and before.get(k) != v and (not inside(k) or len(k) != len(folder) + 1 or k[-1] not in names_ok):
                                ck.disagree("result-plugin-undocumented-file", f"save_result wrote {'/'.join(k)}, which is not one of the "
                                            f"documented result files of the folder {'/'.join(folder) or '.'}", case)
                        # ---- model
                        def norm(snap):
                            out = {}
                            for k, v in snap.items():
                                out[k] = ("f", b"W", 0) if v[0] == "f" and before.get(k) != v else v
                            return out
                        fmt_tok = "none" if fmt is None else enc(fmt)
                        batch.add(f"fs-reset {dump(before)}", None, case)
                        batch.add(f"save-result {strs(comps)} {bool_(allow)} {fmt_tok} {strs(known)} {strs(labels)} "
                                  f"{enc(so.parameter_format)} {enc(so.data_format)} {bool_(so.report)} []",
                                  f"{exc_name(err)} {dump(norm(after))}", case)
                        eff = fmt or "yml"
                        want = sorted(k for k, v in after.items() if v[0] == "f" and before.get(k) != v)
                        if err is None:
                            batch.add(f"result-files {enc(eff)} {strs(comps)} {strs(labels)} {enc(so.parameter_format)} "
                                      f"{enc(so.data_format)} {bool_(so.report)}", lst(strs(k) for k in want), case)
                        ck.case(("result-plugin", tag, vtag, allow, otag), True)
                        ck.count("a:stream:result-plugin")
                        ck.count(f"a:result-plugin-outcome:{exc_name(err)}")
                        ck.count(f"a:result-plugin-files-written:{min(len(want), 12)}")
                    finally:
                        scratch.drop(root)
    batch.diff(ck, "result-plugin-model-vs-impl")
    # observation (outside the statement and outside the model's assumption "labels are single path components"):
    # a dataset label with a path separator leaves the result folder, and the nested save_dataset(allow_overwrite=True)
    # replaces an existing file there
    from dataclasses import replace

    res = real_objects()["save_result"]
    root = scratch.fresh()
    try:
        build(root, [(("escaped.nc",), "f", "mine")])
        hostile = replace(res, data={"dataset_1": res.data["dataset_1"], "../escaped": res.data["dataset_1"].copy()})
        with warnings.catch_warnings():
            warnings.simplefilter("ignore")
            try:
                gio.save_result(hostile, root / "out" / "result.yml")
                outcome = "ok"
            except Exception as e:  # noqa: BLE001
                outcome = type(e).__name__
        replaced = (root / "escaped.nc").read_bytes() != b"mine"
        ck.extra.setdefault("builtin_plugin_observations", {})[
            f"save_result(out/result.yml, allow_overwrite=False) of a result with the dataset label '../escaped': {outcome}; "
            f"existing file escaped.nc next to the result folder replaced: {replaced}"] = 1
        ck.count("a:observation:label-escapes-folder", int(replaced))
    finally:
        scratch.drop(root)
    ck.extra["result_plugin_stream"] = (f"{n} calls of the real save_result with the builtin yml/folder plugins: 18 target situations x "
                                        "allow_overwrite x saving options x results with one / three dataset labels"
                                        + (" (subset of option/label combinations in quick)" if ck.quick else ""))
    ck.sample({"stream": "result-plugin", "case": "siblings", "labels": ["dataset_1", "d.2", "x y"],
               "compared": "outcome + complete tree (which files were (re)written) vs runResultPlugin over Generated.resultPlugins"})

# ------------------------------------------------------------------------------------------------
# (a) project-level writers
# ------------------------------------------------------------------------------------------------
def stream_guarded(ck, scratch):
    import xarray as xr
    from glotaran.project import Project

    batch = Batch()
    ds = xr.Dataset({"data": xr.DataArray([1.0, 2.0])})
    for kind in ("create", "genmodel", "genparams-yml", "genparams-csv", "import"):
        for present in (False, True):
            for allow in (False, True):
                for ignore in ((None,) if kind == "create" else (False, True)):
                    root = scratch.fresh()
                    try:
                        stack = ExitStack()
                        stack.enter_context(warnings.catch_warnings())
                        warnings.simplefilter("ignore")
                        folder = root / "proj"
                        if kind == "create":
                            target = ("proj", "project.gta")
                            if present:
                                project = Project.open(folder)
                                (folder / "project.gta").write_text("version: 0.0.0-old")
                        else:
                            project = Project.open(folder)
                            project.generate_model("m", "decay_parallel", {"nr_compartments": 2})
                            target = {"genmodel": ("proj", "models", "t.yml"), "genparams-yml": ("proj", "parameters", "t.yml"),
                                      "genparams-csv": ("proj", "parameters", "t.csv"), "import": ("proj", "data", "t.nc")}[kind]
                            if present:
                                root.joinpath(*target).write_text("old-content")
                        before = snapshot(root)
                        err = None
                        try:
                            if kind == "create":
                                Project.create(folder, allow_overwrite=allow)
                            elif kind == "genmodel":
                                project.generate_model("t", "decay_sequential", {"nr_compartments": 3}, allow_overwrite=allow, ignore_existing=ignore)
                            elif kind.startswith("genparams"):
                                project.generate_parameters("m", "t", format_name=kind.split("-")[1], allow_overwrite=allow, ignore_existing=ignore)
                            else:
                                project.import_data(ds, dataset_name="t", allow_overwrite=allow, ignore_existing=ignore)
                        except Exception as e:  # noqa: BLE001
                            err = e
                        after = snapshot(root)
                        changed = before.get(target, (None, None))[:2] != after.get(target, (None, None))[:2]
                        others = {k: v[:2] for k, v in before.items() if k != target} != {k: v[:2] for k, v in after.items() if k != target}
                        case = {"kind": "guarded", "writer": kind, "target_present": present, "allow_overwrite": allow,
                                "ignore_existing": ignore, "observed": exc_name(err), "target_changed": changed}
                        # oracle
                        ck.oracle_evals += 1
                        if present and not allow:
                            if changed:
                                ck.violation(f"guarded-overwrites:{kind}", f"{kind}: existing file was replaced although allow_overwrite=False "
                                             f"(ignore_existing={ignore})", case)
                            skip_ok = bool(ignore)
                            if not skip_ok and not isinstance(err, FileExistsError):
                                ck.violation(f"guarded-no-refusal:{kind}", f"{kind}: existing file, allow_overwrite=False, ignore_existing={ignore}: "
                                             f"ended with {exc_name(err)} instead of FileExistsError", case)
                        if others and not (kind == "create" and not present):
                            ck.violation(f"guarded-touches-others:{kind}", f"{kind}: files other than the target changed", case)
                        # model
                        outcome = ("FileExistsError" if isinstance(err, FileExistsError) else
                                   ("failed:" + exc_name(err) if err is not None else ("written" if changed else "skipped")))
                        mk = {"create": "create", "genmodel": "genmodel", "genparams-yml": "genparams", "genparams-csv": "genparams",
                              "import": "import"}[kind]
                        marker = "NEW"

                        def norm(snap):
                            s = dict(snap)
                            if target in s and s[target][0] == "f" and s[target][1] != b"old-content" and s[target][1] != b"version: 0.0.0-old":
                                s[target] = ("f", marker.encode(), 0)
                            return s

                        batch.add(f"fs-reset {dump(before)}", None, case)
                        batch.add(f"guarded {mk} {strs(target)} {bool_(allow)} {bool_(bool(ignore))} {marker}",
                                  f"{outcome} {dump(norm(after))}", case)
                        ck.case(("guarded", kind, present, allow, ignore), present)
                        ck.count("a:stream:guarded")
                        ck.count(f"a:guarded:{outcome.split(':')[0]}")
                    finally:
                        stack.close()
                        scratch.drop(root)
    batch.diff(ck, "guarded-model-vs-impl")


# ------------------------------------------------------------------------------------------------
# (b) result registry
# ------------------------------------------------------------------------------------------------
NAMES5 = ["a", "ab", "a_run", "a_run_b", "a.b"]
NAMES7 = NAMES5 + ["a_run_0000", "a_b", "a_run_2024_b", "a[1]"]   # "a[1]": glob metacharacters are plain characters of a name (seeded C18-4)   # the last: a run specifier *inside* the name (seeded C18-1)
UNIVERSE = NAMES7 + ["a_run_0001", "a_run_b_run_0000", "a.b_run_0000", "a_run_0000_run_0000", "zz", "a_run_00000", "a_run_000",
                     "_run_0000", "ab_run_0000", "a_run", "a_run_", "a_run_9999", "a_run_10000", "a_run_10000_run_0000"]


_FAKE_YML = []


def fake_yml():
    """stands for the yml project-io plugin: a run folder with a `result.yml` holding the payload"""
    if _FAKE_YML:
        return _FAKE_YML[0]
    from glotaran.io.interface import ProjectIoInterface

    class FakeYml(ProjectIoInterface):
        def save_result(self, result, result_path, saving_options=None, **kw):
            p = Path(result_path)
            folder = p.parent
            if folder.is_file():
                raise ValueError(f"blocked-by-file results/{folder.name}/result.yml")
            folder.mkdir(parents=True, exist_ok=True)
            p.write_text(str(result.payload))
            (folder / "data.nc").write_text(f"data of {result.payload}")
            return [p.as_posix()]

        def load_result(self, result_path, **kw):
            return SimpleNamespace(payload=int(Path(result_path).read_text()), source_path=None)

    _FAKE_YML.append(FakeYml("yml"))
    return _FAKE_YML[0]


class RealRegistry:
    def __init__(self, root: Path):
        from glotaran.project import Project

        self.project = Project.open(root / "p")
        self.reg = self.project._result_registry
        self.dir = self.reg.directory
        self.payload = 0

    def listing(self):
        out = {}
        for p in self.dir.iterdir():
            if p.is_dir():
                f = p / "result.yml"
                out[p.name] = ("run", int(f.read_text())) if f.is_file() else ("empty", 0)
            else:
                out[p.name] = ("file", 0)
        return out

    def dump(self):
        l = self.listing()
        return lst(f"[{enc(n)},{l[n][0]},{l[n][1]}]" for n in sorted(l))

    def tree_hash(self, name):
        h = hashlib.sha1()
        for p in sorted((self.dir / name).rglob("*")):
            h.update(p.relative_to(self.dir).as_posix().encode())
            if p.is_file():
                h.update(p.read_bytes())
        return h.hexdigest()

    # every op returns (protocol line, canonical implementation answer)
    def apply(self, op):
        kind = op[0]
        if kind == "opt":
            name = op[1]
            self.payload += 1
            line = f"reg-save {enc(name)} {self.payload}"
            before = self.listing()
            try:
                self.reg.save(name, SimpleNamespace(payload=self.payload, source_path=None))
            except FileExistsError as e:
                m = re.search(r"results/([^/]+)/result\.yml", str(e))
                return line, f"FileExistsError {enc(m.group(1)) if m else '?'}"
            except ValueError as e:
                m = re.search(r"blocked-by-file results/([^/]+)/result\.yml", str(e))
                if m:
                    return line, f"blocked {enc(m.group(1))}"
                return line, f"raised ValueError:{enc(str(e)[:80])}"
            except Exception as e:  # noqa: BLE001
                return line, f"raised {type(e).__name__}:{enc(str(e)[:80])}"
            after = self.listing()
            new = [n for n in after if after[n] != before.get(n)]
            return line, "saved " + (enc(new[0]) if len(new) == 1 else "?" + strs(sorted(new)))
        if kind == "mk":
            _, name, k = op
            if (self.dir / name).exists():
                return None, None
            if k == "file":
                (self.dir / name).write_text("foreign")
            else:
                (self.dir / name).mkdir()
            return f"reg-mk {enc(name)} {'file' if k == 'file' else 'empty'} 0", None
        if kind == "previous":
            try:
                return f"reg-previous {enc(op[1])}", strs(p.name for p in self.reg.previous_result_paths(op[1]))
            except Exception as e:  # noqa: BLE001
                return f"reg-previous {enc(op[1])}", f"raised {type(e).__name__}"
        if kind == "create":
            try:
                return f"reg-create {enc(op[1])}", "name " + enc(self.reg.create_result_run_name(op[1]))
            except Exception as e:  # noqa: BLE001
                return f"reg-create {enc(op[1])}", f"raised {type(e).__name__}:{enc(str(e)[:80])}"
        if kind in ("path", "latest", "load", "load-latest"):
            name = op[1]
            latest = op[2] if len(op) > 2 else None
            line = {"path": f"reg-path {enc(name)} {bool_(latest)}", "latest": f"reg-latest {enc(name)}",
                    "load": f"reg-load {enc(name)} {bool_(latest)}", "load-latest": f"reg-load-latest {enc(name)}"}[kind]
            with warnings.catch_warnings(record=True) as w:
                warnings.simplefilter("always")
                try:
                    if kind == "path":
                        r = self.project.get_result_path(name, latest=latest)
                    elif kind == "latest":
                        r = self.project.get_latest_result_path(name)
                    elif kind == "load":
                        r = self.project.load_result(name, latest=latest)
                    else:
                        r = self.project.load_latest_result(name)
                    err = None
                except ValueError as e:
                    err, r = e, None
                except FileNotFoundError as e:
                    err, r = e, None
                except Exception as e:  # noqa: BLE001
                    return line, f"raised {type(e).__name__}:{enc(str(e)[:80])}"
            warned = any(issubclass(x.category, UserWarning) and "missing the run specifier" in str(x.message) for x in w)
            if isinstance(err, ValueError):
                m = re.match(r"Result '(.*)' does not exist\.", str(err), re.S)
                return line, f"err {enc(m.group(1)) if m else '?'} {bool_(warned)}"
            if isinstance(err, FileNotFoundError):
                m = re.search(r"results/(?:([^/]*)/)?result\.yml", str(err))
                return line, f"broken {enc(m.group(1) or '') if m else '?'} {bool_(warned)}"
            if kind in ("path", "latest"):
                rel = Path(r).relative_to(self.dir).as_posix()
                return line, f"found {enc('' if rel == '.' else rel)} {bool_(warned)}"
            return line, f"loaded {enc(Path(r.source_path).parent.name)} {r.payload} {bool_(warned)}"
        if kind == "items":
            with warnings.catch_warnings(record=True) as w:
                warnings.simplefilter("always")
                it = self.project.results
                n = sum(1 for x in w if type(x.message).__name__ == "AmbiguousNameWarning")
            return "reg-items", lst(f"[{enc(k)},{enc(v.name)}]" for k, v in it.items()) + f" {n}"
        if kind == "dump":
            return "reg-dump", self.dump()
        raise AssertionError(op)


def split_run_specifier(n: str):
    """(front, digits) when the name ends in `_run_` + four or more ASCII digits, else None — plain string operations"""
    digits = ""
    while n and n[-1] in "0123456789":
        n, digits = n[:-1], n[-1] + digits
    if len(digits) >= 4 and n.endswith("_run_"):
        return n[: -len("_run_")], digits
    return None


def has_run_suffix(n: str) -> bool:
    sp = split_run_specifier(n)
    return sp is not None and sp[0] != ""


class RunOracle:
    """the statement of part (b) recomputed from the history alone (no model, no registry internals)"""

    def __init__(self, ck, real: RealRegistry, initial=None, seed_dirs=()):
        self.ck, self.real = ck, real
        self.seed_dirs = list(seed_dirs)
        self.runs: dict[str, list] = {}      # result name -> [(run folder, payload, tree hash)]
        self.foreign: set[str] = set()
        self.tainted: set[str] = set()
        self.seed_numbers: dict[str, int] = dict(initial or {})   # result name -> highest pre-existing run number

    def after(self, op, answer, history):
        ck, real = self.ck, self.real
        case = {"kind": "history", "ops": history, "seed_dirs": self.seed_dirs}
        ck.oracle_evals += 1
        if op[0] == "mk":
            # a foreign entry called like a run of some name is outside the statement's histories: it raises the floor of
            # that name's numbers, and the latest-lookups of that name are not judged any more
            self.foreign.add(op[1])
            sp = split_run_specifier(op[1])
            if sp:
                self.tainted.add(sp[0])
                self.seed_numbers[sp[0]] = max(self.seed_numbers.get(sp[0], -1), int(sp[1]))
            return
        if op[0] != "opt":
            return
        name = op[1]
        mine = self.runs.setdefault(name, [])
        if not answer.startswith("saved "):
            ck.violation("optimize-result-not-stored", f"storing a run of result {name!r} failed: {answer}", case)
            return
        folder = core.dec(answer.split(" ", 1)[1])
        m = re.fullmatch(re.escape(name) + r"_run_([0-9]+)", folder)
        if m is None:
            ck.violation("run-folder-name", f"run of {name!r} was stored in {folder!r}", case)
            return
        nr = int(m.group(1))
        all_known = {f for rs in self.runs.values() for f, _, _ in rs} | self.foreign
        if folder in all_known:
            ck.violation("run-number-not-fresh", f"run of {name!r} was stored in the already existing folder {folder!r}", case)
        prev_numbers = [int(re.fullmatch(r".*_run_([0-9]+)", f).group(1)) for f, _, _ in mine]
        floor = max(prev_numbers + [self.seed_numbers.get(name, -1)])
        if nr <= floor:
            ck.violation("run-number-not-increasing", f"run of {name!r} got number {nr}, earlier runs reach {floor}", case)
        mine.append((folder, real.payload, real.tree_hash(folder)))
        # earlier runs unchanged and loadable
        for rname, rs in self.runs.items():
            for f, payload, h in rs:
                if not (real.dir / f).is_dir() or real.tree_hash(f) != h:
                    ck.violation("earlier-run-changed", f"run folder {f!r} changed or vanished after storing a run of {name!r}", case)
                    continue
                try:
                    with warnings.catch_warnings():
                        warnings.simplefilter("ignore")
                        got = real.project.load_result(f)
                    if got.payload != payload:
                        ck.violation("earlier-run-loads-other", f"load_result({f!r}) returned the result of another run", case)
                except Exception as e:  # noqa: BLE001
                    if has_run_suffix(f):
                        ck.violation("earlier-run-not-loadable", f"load_result({f!r}) raised {type(e).__name__}: {str(e)[:100]}", case)
        # latest lookups: most recent run of exactly that name
        for rname, rs in self.runs.items():
            if not rs or rname in self.tainted:
                continue
            if split_run_specifier(rname) is not None:
                self.run_suffixed(rname, rs, case)
                continue
            want_folder, want_payload, _ = rs[-1]
            for label, fn in (("get_latest_result_path", lambda n: real.project.get_latest_result_path(n).name),
                              ("get_result_path(latest=True)", lambda n: real.project.get_result_path(n, latest=True).name),
                              ("load_latest_result", lambda n: real.project.load_latest_result(n).payload),
                              ("load_result(latest=True)", lambda n: real.project.load_result(n, latest=True).payload)):
                want = want_payload if label.startswith("load") else want_folder
                try:
                    with warnings.catch_warnings():
                        warnings.simplefilter("ignore")
                        got = fn(rname)
                except Exception as e:  # noqa: BLE001
                    got = f"{type(e).__name__}: {str(e)[:80]}"
                if got != want:
                    other = isinstance(got, str) and any(got == f for n2, r2 in self.runs.items() if n2 != rname for f, _, _ in r2)
                    key = "latest-resolves-to-other-name" if other else "latest-wrong-run"
                    ck.violation(key, f"{label}({rname!r}) gave {got!r}, the most recent run of that name is {want!r}", case)
            # a run specifier on the name is stripped by the latest-lookups
            for label, fn, want in (("get_latest_result_path", lambda n: real.project.get_latest_result_path(n).name, want_folder),
                                    ("load_latest_result", lambda n: real.project.load_latest_result(n).payload, want_payload)):
                for given in {rs[0][0], rs[len(rs) // 2][0], rs[-1][0]}:
                    try:
                        with warnings.catch_warnings():
                            warnings.simplefilter("ignore")
                            got = fn(given)
                    except Exception as e:  # noqa: BLE001
                        got = f"{type(e).__name__}: {str(e)[:80]}"
                    if got != want:
                        ck.violation("latest-with-run-specifier", f"{label}({given!r}) gave {got!r}, the most recent run of "
                                     f"{rname!r} is {want!r}", case)


    def run_suffixed(self, rname, rs, case):
        """a result name r = b_run_<digits>: (1) the statement (most recent run of exactly r) on the real code - it fails,
        recorded as known finding `latest-run-suffixed-name`; (2) what latest_of_run_suffixed_name_spec says instead,
        as relations between calls of the real code (no model): the latest-lookups of r are those of b, and
        get_result_path(r) / load_result(r) take r for the name of a run folder"""
        ck, real = self.ck, self.real
        b, _ = split_run_specifier(rname)
        want_folder, want_payload, _ = rs[-1]

        def outcome(f):
            with warnings.catch_warnings(record=True) as w:
                warnings.simplefilter("always")
                try:
                    r = f()
                    r = ("ok", r.payload if hasattr(r, "payload") else Path(r).relative_to(real.dir).as_posix())
                except Exception as e:  # noqa: BLE001
                    r = (type(e).__name__, str(e)[:60])
            return r + (any("missing the run specifier" in str(x.message) for x in w),)

        got = outcome(lambda: real.project.get_latest_result_path(rname))
        got_l = outcome(lambda: real.project.load_latest_result(rname))
        ck.count("b:run-suffixed-name:judged")
        if got != ("ok", want_folder, False) or got_l != ("ok", want_payload, False):
            ck.violation("latest-run-suffixed-name", f"get_latest_result_path({rname!r}) / load_latest_result gave {got[:2]} / {got_l[:2]}, "
                         f"the most recent run of that name is {want_folder!r} (result {want_payload})", case)
        # the spec, on the real code
        same = [(got, outcome(lambda: real.project.get_latest_result_path(b))),
                (got_l, outcome(lambda: real.project.load_latest_result(b)))]
        for x, y in same:
            if x != y:
                ck.disagree("run-suffixed-spec", f"latest-lookup of {rname!r} gave {x}, that of {b!r} gave {y} "
                            "(latest_of_run_suffixed_name_spec says they coincide)", case)
        if b != "":
            is_dir = (real.dir / rname).is_dir()
            for latest in (False, True):
                g = outcome(lambda: real.project.get_result_path(rname, latest=latest))
                want = ("ok", rname, False) if is_dir else ("ValueError", f"Result {rname!r} does not exist."[:60], False)
                if g[0] != want[0] or (g[0] == "ok" and g != want) or g[2]:
                    ck.disagree("run-suffixed-spec", f"get_result_path({rname!r}, latest={latest}) gave {g}, folder exists: {is_dir} "
                                "(latest_of_run_suffixed_name_spec: the name is taken for a run folder)", case)


def observe_ops(names):
    ops = []
    for n in names:
        ops += [("previous", n), ("create", n), ("path", n, False), ("path", n, True), ("latest", n), ("load", n, True),
                ("load-latest", n)]
    return ops


def run_history(ck, scratch, hist, batch, with_oracle=True, light=False, seed_dirs=()):
    from glotaran.testing.plugin_system import monkeypatch_plugin_registry_project_io

    root = scratch.fresh()
    try:
        with monkeypatch_plugin_registry_project_io({"yml": fake_yml()}):
            real = RealRegistry(root)
            initial = {}
            case = {"kind": "history", "ops": [list(o) for o in hist], "seed_dirs": list(seed_dirs)}
            batch.add("reg-reset []", None, case)
            for name in seed_dirs:
                (real.dir / name).mkdir()
                (real.dir / name / "result.yml").write_text("0")
                batch.add(f"reg-mk {enc(name)} run 0", None, case)
                sp = split_run_specifier(name)
                if sp:
                    initial[sp[0]] = max(initial.get(sp[0], -1), int(sp[1]))
            orc = RunOracle(ck, real, initial, seed_dirs) if with_oracle else None
            done = []
            for op in hist:
                line, ans = real.apply(op)
                if line is None:
                    continue
                batch.add(line, ans, case)
                if ans:
                    ck.count("b:save:" + ans.split(" ")[0])
                done.append(list(op))
                if orc:
                    orc.after(op, ans or "", [list(o) for o in done])
                others = [n for n in NAMES7 if n != op[1]]
                near = [op[1]] + ([] if light else ck.rng.sample(others, 2))
                for o in observe_ops(near) + [("dump",)]:
                    l, a = real.apply(o)
                    batch.add(l, a, case)
            if not light:
                present = sorted(real.listing())
                for o in observe_ops(sorted(set(UNIVERSE) | set(present))) + [("items",), ("dump",)]:
                    l, a = real.apply(o)
                    batch.add(l, a, case)
                    if o[0] in ("path", "latest", "load", "load-latest"):
                        ck.count(f"b:{o[0]}:" + a.split(" ")[0] + (":warned" if a.endswith(" T") else ""))
                    elif o[0] == "items" and not a.endswith(" 0"):
                        ck.count("b:items:ambiguous-name-warning")
            runs = sum(1 for v in real.listing().values() if v[0] == "run")
            return case, runs
    finally:
        scratch.drop(root)


def history_space(names, max_len):
    for n in range(1, max_len + 1):
        for h in itertools.product(names, repeat=n):
            yield [("opt", x) for x in h]


CORPUS_BUILTIN = [
    # D13 (fixed): the runs of "a_run_b" are not runs of "a"
    [("opt", "a"), ("opt", "a"), ("opt", "a_run_b"), ("opt", "a")],
    # dotted name (fixed): Path.stem cut "a.b_run_0000" at the dot
    [("opt", "a.b"), ("opt", "a.b"), ("opt", "a")],
    # glob metacharacters in a result name: the runs of "a[1]" are found again
    [("opt", "a[1]"), ("opt", "a[1]"), ("opt", "a"), ("opt", "a[1]")],
    # a name with a run specifier inside it is not stripped: latest of "a_run_2024_b" is not a run of "a_b"
    [("opt", "a_run_2024_b"), ("opt", "a_b"), ("opt", "a_b"), ("opt", "a_run_2024_b")],
    # latest lookup with a run specifier (fixed): the whole name was removed
    [("opt", "a"), ("opt", "a")],
    # a result that is called like a run of another one
    [("opt", "a"), ("opt", "a_run_0000"), ("opt", "a"), ("opt", "a_run_0000")],
    [("mk", "a_run_0003", "file"), ("opt", "a"), ("mk", "a_run_zz", "dir"), ("opt", "a"), ("mk", "ab_run_0007", "dir"), ("opt", "a"), ("opt", "ab")],
]


def stream_histories(ck, scratch):
    batch = Batch()
    n_cases = 0

    def go(hist, tag, **kw):
        nonlocal n_cases
        case, runs = run_history(ck, scratch, hist, batch, **kw)
        ck.case(("history", tuple(map(tuple, hist)), tuple(kw.get("seed_dirs", ()))), runs >= 2)
        ck.count(f"b:stream:{tag}")
        ck.count(f"b:len:{min(len(hist), 9)}")
        n_cases += 1
        if len(batch.lines) > 60000:
            batch.diff(ck, "registry-model-vs-impl")
            batch.__init__()
        return case

    for c in core.load_corpus(PROP):
        if c.get("kind") == "history":
            go([tuple(o) for o in c["ops"]], "corpus", seed_dirs=tuple(c.get("seed_dirs", ())))
    for h in CORPUS_BUILTIN:
        go(h, "regression")
    # the 9999 / 10000 boundary (N2, fixed by run-10000): the numbering continues with five digits, in numeric order
    go([("opt", "a"), ("opt", "a"), ("opt", "a"), ("opt", "a_run_b"), ("opt", "a"), ("opt", "a")], "boundary",
       seed_dirs=("a_run_9997", "a_run_b_run_0041"))
    go([("opt", "a"), ("opt", "a_run_10000"), ("opt", "a"), ("opt", "a_run_10000")], "boundary", seed_dirs=("a_run_9999",))
    go([("mk", "a_run_00003", "dir"), ("opt", "a"), ("mk", "a_run_100000", "file"), ("opt", "a"), ("opt", "a"),
        ("mk", "a_run_0100001", "dir"), ("opt", "a")], "boundary", seed_dirs=("a_run_0003",))
    if ck.quick:
        space = list(history_space(NAMES5, 4))
        ck.rng.shuffle(space)
        hists = space[:100]
        for _ in range(50):
            h = []
            for _ in range(ck.rng.randint(3, 9)):
                r = ck.rng.random()
                if r < 0.8:
                    h.append(("opt", ck.rng.choice(NAMES7)))
                else:
                    base = ck.rng.choice(NAMES7)
                    nm = ck.rng.choice([f"{base}_run_{ck.rng.randint(0, 12):04}", f"{base}_run_x", f"{base}_run_00001", base, f"{base}_run_",
                                        f"{base}_run_{ck.rng.randint(9995, 10003)}", f"{base}_run_{ck.rng.randint(0, 12):05}",
                                        f"{base}.", f".{base}", f"{base}.c", f"{base}_run_0001.bak"])
                    h.append(("mk", nm, ck.rng.choice(["file", "dir"])))
            # a foreign entry may not be created twice
            seen, hh = set(), []
            for o in h:
                if o[0] == "mk":
                    if o[1] in seen:
                        continue
                    seen.add(o[1])
                hh.append(o)
            hists.append(hh)
        for h in hists:
            go(h, "sampled")
    else:
        total = 0
        for h in history_space(NAMES5, 5):
            go(h, "exhaustive", light=len(h) == 5)
            total += 1
        ck.exhaustive = True
        ck.extra["exhaustive_histories"] = f"all {total} optimize histories of length <= 5 over {NAMES5}"
        for _ in range(400):
            h = [("opt", ck.rng.choice(NAMES7)) for _ in range(ck.rng.randint(6, 14))]
            go(h, "random-long")
    batch.diff(ck, "registry-model-vs-impl")
    ck.sample({"history": [list(o) for o in CORPUS_BUILTIN[0]], "observed_after_each_op":
               "previous_result_paths, create_result_run_name, get_result_path(latest=F/T), get_latest_result_path, load_result, "
               "load_latest_result, folder listing; at the end all of them over a name universe + Project.results"})



# ------------------------------------------------------------------------------------------------
# (b') result names with path separators: the tree below results/  +  aborted saves
# ------------------------------------------------------------------------------------------------
TREE_NAMES = ["sub/m", "m", "sub/", "sub/deep/m", "./sub//m", "sub/m_run_0000/x", "../m", "@ABS@/m", "sub/../m", "..", "m/..",
              "sub/m_run_0000", "sub/.", ".", "", "sub", "/", "sub/m_run_b", "blk/m", "sub\\m"]
TREE_OPT_NAMES = ["sub/m", "m", "sub/", "sub/deep/m", "./sub//m", "sub/m_run_0000/x", "../m", "@ABS@/m", "sub/../m", "..", "blk/m",
                  "sub/m_run_b", "sub/m_run_0000", ""]
PLUGIN_FILES = ("data.nc", "model.yml", "result.yml")   # what the stand-in plugin writes, in this order (result.yml last, as YmlProjectIo)


class Fault(Exception):
    pass


_FAULT_YML = []


def fault_yml():
    """the stand-in yml plugin of part (b') : writes PLUGIN_FILES in order, raises `Fault` before write number `fault_at`"""
    if _FAULT_YML:
        return _FAULT_YML[0]
    from glotaran.io.interface import ProjectIoInterface

    class FaultYml(ProjectIoInterface):
        fault_at = None
        last_folder = None

        def save_result(self, result, result_path, saving_options=None, **kw):
            p = Path(result_path)
            folder = p.parent
            type(self).last_folder = folder
            if folder.is_file():
                raise ValueError("blocked-by-file")
            for i, fname in enumerate(PLUGIN_FILES):
                if type(self).fault_at == i:
                    raise Fault(f"plugin fault before write {i}")
                folder.mkdir(parents=True, exist_ok=True)
                (folder / fname).write_text(str(result.payload) if fname == "result.yml" else f"{fname} of {result.payload}")
            return [p.as_posix()]

        def load_result(self, result_path, **kw):
            return SimpleNamespace(payload=int(Path(result_path).read_text()), source_path=None)

    _FAULT_YML.append(FaultYml("yml"))
    return _FAULT_YML[0]


def rp(parts) -> str:
    return lst(enc(c) for c in parts)


def unrp(text: str) -> tuple:
    t = core.parse_tree(text)
    t = t[0] if len(t) == 1 and isinstance(t[0], list) else t
    return tuple(core.dec(x) for x in t)


class RealTree:
    def __init__(self, root: Path):
        from glotaran.project import Project

        self.root = root
        self.project = Project.open(root / "p")
        self.reg = self.project._result_registry
        self.dir = self.reg.directory
        self.payload = 0

    def name(self, n: str) -> str:
        return n.replace("@ABS@", (self.root / "outside").as_posix())

    def rel(self, path) -> tuple:
        q = Path(os.path.normpath(path))
        try:
            return q.relative_to(self.dir).parts
        except ValueError:
            return ("<outside-results>",) + q.parts[-2:]

    def listing(self) -> dict:
        out = {}
        for p in self.dir.rglob("*"):
            parts = p.relative_to(self.dir).parts
            if p.is_dir():
                f = p / "result.yml"
                out[parts] = ("run", int(f.read_text())) if f.is_file() else ("empty", 0)
            elif p.name not in PLUGIN_FILES:
                out[parts] = ("file", 0)
        return out

    def file_bytes(self) -> dict:
        return {p.relative_to(self.dir).as_posix(): p.read_bytes() for p in self.dir.rglob("*") if p.is_file()}

    def dump(self) -> str:
        l = self.listing()
        return lst(f"[{rp(k)},{l[k][0]},{l[k][1]}]" for k in sorted(l))

    def outside(self) -> list:
        """everything of the scratch root that is not below results/ (a result must never be written there)"""
        return sorted(p.relative_to(self.root).as_posix() for p in self.root.rglob("*")
                      if self.dir not in p.parents and p != self.dir)

    def apply(self, op):
        kind = op[0]
        if kind in ("opt", "abort"):
            name = self.name(op[1])
            plugin = fault_yml()
            type(plugin).fault_at = op[2] if kind == "abort" else None
            type(plugin).last_folder = None
            if kind == "opt":
                self.payload += 1
                line = f"tree-save {enc(name)} {self.payload}"
            else:
                line = f"tree-abort {enc(name)}"
            before = self.listing()
            try:
                self.reg.save(name, SimpleNamespace(payload=self.payload if kind == "opt" else 0, source_path=None))
            except FileExistsError as e:
                if getattr(e, "filename", None):   # raised by mkdir: a file where a folder is needed
                    return line, f"blocked {rp(self.rel(e.filename))}"
                m = re.search(r"PosixPath\('([^']*)/result\.yml'\)", str(e))
                return line, f"FileExistsError {rp(self.rel(m.group(1))) if m else '?'}"
            except NotADirectoryError as e:
                return line, f"blocked {rp(self.rel(e.filename))}"
            except Fault:
                return line, f"blocked {rp(self.rel(type(plugin).last_folder))}"
            except ValueError as e:
                if "is not a relative path inside" in str(e):
                    return line, "rejected"
                if "blocked-by-file" in str(e):
                    return line, f"blocked {rp(self.rel(type(plugin).last_folder))}"
                return line, f"raised ValueError:{enc(str(e)[:80])}"
            except Exception as e:  # noqa: BLE001
                return line, f"raised {type(e).__name__}:{enc(str(e)[:80])}"
            finally:
                type(plugin).fault_at = None
            after = self.listing()
            new = [k for k in after if after[k][0] == "run" and after[k] != before.get(k)]
            return line, "saved " + (rp(new[0]) if len(new) == 1 else "?" + strs(sorted("/".join(k) for k in new)))
        if kind == "mk":
            _, parts, k = op
            target = self.dir.joinpath(*parts)
            if target.exists() or not target.parent.is_dir():
                return None, None
            if k == "file":
                target.write_text("foreign")
            else:
                target.mkdir()
            return f"tree-mk {rp(parts)} {'file' if k == 'file' else 'empty'} 0", None
        name = self.name(op[1]) if len(op) > 1 else None
        if kind == "previous":
            try:
                return f"tree-previous {enc(name)}", lst(rp(self.rel(q)) for q in self.reg.previous_result_paths(name))
            except ValueError as e:
                return f"tree-previous {enc(name)}", "rejected" if "is not a relative path inside" in str(e) else f"raised ValueError:{enc(str(e)[:80])}"
            except Exception as e:  # noqa: BLE001
                return f"tree-previous {enc(name)}", f"raised {type(e).__name__}"
        if kind == "create":
            try:
                return f"tree-create {enc(name)}", "name " + enc(self.reg.create_result_run_name(name))
            except ValueError as e:
                return f"tree-create {enc(name)}", "rejected" if "is not a relative path inside" in str(e) else f"raised ValueError:{enc(str(e)[:80])}"
            except Exception as e:  # noqa: BLE001
                return f"tree-create {enc(name)}", f"raised {type(e).__name__}:{enc(str(e)[:80])}"
        if kind in ("path", "latest", "load", "load-latest"):
            latest = op[2] if len(op) > 2 else None
            line = {"path": f"tree-path {enc(name)} {bool_(latest)}", "latest": f"tree-latest {enc(name)}",
                    "load": f"tree-load {enc(name)} {bool_(latest)}", "load-latest": f"tree-load-latest {enc(name)}"}[kind]
            with warnings.catch_warnings(record=True) as w:
                warnings.simplefilter("always")
                try:
                    if kind == "path":
                        r = self.project.get_result_path(name, latest=latest)
                    elif kind == "latest":
                        r = self.project.get_latest_result_path(name)
                    elif kind == "load":
                        r = self.project.load_result(name, latest=latest)
                    else:
                        r = self.project.load_latest_result(name)
                    err = None
                except (ValueError, FileNotFoundError, NotADirectoryError) as e:
                    err, r = e, None
                except Exception as e:  # noqa: BLE001
                    return line, f"raised {type(e).__name__}:{enc(str(e)[:80])}"
            warned = any(issubclass(x.category, UserWarning) and "missing the run specifier" in str(x.message) for x in w)
            if isinstance(err, ValueError):
                if "is not a relative path inside" in str(err):
                    return line, f"rejected {bool_(warned)}"
                m = re.match(r"Result '(.*)' does not exist\.", str(err), re.S)
                shown = m.group(1).replace("\\\\", "\\") if m else None    # the message holds repr(name)
                return line, f"err {enc(shown) if m else '?'} {bool_(warned)}"
            if err is not None:
                return line, f"broken {rp(self.rel(Path(err.filename).parent))} {bool_(warned)}"
            if kind in ("path", "latest"):
                return line, f"found {rp(self.rel(r))} {bool_(warned)}"
            return line, f"loaded {rp(self.rel(Path(r.source_path).parent))} {r.payload} {bool_(warned)}"
        if kind == "dump":
            return "tree-dump", self.dump()
        raise AssertionError(op)


class TreeOracle:
    """the statement on names with sub folders, recomputed from the history and the file system alone: every optimize of an
    accepted name is stored, under a number above all earlier runs (stored or aborted) of that name, in a folder that did not
    exist; earlier runs and partial folders keep their bytes; latest-lookups give the most recent stored run of that name;
    nothing is ever written outside results/"""

    def __init__(self, ck, real: RealTree):
        self.ck, self.real = ck, real
        self.runs: dict[str, list] = {}       # canonical name -> [(folder parts, payload)]
        self.numbers: dict[str, int] = {}     # canonical name -> highest number seen (stored or aborted)
        self.partial: dict[tuple, dict] = {}  # folder parts of an aborted save -> its files
        self.tainted: set = set()
        self.partial_newer: set = set()       # names whose newest run folder is an aborted save
        self.outside0 = real.outside()
        self.bytes0 = real.file_bytes()

    @staticmethod
    def canonical(name: str):
        """(folder parts, leaf) the way a path is read: text up to the last '/', '.' and empty parts dropped; None = leaves results/"""
        head, _, leaf = name.rpartition("/")
        comps = [c for c in head.split("/") if c not in ("", ".")] if head or name.startswith("/") else []
        if name.startswith("/") or ".." in comps:
            return None
        return tuple(comps), leaf

    def after(self, op, answer, history):
        ck, real = self.ck, self.real
        case = {"kind": "tree-history", "ops": history}
        ck.oracle_evals += 1
        now = real.file_bytes()
        for f, b in self.bytes0.items():
            if now.get(f) != b:
                ck.violation("earlier-run-changed", f"file results/{f} changed or vanished after {op}", case)
        if real.outside() != self.outside0:
            ck.violation("result-written-outside-results", f"{op} changed the project outside results/: "
                         f"{sorted(set(real.outside()) ^ set(self.outside0))[:4]}", case)
            self.outside0 = real.outside()
        self.bytes0 = now
        if op[0] == "mk":
            self.tainted.add(tuple(op[1][:-1]))
            return
        if op[0] not in ("opt", "abort"):
            return
        name = real.name(op[1])
        can = self.canonical(name)
        if can is None:
            if answer != "rejected":
                ck.violation("escaping-name-not-rejected", f"result name {name!r} leaves the results folder: {answer}", case)
            return
        folder, leaf = can
        if answer.startswith("blocked ") and op[0] == "opt":
            ck.count("b':blocked-by-file")
            return   # a foreign plain file where the sub folder should be: outside the statement's histories
        if op[0] == "abort":
            if not answer.startswith("blocked "):
                ck.violation("aborted-save-outcome", f"aborted save of {name!r}: {answer}", case)
                return
            parts = unrp(answer.split(" ", 1)[1])
            target = real.dir.joinpath(*parts)
            if target.is_dir():
                m = re.fullmatch(re.escape(leaf) + r"_run_([0-9]{4,})", parts[-1])
                if parts[:-1] == folder and m:
                    nr = int(m.group(1))
                    if nr <= self.numbers.get((folder, leaf), -1):
                        ck.violation("partial-run-reused", f"the aborted save of {name!r} went to run {nr}, earlier runs reach "
                                     f"{self.numbers[(folder, leaf)]}", case)
                    self.numbers[(folder, leaf)] = max(self.numbers.get((folder, leaf), -1), nr)
                    self.partial_newer.add((folder, leaf))
                    self.latest_checks(case, only=(folder, leaf))
            return
        if not answer.startswith("saved ") or "?" in answer:
            ck.violation("optimize-result-not-stored", f"storing a run of result {name!r} failed: {answer}", case)
            return
        parts = unrp(answer.split(" ", 1)[1])
        m = re.fullmatch(re.escape(leaf) + r"_run_([0-9]{4,})", parts[-1])
        if parts[:-1] != folder or m is None:
            ck.violation("run-folder-name", f"run of {name!r} was stored in {'/'.join(parts)!r}", case)
            return
        nr = int(m.group(1))
        key = (folder, leaf)
        if key not in self.numbers and folder in self.tainted:
            self.numbers[key] = -1
        if nr <= self.numbers.get(key, -1):
            ck.violation("run-number-not-increasing", f"run of {name!r} got number {nr}, earlier runs (stored or aborted) reach "
                         f"{self.numbers[key]}", case)
        self.numbers[key] = max(self.numbers.get(key, -1), nr)
        self.runs.setdefault(key, []).append((parts, real.payload))
        self.partial_newer.discard(key)
        self.latest_checks(case)

    def latest_checks(self, case, only=None):
        ck, real = self.ck, self.real
        for k2, rs in self.runs.items():
            if only is not None and k2 != only:
                continue
            for parts2, payload2 in rs:
                run_name = "/".join(parts2)
                try:
                    with warnings.catch_warnings():
                        warnings.simplefilter("ignore")
                        got = real.project.load_result(run_name)
                    if got.payload != payload2:
                        ck.violation("earlier-run-loads-other", f"load_result({run_name!r}) returned the result of another run", case)
                except Exception as e:  # noqa: BLE001
                    if has_run_suffix(run_name):
                        ck.violation("earlier-run-not-loadable", f"load_result({run_name!r}) raised {type(e).__name__}: {str(e)[:100]}", case)
            # latest of exactly that name (skipped for names ending in a run specifier: known finding of part (b))
            f2, l2 = k2
            given = "/".join(f2 + (l2,))
            if split_run_specifier(given) is not None or k2[0] in self.tainted or not rs:
                continue
            want_parts, want_payload = rs[-1]
            for label, fn in (("get_latest_result_path", lambda n: real.rel(real.project.get_latest_result_path(n))),
                              ("load_latest_result", lambda n: real.project.load_latest_result(n).payload)):
                want = want_payload if label.startswith("load") else want_parts
                try:
                    with warnings.catch_warnings():
                        warnings.simplefilter("ignore")
                        got = fn(given)
                except Exception as e:  # noqa: BLE001
                    got = f"{type(e).__name__}: {str(e)[:80]}"
                if got != want:
                    if k2 in self.partial_newer:
                        ck.violation("latest-after-aborted-save", f"after an aborted save of {given!r} (run folder without result.yml) "
                                     f"{label}({given!r}) gave {got!r}, the most recent stored run of that name is {want!r}", case)
                    else:
                        ck.violation("latest-wrong-run", f"{label}({given!r}) gave {got!r}, the most recent run of that name is {want!r}", case)


def tree_observe_ops(names):
    ops = []
    for n in names:
        ops += [("previous", n), ("create", n), ("path", n, False), ("path", n, True), ("latest", n), ("load", n, True), ("load-latest", n)]
    return ops


def run_tree_history(ck, scratch, hist, batch, light=False):
    from glotaran.testing.plugin_system import monkeypatch_plugin_registry_project_io

    root = scratch.fresh()
    try:
        with monkeypatch_plugin_registry_project_io({"yml": fault_yml()}):
            real = RealTree(root)
            case = {"kind": "tree-history", "ops": [list(o) for o in hist]}
            batch.add("tree-reset []", None, case)
            orc = TreeOracle(ck, real)
            done = []
            for op in hist:
                line, ans = real.apply(op)
                if line is None:
                    continue
                batch.add(line, ans, case)
                if ans:
                    ck.count("b':" + op[0] + ":" + ans.split(" ")[0])
                done.append(list(op))
                orc.after(op, ans or "", [list(o) for o in done])
                near = [op[1]] if op[0] != "mk" else []
                if not light:
                    near += ck.rng.sample(TREE_NAMES, 2)
                for o in tree_observe_ops(near) + [("dump",)]:
                    l, a = real.apply(o)
                    batch.add(l, a, case)
            if not light:
                for o in tree_observe_ops(TREE_NAMES + ["sub/m_run_0001", "sub/m_run_0000/x_run_0000", "m_run_0000", "sub/deep"]) + [("dump",)]:
                    l, a = real.apply(o)
                    batch.add(l, a, case)
                    if o[0] in ("path", "latest", "load", "load-latest"):
                        ck.count(f"b':{o[0]}:" + a.split(" ")[0])
            runs = sum(1 for v in real.listing().values() if v[0] == "run")
            return case, runs
    finally:
        scratch.drop(root)


TREE_CORPUS_BUILTIN = [
    # the reported defect (fixed: result-name-subfolder): the second optimisation of sub/m was refused
    [("opt", "sub/m"), ("opt", "sub/m"), ("opt", "m"), ("opt", "sub/m")],
    # trailing separator, doubled separator, '.', names that leave the results folder
    [("opt", "sub/"), ("opt", "sub/"), ("opt", "./sub//m"), ("opt", "sub/m"), ("opt", "../m"), ("opt", "@ABS@/m"), ("opt", "sub/../m"), ("opt", "..")],
    # a result stored inside the run folder of another one; a plain file where the sub folder should be
    [("opt", "sub/m"), ("opt", "sub/m_run_0000/x"), ("opt", "sub/m"), ("opt", "sub/m_run_0000/x"), ("mk", ("blk",), "file"), ("opt", "blk/m")],
    # aborted saves at every write position of the plugin: the partial folder is neither reused nor removed
    [("opt", "sub/m"), ("abort", "sub/m", 0), ("opt", "sub/m"), ("abort", "sub/m", 1), ("abort", "sub/m", 2), ("opt", "sub/m"), ("abort", "m", 0), ("opt", "m")],
]


def stream_tree(ck, scratch):
    batch = Batch()

    def go(hist, tag, **kw):
        case, runs = run_tree_history(ck, scratch, hist, batch, **kw)
        ck.case(("tree-history", tuple(map(tuple, hist))), runs >= 2)
        ck.count(f"b':stream:{tag}")
        if len(batch.lines) > 60000:
            batch.diff(ck, "tree-model-vs-impl")
            batch.__init__()

    for c in core.load_corpus(PROP):
        if c.get("kind") == "tree-history":
            go([tuple(tuple(x) if isinstance(x, list) else x for x in o) for o in c["ops"]], "corpus")
    for h in TREE_CORPUS_BUILTIN:
        go(h, "regression")
    # name reading alone (pathlib vs folderOf / leafOf / nameRejected) over a wider alphabet
    alphabet = ["a", "/", ".", "..", "_run_", "0000", "b"]
    texts = {"".join(t) for n in range(0, 5) for t in itertools.product(alphabet, repeat=n)}
    texts = sorted(texts)
    if ck.quick:
        ck.rng.shuffle(texts)
        texts = texts[:400]
    for s in texts:
        pre = Path(f"{s}_run_")
        rejected = pre.is_absolute() or ".." in pre.parts
        batch.add(f"tree-parts {enc(s)}", f"{bool_(rejected)} {rp(pre.parent.parts if not pre.is_absolute() else [c for c in pre.parent.parts[1:]])} "
                  f"{enc(pre.name[:-5])}", {"kind": "tree-parts", "name": s})
        ck.count("b':name-readings")
    for _ in range(ck.n(60, 1500)):
        h = []
        for _ in range(ck.rng.randint(3, 9)):
            r = ck.rng.random()
            if r < 0.7:
                h.append(("opt", ck.rng.choice(TREE_OPT_NAMES)))
            elif r < 0.85:
                h.append(("abort", ck.rng.choice(["sub/m", "m", "sub/deep/m", "sub/", "../m"]), ck.rng.randint(0, len(PLUGIN_FILES) - 1)))
            else:
                parts = ck.rng.choice([("blk",), ("sub",), ("sub", "m_run_0007"), ("m_run_0003",), ("sub", "m_run_x"), ("sub", "deep"),
                                       ("sub", "_run_0002"), ("sub", "m_run_00011")])
                h.append(("mk", parts, ck.rng.choice(["file", "dir"])))
        go(h, "sampled", light=ck.rng.random() < 0.5)
    batch.diff(ck, "tree-model-vs-impl")
    ck.sample({"tree-history": [list(o) for o in TREE_CORPUS_BUILTIN[0]], "observed_after_each_op":
               "previous_result_paths, create_result_run_name, get_result_path, get_latest_result_path, load_result, load_latest_result, "
               "the whole tree below results/; oracle: stored / fresh / increasing / bytes of earlier files / nothing outside results/"})

# ------------------------------------------------------------------------------------------------
# (b) through the real Project.optimize / real yml plugin
# ------------------------------------------------------------------------------------------------
def stream_real_optimize(ck, scratch):
    import xarray as xr
    from glotaran.io import save_dataset
    from glotaran.project import Project
    from glotaran.io import save_parameters
    from glotaran.testing.simulated_data.sequential_spectral_decay import DATASET, MODEL_YML, PARAMETERS

    plans = [
        [("a", None), ("a", None), ("a", "a_run_b"), ("a", None), ("a.b", None), ("a.b", None)],
    ]
    if not ck.quick:
        plans.append([("m", "x"), ("m", "x_run_0000"), ("m", "x"), ("m", "x"), ("m", None), ("m", "x_run_0000")])
    for plan in plans:
        root = scratch.fresh()
        try:
            project = Project.open(root / "p")
            ds = DATASET.isel(spectral=slice(0, 6))
            project.import_data(ds, dataset_name="dataset_1")
            for model_name in sorted({m for m, _ in plan}):
                (project.folder / "models" / f"{model_name}.yml").write_text(MODEL_YML)
            save_parameters(PARAMETERS, project.folder / "parameters" / "pars.csv")
            batch = Batch()
            case = {"kind": "optimize", "plan": [list(p) for p in plan]}
            batch.add("reg-reset []", None, case)
            done, stored = [], {}
            payload = 0
            for model_name, result_name in plan:
                name = result_name or model_name
                hist = done + [[model_name, result_name]]
                before = {p.name for p in (project.folder / "results").iterdir()}
                hashes = {f: _tree_hash(project.folder / "results" / f) for f in before}
                try:
                    with warnings.catch_warnings(), contextlib.redirect_stdout(io.StringIO()):
                        warnings.simplefilter("ignore")
                        project.optimize(model_name, "pars", result_name=result_name, maximum_number_function_evaluations=1)
                    err = None
                except Exception as e:  # noqa: BLE001
                    err = e
                done = hist
                ck.oracle_evals += 1
                c = {"kind": "optimize", "plan": hist}
                after = {p.name for p in (project.folder / "results").iterdir()}
                new = sorted(after - before)
                payload += 1
                if err is not None:
                    ck.violation("optimize-result-not-stored", f"Project.optimize(result_name={result_name!r}, model {model_name!r}) raised "
                                 f"{type(err).__name__}: {str(err)[:120]}", c)
                    batch.add(f"reg-save {enc(name)} {payload}", f"raised {type(err).__name__}", case)
                    continue
                batch.add(f"reg-save {enc(name)} {payload}", "saved " + (enc(new[0]) if len(new) == 1 else "?" + strs(new)), case)
                if len(new) != 1 or re.fullmatch(re.escape(name) + r"_run_[0-9]{4,}", new[0]) is None:
                    ck.violation("run-folder-name", f"optimize stored result {name!r} in {new}", c)
                    continue
                nr = int(new[0][len(name) + 5:])
                if stored.get(name) and nr <= int(stored[name][-1][len(name) + 5:]):
                    ck.violation("run-number-not-increasing", f"run of {name!r} got number {nr} after {stored[name][-1]!r}", c)
                stored.setdefault(name, []).append(new[0])
                for f, h in hashes.items():
                    if _tree_hash(project.folder / "results" / f) != h:
                        ck.violation("earlier-run-changed", f"run folder {f!r} changed after optimizing {name!r}", c)
                for n2, folders in stored.items():
                    with warnings.catch_warnings():
                        warnings.simplefilter("ignore")
                        try:
                            got = project.get_latest_result_path(n2).name
                            loaded = Path(project.load_latest_result(n2).source_path).parent.name
                            for f in folders:
                                project.load_result(f)
                        except Exception as e:  # noqa: BLE001
                            got = loaded = f"{type(e).__name__}: {str(e)[:80]}"
                    if not has_run_suffix(n2) and (got != folders[-1] or loaded != folders[-1]):
                        ck.violation("latest-wrong-run", f"latest lookups of {n2!r} gave {got!r} / {loaded!r}, most recent run is {folders[-1]!r}", c)
                for n2 in sorted(stored):
                    for kind in ("latest", "path"):
                        with warnings.catch_warnings():
                            warnings.simplefilter("ignore")
                            try:
                                r = project.get_latest_result_path(n2) if kind == "latest" else project.get_result_path(n2, latest=True)
                                a = f"found {enc(r.name)} F"
                            except ValueError as e:
                                a = "err " + enc(re.match(r"Result '(.*)' does not exist", str(e)).group(1)) + " F"
                        batch.add(f"reg-latest {enc(n2)}" if kind == "latest" else f"reg-path {enc(n2)} T", a, case)
                # interleaved import_data / generate_* calls on existing items with the default flags leave the whole project
                # (results included) byte-identical
                snap0 = snapshot(project.folder)
                skipped = []
                for label, call in (
                    ("import_data", lambda: project.import_data(ds, dataset_name="dataset_1")),
                    ("generate_model(ignore_existing)", lambda: project.generate_model(
                        model_name, "decay_parallel", {"nr_compartments": 2}, ignore_existing=True)),
                    ("generate_parameters(ignore_existing)", lambda: project.generate_parameters(
                        model_name, "pars", format_name="csv", ignore_existing=True)),
                    ("generate_model", lambda: project.generate_model(model_name, "decay_parallel", {"nr_compartments": 2})),
                    ("import_data(ignore_existing=False)", lambda: project.import_data(ds, dataset_name="dataset_1", ignore_existing=False)),
                ):
                    try:
                        with warnings.catch_warnings():
                            warnings.simplefilter("ignore")
                            call()
                        skipped.append(label)
                    except FileExistsError:
                        pass
                    except Exception as e:  # noqa: BLE001
                        ck.violation("project-call-raises", f"{label} on an existing item raised {type(e).__name__}: {str(e)[:100]}", c)
                ck.oracle_evals += 1
                snap1 = snapshot(project.folder)
                if {k: v[:2] for k, v in snap0.items()} != {k: v[:2] for k, v in snap1.items()}:
                    diff = sorted("/".join(k) for k in set(snap0) | set(snap1) if snap0.get(k, (None,))[:2] != snap1.get(k, (None,))[:2])
                    ck.violation("project-call-changes-tree", f"import_data / generate_* on existing items (allow_overwrite=False) changed {diff}", c)
                if "generate_model" in skipped or "import_data(ignore_existing=False)" in skipped:
                    ck.violation("project-call-no-refusal", f"existing item, allow_overwrite=False, ignore_existing=False: {skipped} returned "
                                 "instead of raising FileExistsError", c)
                ck.count("b:real-optimize-calls")
            batch.diff(ck, "optimize-model-vs-impl")
            ck.case(("optimize", tuple(map(tuple, plan))), True)
            ck.count("b:stream:real-optimize")
        finally:
            scratch.drop(root)


def stream_real_subfolder(ck, scratch):
    """(b') through the real Project.optimize and the real yml plugin: a model in a sub folder (default result name 'sub/m'),
    a fault injected at every call position of YmlProjectIo.save_result"""
    import glotaran.builtin.io.yml.yml as ymlmod
    from glotaran.io import save_parameters
    from glotaran.project import Project
    from glotaran.testing.simulated_data.sequential_spectral_decay import DATASET, MODEL_YML, PARAMETERS

    positions = [n for n in ("save_result", "save_model", "save_scheme", "write_dict") if hasattr(ymlmod, n)]
    if len(positions) < 4:
        ck.disagree("yml-plugin-call-positions", f"YmlProjectIo.save_result no longer calls all of save_result/save_model/save_scheme/"
                    f"write_dict through module attributes: {positions}", {"kind": "optimize-subfolder"})
    plan = [None] + positions[: (2 if ck.quick else 4)] + [None]
    if ck.quick and len(positions) == 4:
        plan = [None, positions[ck.rng.randrange(0, 2)], positions[ck.rng.randrange(2, 4)], None]
    root = scratch.fresh()
    try:
        project = Project.open(root / "p")
        project.import_data(DATASET.isel(spectral=slice(0, 6)), dataset_name="dataset_1")
        (project.folder / "models" / "sub").mkdir(parents=True)
        (project.folder / "models" / "sub" / "m.yml").write_text(MODEL_YML)
        save_parameters(PARAMETERS, project.folder / "parameters" / "pars.csv")
        results = project.folder / "results"
        batch = Batch()
        case = {"kind": "optimize-subfolder", "plan": plan}
        batch.add("tree-reset []", None, case)
        payload, highest, stored = 0, -1, []
        for fault in plan:
            before = {q.relative_to(results).as_posix(): (q.read_bytes() if q.is_file() else None) for q in results.rglob("*")}
            orig = getattr(ymlmod, fault) if fault else None
            if fault:
                def boom(*a, **k):
                    raise Fault(f"fault injected at {fault}")
                setattr(ymlmod, fault, boom)
            try:
                with warnings.catch_warnings(), contextlib.redirect_stdout(io.StringIO()):
                    warnings.simplefilter("ignore")
                    project.optimize("sub/m", "pars", maximum_number_function_evaluations=1)
                err = None
            except Exception as e:  # noqa: BLE001
                err = e
            finally:
                if fault:
                    setattr(ymlmod, fault, orig)
            ck.oracle_evals += 1
            after = {q.relative_to(results).as_posix(): (q.read_bytes() if q.is_file() else None) for q in results.rglob("*")}
            changed = sorted(k for k in before if after.get(k, b"?") != before[k])
            if changed:
                ck.violation("earlier-run-changed", f"optimize('sub/m') (fault: {fault}) changed or removed {changed[:4]}", case)
            new_dirs = sorted(k for k in after if k not in before and after[k] is None and re.fullmatch(r"sub/m_run_[0-9]{4,}", k))
            if len(new_dirs) != 1:
                ck.violation("optimize-result-not-stored" if fault is None else "aborted-save-outcome",
                             f"optimize('sub/m') (fault: {fault}) raised {type(err).__name__ if err else None}: {str(err)[:100]}; "
                             f"new run folders {new_dirs}", case)
                batch.add("tree-save sub%2Fm 0" if fault is None else "tree-abort sub%2Fm", f"raised {type(err).__name__ if err else 'nothing'}", case)
                continue
            nr = int(new_dirs[0].rsplit("_", 1)[1])
            if nr <= highest:
                ck.violation("run-number-not-increasing" if fault is None else "partial-run-reused",
                             f"optimize('sub/m') (fault: {fault}) used run {nr}, earlier folders reach {highest}", case)
            highest = max(highest, nr)
            has_yml = (results / new_dirs[0] / "result.yml").is_file()
            if fault is None:
                payload += 1
                if err is not None or not has_yml:
                    ck.violation("optimize-result-not-stored", f"optimize('sub/m') raised {type(err).__name__}: {str(err)[:100]}", case)
                batch.add(f"tree-save sub%2Fm {payload}", "saved " + rp(new_dirs[0].split("/")), case)
                stored.append(new_dirs[0])
                with warnings.catch_warnings():
                    warnings.simplefilter("ignore")
                    try:
                        got = project.get_latest_result_path("sub/m").relative_to(results).as_posix()
                        for f in stored:
                            project.load_result(f)
                    except Exception as e:  # noqa: BLE001
                        got = f"{type(e).__name__}: {str(e)[:80]}"
                if got != new_dirs[0]:
                    ck.violation("latest-wrong-run", f"get_latest_result_path('sub/m') gave {got!r} after storing {new_dirs[0]!r}", case)
                batch.add("tree-latest sub%2Fm", f"found {rp(got.split('/'))} F", case)
            else:
                if not isinstance(err, Fault) or has_yml:
                    ck.violation("aborted-save-outcome", f"fault at {fault}: raised {type(err).__name__}, result.yml written: {has_yml}", case)
                batch.add("tree-abort sub%2Fm", "blocked " + rp(new_dirs[0].split("/")), case)
                ck.count(f"b':real-fault:{fault}")
            ck.count("b':real-subfolder-optimize")
        batch.diff(ck, "optimize-subfolder-model-vs-impl")
        ck.case(("optimize-subfolder", tuple(plan)), True)
    finally:
        scratch.drop(root)


def _tree_hash(folder: Path) -> str:
    h = hashlib.sha1()
    for p in sorted(folder.rglob("*")):
        h.update(p.relative_to(folder).as_posix().encode())
        if p.is_file():
            h.update(p.read_bytes())
    return h.hexdigest()


# ------------------------------------------------------------------------------------------------
# table cross-check
# ------------------------------------------------------------------------------------------------
def check_table(ck):
    fns, sites, consts = extract_all()
    got = core.lean_driver(PROP, ["table"])[0]
    want = ex.proto_table(fns, enc, strs, lst)
    if got != want:
        ck.disagree("generated-table", "the compiled SaveFns table differs from what the extractor reads from the source now",
                    {"kind": "table", "driver": got[:600], "extractor": want[:600]})
    plugins = extract_plugins()
    got_p = core.lean_driver(PROP, ["plugins"])[0]
    want_p = ex.proto_plugins(plugins, enc, strs, lst)
    if got_p != want_p:
        ck.disagree("generated-plugin-table", "the compiled ResultPlugins table differs from what the extractor reads from the source now",
                    {"kind": "table", "driver": got_p[:600], "extractor": want_p[:600]})
    ck.extra["result_plugin_steps"] = {pl["cls"]: len(pl["steps"]) for pl in plugins}
    import glotaran.io as gio

    public = sorted(n for n in dir(gio) if n.startswith("save_") and callable(getattr(gio, n)))
    if public != sorted(f["name"] for f in fns):
        ck.disagree("save-function-set", f"glotaran.io exports {public}, the table holds {sorted(f['name'] for f in fns)}",
                    {"kind": "table"})
    ck.extra["call_sites"] = [f"{s['file']}:{s['line']} {s['caller']} -> {s['callee']}(allow_overwrite={s['allow'][0] if len(s['allow']) == 1 else s['allow'][1]})"
                              for s in sites]
    ck.extra["result_registry_constants"] = consts
    ck.count("a:table-functions", len(fns))


# ------------------------------------------------------------------------------------------------
def run(ck):
    scratch = Scratch()
    try:
        import time

        phases = {}

        def timed(name, f, *a):
            t = time.time()
            f(*a)
            phases[name] = round(time.time() - t, 1)

        timed("table", check_table, ck)
        # corpus (save cases) first
        corpus = core.load_corpus(PROP)
        timed("corpus-saves", replay_saves, ck, scratch, [c for c in corpus if c.get("kind") == "save"], "corpus")
        timed("histories", stream_histories, ck, scratch)
        timed("tree", stream_tree, ck, scratch)
        timed("protect", stream_protect, ck, scratch)
        timed("guarded", stream_guarded, ck, scratch)
        timed("scripted", stream_scripted, ck, scratch)
        timed("builtin", stream_builtin, ck, scratch)
        timed("result-plugins", stream_result_plugins, ck, scratch)
        timed("real-optimize", stream_real_optimize, ck, scratch)
        timed("real-subfolder", stream_real_subfolder, ck, scratch)
        ck.extra["phase_seconds"] = phases
    finally:
        scratch.close()


def replay_saves(ck, scratch, cases, tag):
    if not cases:
        return
    spies = (Spy(), Spy())
    batch = Batch()
    with registries(spies[0], spies[1], ["fk", "yaml"]):
        for c in cases:
            init = [(tuple(e[0]), e[1], e[2]) for e in c["init"]]
            save_case(ck, scratch, batch, c["fn"], c.get("state", "corpus"), init, tuple(c["target"]), c["allow_overwrite"],
                      c["format_mode"], c["format_name"], c.get("script_name", "corpus"), c["script"], spies, tag)
    batch.diff(ck, "save-model-vs-impl")


def search(ck):
    """widened oracle-only sweep on the real code"""
    scratch = Scratch()
    try:
        batch = Batch()
        for h in CORPUS_BUILTIN:
            run_history(ck, scratch, h, batch, light=True)
        for h in TREE_CORPUS_BUILTIN:
            run_tree_history(ck, scratch, h, batch, light=True)
        if ck.violations:
            return
        for h in itertools.islice(history_space(NAMES5, 4), 0, None, 3):
            run_history(ck, scratch, h, batch, light=True)
            if ck.violations:
                return
        for _ in range(ck.n(150, 1500)):
            h = [("opt", ck.rng.choice(NAMES7)) for _ in range(ck.rng.randint(2, 10))]
            run_history(ck, scratch, h, batch, light=True)
            if ck.violations:
                return
        spies = (Spy(), Spy())
        cases = scripted_matrix(ck, full=True)
        ck.rng.shuffle(cases)
        with registries(spies[0], spies[1], ["fk", "yaml"]):
            for (fn, state, init, target, allow, fmt_mode, fmt, script_name, ops) in cases[: ck.n(3000, 20000)]:
                save_case(ck, scratch, Batch(), fn, state, init, target, allow, fmt_mode, fmt, script_name, ops, spies, "search")
                if ck.violations:
                    return
        stream_guarded(ck, scratch)
    finally:
        scratch.close()


def replay(ck, case):
    c = case.get("case", case)
    scratch = Scratch()
    try:
        todo = [d["case"] for d in case["disagreements"]] if "disagreements" in case else [c]
        for c in todo:
            kind = c.get("kind")
            if kind == "history":
                batch = Batch()
                run_history(ck, scratch, [tuple(o) for o in c["ops"]], batch, seed_dirs=tuple(c.get("seed_dirs", ())))
                batch.diff(ck, "registry-model-vs-impl")
            elif kind == "tree-history":
                batch = Batch()
                run_tree_history(ck, scratch, [tuple(tuple(x) if isinstance(x, list) else x for x in o) for o in c["ops"]], batch)
                batch.diff(ck, "tree-model-vs-impl")
            elif kind == "tree-parts":
                stream_tree(ck, scratch)
            elif kind == "save":
                replay_saves(ck, scratch, [c], "replay")
            elif kind in ("protect", "protect-relative"):
                stream_protect(ck, scratch)
            elif kind == "guarded":
                stream_guarded(ck, scratch)
            elif kind == "builtin-save":
                stream_builtin(ck, scratch)
            elif kind == "result-plugin":
                stream_result_plugins(ck, scratch)
            elif kind == "optimize":
                stream_real_optimize(ck, scratch)
            elif kind == "optimize-subfolder":
                stream_real_subfolder(ck, scratch)
            else:
                print(f"replay: unknown case kind {kind!r}; re-run the check with the recorded seed")
        for d in ck.disagreements:
            print("DISAGREEMENT", d["what"])
        for v in ck.violations:
            print("VIOLATION-DETAIL", v["what"])
    finally:
        scratch.close()
