"""C14 — function-level translator: Python `ast` of glotaran/simulation/simulation.py -> Lean (Generated/C14Fns.lean).

`simulate`, `simulate_from_clp` and `simulate_full_model` are translated statement by statement into Lean terms over the
vocabulary of lean/GlotaranModel/C14Py.lean (one Lean definition per Python / numpy / xarray operation):

  * a statement whose expression may raise becomes `Py.andThen <expr> (fun v => <rest>)`; an `if … raise` a guard; an
    `if / elif / else` that assigns variables a conditional whose branches return the assigned variables; a `for` loop over
    `range(n)` that updates one variable a `Py.forEach`; `x is None` tests a `match` on the option;
  * a function that touches `np.random` (directly or through a callee) is translated into `Py.M σ` (exceptions + the state of
    numpy's global generator, the generator being the parameter `rng`): `np.random.seed` -> `Py.M.seed rng`,
    `np.random.normal` -> `Py.M.normal rng`, calls of generator-free functions are lifted;
  * every variable is typed (str, 1-D array, labelled matrix container, 2-D DataArray, 1-D DataArray, Dataset …); an operation
    applied to a value of another type is not translated.

Source the translator cannot translate never crashes the check and never becomes a default: the function is emitted as
`Py.untranslatable "<reason>"` (type `Py.Untranslatable`), so the `generated_*_eq_model` theorem about it does not type-check.
"""
from __future__ import annotations

import ast
import hashlib
from pathlib import Path

SOURCE = "glotaran/simulation/simulation.py"
FUNCTIONS = ["simulate_from_clp", "simulate_full_model", "simulate"]


class Untranslatable(Exception):
    pass


LEAN_TYPE = {
    "str": "String", "vec": "Vec", "nat": "Nat", "dm": "Py.DatasetModel", "da": "Py.DataArray", "da1": "Py.DataArray1",
    "lmat": "LMat", "mat": "Mat", "ds": "SimResult", "bool": "Bool", "rat": "Rat", "optnat": "Option Nat",
    "optda": "Option Py.DataArray", "coords": "List (String × Vec)", "strs": "List String", "unit": "Unit",
    "natlist": "List Nat",
}

# messages of the exceptions the functions raise -> constructor of the model's error type
RAISES = [
    ("ValueError", "No global megacomplex is defined and no clp provided", "SimError.noClp"),
    ("ValueError", "Missing coordinate 'clp_label' in clp", "SimError.noClpLabel"),
    ("ValueError", "Index dependent models for global dimension are not supported", "SimError.globalIndexDependent"),
]


def lean_str(s):
    return '"' + s.replace("\\", "\\\\").replace('"', '\\"').replace("\n", " ") + '"'


class V:
    """typed Lean code; `raises`: the code is an `Except SimError`; `rng`: the code is an `M σ`"""

    def __init__(self, code, ty, raises=False, rng=False, extra=None):
        self.code, self.ty, self.raises, self.rng, self.extra = code, ty, raises, rng, extra


def annotation_type(a):
    s = ast.unparse(a) if a is not None else ""
    s = s.replace(" ", "")
    table = {
        "DatasetModel": "dm", "str": "str", "ArrayLike": "vec", "xr.DataArray": "da", "xr.DataArray|None": "optda",
        "bool": "bool", "float": "rat", "int|None": "optnat", "dict[str,ArrayLike]": "coords",
        "Model": "opaque:model", "Parameters": "opaque:parameters",
    }
    if s not in table:
        raise Untranslatable(f"parameter annotation {s!r}")
    return table[s]


class Function:
    def __init__(self, node, signatures, uses_rng):
        self.node = node
        self.name = node.name
        self.signatures = signatures      # name -> (param types, return type, rng?)
        self.uses_rng = uses_rng
        self.counter = 0
        self.params = []
        for a in node.args.args:
            self.params.append((a.arg, annotation_type(a.annotation)))
        if node.args.vararg or node.args.kwarg or node.args.kwonlyargs:
            raise Untranslatable("variadic parameters")

    # ---------------------------------------------------------------------------------------- helpers
    def fresh(self):
        self.counter += 1
        return f"v{self.counter}"

    def bind(self, x, f):
        return f"(Py.M.andThen {x} (fun {f}))" if self.uses_rng else f"(Py.andThen {x} (fun {f}))"

    def ret(self, x):
        return f"(Py.M.ret {x})" if self.uses_rng else f"(Except.ok {x})"

    def lift(self, v):
        """code of type Except / M of this function's mode"""
        if v.rng:
            return v.code
        return f"(Py.M.lift {v.code})" if self.uses_rng else v.code

    def tuple_of(self, names):
        if not names:
            return "()"
        return names[0] if len(names) == 1 else "(" + ", ".join(names) + ")"

    # ---------------------------------------------------------------------------------------- expressions
    def expr(self, e, env, binds):
        """-> V with pure code; sub-expressions that may raise / draw are appended to `binds` as (name, V) in evaluation order"""
        v = self.expr0(e, env, binds)
        if v.raises or v.rng:
            name = self.fresh()
            binds.append((name, v))
            return V(name, v.ty, extra=v.extra)
        return v

    def need(self, v, ty, what):
        if v.ty != ty:
            raise Untranslatable(f"{what}: expected {ty}, got {v.ty}")
        return v

    def expr0(self, e, env, binds):
        if isinstance(e, ast.Name):
            if e.id not in env:
                raise Untranslatable(f"unknown name {e.id!r}")
            v = env[e.id]
            if v.ty.startswith("opaque"):
                raise Untranslatable(f"{e.id} used outside fill_item")
            return v
        if isinstance(e, ast.Constant):
            if isinstance(e.value, bool):
                return V("true" if e.value else "false", "bool")
            if isinstance(e.value, str):
                return V(lean_str(e.value), "str")
            raise Untranslatable(f"constant {e.value!r}")
        if isinstance(e, ast.IfExp):
            c = self.need(self.expr(e.test, env, binds), "bool", "condition")
            b1, b2 = [], []
            a = self.expr(e.body, env, b1)
            b = self.expr(e.orelse, env, b2)
            if b1 or b2:
                raise Untranslatable("conditional expression with a branch that may raise")
            if a.ty != b.ty:
                raise Untranslatable("conditional expression with branches of different types")
            return V(f"(if {c.code} then {a.code} else {b.code})", a.ty)
        if isinstance(e, ast.UnaryOp) and isinstance(e.op, ast.Not):
            c = self.need(self.expr(e.operand, env, binds), "bool", "not")
            return V(f"(!{c.code})", "bool")
        if isinstance(e, ast.Compare) and len(e.ops) == 1:
            op, left, right = e.ops[0], e.left, e.comparators[0]
            if isinstance(op, (ast.In, ast.NotIn)) and isinstance(right, ast.Attribute) and right.attr == "coords":
                arr = self.need(self.expr(right.value, env, binds), "da", "`in x.coords`")
                key = self.need(self.expr(left, env, binds), "str", "coordinate name")
                code = f"(Py.DataArray.hasCoord {arr.code} {key.code})"
                return V(f"(!{code})" if isinstance(op, ast.NotIn) else code, "bool")
            raise Untranslatable(f"comparison {ast.unparse(e)!r}")
        if isinstance(e, ast.Attribute):
            return self.attribute(e, env, binds)
        if isinstance(e, ast.Subscript):
            return self.subscript(e, env, binds)
        if isinstance(e, ast.Call):
            return self.call(e, env, binds)
        raise Untranslatable(f"expression {ast.unparse(e)!r}")

    def attribute(self, e, env, binds):
        base = self.expr(e.value, env, binds)
        a = e.attr
        if a == "size" and base.ty == "vec":
            return V(f"(Py.size {base.code})", "nat")
        if base.ty == "lmat":
            if a == "matrix":
                return V(f"(Py.matrix2 {base.code})", "mat", extra=("container-matrix", base.code))
            if a == "is_index_dependent":
                return V(f"(Py.isIndexDependent {base.code})", "bool")
            if a == "clp_labels":
                return V(f"(Py.clpLabels {base.code})", "strs")
        if a == "T" and base.ty == "mat":
            return V(f"(Py.transposeMat {base.code})", "mat")
        if a == "data" and base.ty == "ds":
            return V(f"{base.code}.data", "mat", extra=("dataset-data", base.code))
        raise Untranslatable(f"attribute .{a} of a value of type {base.ty}")

    def subscript(self, e, env, binds):
        if isinstance(e.value, ast.Attribute) and e.value.attr == "matrix":
            cont = self.expr(e.value.value, env, binds)
            if cont.ty == "lmat":
                i = self.need(self.expr(e.slice, env, binds), "nat", "index of container.matrix[...]")
                return V(f"(Py.matrixAt {cont.code} {i.code})", "mat")
        base = self.expr(e.value, env, binds)
        if base.ty == "coords":
            k = self.need(self.expr(e.slice, env, binds), "str", "key of coordinates[...]")
            return V(f"(Py.dictGet {base.code} {k.code})", "vec", raises=True)
        raise Untranslatable(f"subscript {ast.unparse(e)!r}")

    def dict1(self, node, env, binds):
        if not (isinstance(node, ast.Dict) and len(node.keys) == 1 and node.keys[0] is not None):
            raise Untranslatable(f"indexer {ast.unparse(node)!r}")
        k = self.need(self.expr(node.keys[0], env, binds), "str", "dimension name")
        return k, node.values[0]

    def coord_pair(self, node, env, binds):
        if not (isinstance(node, ast.Tuple) and len(node.elts) == 2):
            raise Untranslatable(f"coordinate {ast.unparse(node)!r}")
        n = self.need(self.expr(node.elts[0], env, binds), "str", "coordinate name")
        a = self.expr(node.elts[1], env, binds)
        if a.ty == "vec":
            return f"({n.code}, Py.Coord.nums {a.code})"
        if a.ty == "strs":
            return f"({n.code}, Py.Coord.strs {a.code})"
        raise Untranslatable(f"coordinate values of type {a.ty}")

    def call(self, e, env, binds):
        f = ast.unparse(e.func)
        kw = {k.arg: k.value for k in e.keywords}
        if None in kw:
            raise Untranslatable("**kwargs")
        if f == "fill_item":
            if len(e.args) == 3 and not kw and ast.unparse(e.args[0]) == "model.dataset[dataset]" and ast.unparse(e.args[1]) == "model" \
                    and ast.unparse(e.args[2]) == "parameters" and "filled_dataset_model" in env:
                return env["filled_dataset_model"]
            raise Untranslatable(f"fill_item call {ast.unparse(e)!r}")
        if f == "get_dataset_model_model_dimension" and len(e.args) == 1 and not kw:
            dm = self.need(self.expr(e.args[0], env, binds), "dm", f)
            return V(f"{dm.code}.model_dimension", "str")
        if f == "has_dataset_model_global_model" and len(e.args) == 1 and not kw:
            dm = self.need(self.expr(e.args[0], env, binds), "dm", f)
            return V(f"(Py.hasGlobalModel {dm.code})", "bool")
        if f == "MatrixProvider.calculate_dataset_matrix":
            if len(e.args) != 3 or set(kw) - {"global_matrix"}:
                raise Untranslatable(f"call {ast.unparse(e)!r}")
            dm = self.need(self.expr(e.args[0], env, binds), "dm", f)
            # the megacomplex outputs of the model are the matrices for (global_axis, model_axis) of the request, in this order
            for node, want in zip(e.args[1:], ("global_axis", "model_axis")):
                v = self.expr(node, env, binds)
                if v.extra != ("axis", want):
                    raise Untranslatable(f"calculate_dataset_matrix: argument {ast.unparse(node)!r} is not the requested {want}")
            g = "false"
            if "global_matrix" in kw:
                g = self.need(self.expr(kw["global_matrix"], env, binds), "bool", "global_matrix").code
            return V(f"(Py.calculateDatasetMatrix {dm.code} {g})", "lmat", raises=True)
        if f == "next" and len(e.args) == 1 and not kw and isinstance(e.args[0], ast.GeneratorExp):
            g = e.args[0]
            if len(g.generators) == 1 and isinstance(g.elt, ast.Name) and isinstance(g.generators[0].target, ast.Name) \
                    and g.elt.id == g.generators[0].target.id and len(g.generators[0].ifs) == 1 and not g.generators[0].is_async:
                c = g.generators[0]
                d = self.need(self.expr(c.iter, env, binds), "coords", "next(... for ... in coordinates)")
                t = c.ifs[0]
                if isinstance(t, ast.Compare) and len(t.ops) == 1 and isinstance(t.ops[0], ast.NotEq) and isinstance(t.left, ast.Name) \
                        and t.left.id == g.elt.id:
                    o = self.need(self.expr(t.comparators[0], env, binds), "str", "dimension name")
                    return V(f"(Py.nextKeyNe {d.code} {o.code})", "str", raises=True)
            raise Untranslatable(f"generator {ast.unparse(e)!r}")
        if f == "np.zeros" and len(e.args) == 1 and not kw and isinstance(e.args[0], ast.Tuple) and len(e.args[0].elts) == 2:
            r = self.need(self.expr(e.args[0].elts[0], env, binds), "nat", "np.zeros")
            c = self.need(self.expr(e.args[0].elts[1], env, binds), "nat", "np.zeros")
            return V(f"(Py.zeros2 {r.code} {c.code})", "mat")
        if f == "np.dot" and len(e.args) == 2 and not kw:
            a = self.need(self.expr(e.args[0], env, binds), "mat", "np.dot")
            b = self.need(self.expr(e.args[1], env, binds), "vec", "np.dot")
            return V(f"(Py.npdot {a.code} {b.code})", "vec")
        if f == "xr.DataArray" and len(e.args) == 1 and set(kw) == {"coords"} and isinstance(kw["coords"], ast.List) \
                and len(kw["coords"].elts) == 2:
            vals = self.need(self.expr(e.args[0], env, binds), "mat", "xr.DataArray")
            c1 = self.coord_pair(kw["coords"].elts[0], env, binds)
            c2 = self.coord_pair(kw["coords"].elts[1], env, binds)
            return V(f"(Py.DataArray.ofCoords {vals.code} {c1} {c2})", "da")
        if f == "range" and len(e.args) == 1 and not kw:
            n = self.need(self.expr(e.args[0], env, binds), "nat", "range")
            return V(f"(Py.range {n.code})", "natlist")
        if f == "np.random.normal" and len(e.args) == 2 and not kw:
            loc = self.need(self.expr(e.args[0], env, binds), "mat", "np.random.normal")
            sd = self.need(self.expr(e.args[1], env, binds), "rat", "np.random.normal")
            return V(f"(Py.M.normal rng {loc.code} {sd.code})", "mat", rng=True)
        if f == "np.random.seed" and len(e.args) == 1 and not kw:
            s = self.need(self.expr(e.args[0], env, binds), "nat", "np.random.seed")
            return V(f"(Py.M.seed rng {s.code})", "unit", rng=True)
        if isinstance(e.func, ast.Attribute):
            m = e.func.attr
            if m == "to_dataset" and not e.args and set(kw) == {"name"} and isinstance(kw["name"], ast.Constant) and kw["name"].value == "data":
                arr = self.need(self.expr(e.func.value, env, binds), "da", ".to_dataset")
                return V(f"(Py.DataArray.toDataset {arr.code})", "ds")
            if m == "isel" and len(e.args) == 1 and not kw:
                arr = self.need(self.expr(e.func.value, env, binds), "da", ".isel")
                k, val = self.dict1(e.args[0], env, binds)
                i = self.need(self.expr(val, env, binds), "nat", ".isel index")
                return V(f"(Py.DataArray.isel {arr.code} {k.code} {i.code})", "da1", raises=True)
            if m == "sel" and len(e.args) == 1 and not kw:
                arr = self.need(self.expr(e.func.value, env, binds), "da1", ".sel")
                k, val = self.dict1(e.args[0], env, binds)
                ls = self.need(self.expr(val, env, binds), "strs", ".sel labels")
                return V(f"(Py.DataArray1.sel {arr.code} {k.code} {ls.code})", "vec", raises=True)
        if f in self.signatures:
            ptypes, rty, rng = self.signatures[f]
            if kw or len(e.args) != len(ptypes):
                raise Untranslatable(f"call {ast.unparse(e)!r}")
            args = []
            for node, ty in zip(e.args, ptypes):
                args.append(self.need(self.expr(node, env, binds), ty, f"argument of {f}").code)
            return V(f"({'' if not rng else ''}{f}{' rng' if rng else ''} {' '.join(args)})", rty, raises=not rng, rng=rng)
        raise Untranslatable(f"call {ast.unparse(e)!r}")

    # ---------------------------------------------------------------------------------------- statements
    def wrap(self, binds, body):
        """evaluate the pending sub-expressions in order, then `body` (code in this function's mode)"""
        for name, v in reversed(binds):
            body = self.bind(self.lift(v), f"{name} => {body}")
        return body

    def assigned(self, stmts):
        out = []
        for s in stmts:
            if isinstance(s, ast.Assign):
                for t in s.targets:
                    n = self.target_name(t)
                    if n not in out:
                        out.append(n)
            elif isinstance(s, ast.If):
                for n in self.assigned(s.body) + self.assigned(s.orelse):
                    if n not in out:
                        out.append(n)
            elif isinstance(s, ast.For):
                for n in self.assigned(s.body):
                    if n not in out:
                        out.append(n)
        return out

    def target_name(self, t):
        if isinstance(t, ast.Name):
            return t.id
        if isinstance(t, ast.Subscript):
            b = t.value
            if isinstance(b, ast.Attribute) and isinstance(b.value, ast.Name):
                return b.value.id
            if isinstance(b, ast.Name):
                return b.id
        raise Untranslatable(f"assignment target {ast.unparse(t)!r}")

    def raise_code(self, s):
        exc = s.exc
        if not (isinstance(exc, ast.Call) and isinstance(exc.func, ast.Name) and len(exc.args) == 1 and s.cause is None):
            raise Untranslatable(f"raise {ast.unparse(s)!r}")
        msg = exc.args[0]
        if isinstance(msg, ast.JoinedStr):
            text = "".join(v.value if isinstance(v, ast.Constant) else "{}" for v in msg.values)
        elif isinstance(msg, ast.Constant) and isinstance(msg.value, str):
            text = msg.value
        else:
            raise Untranslatable("exception message")
        for cls, part, ctor in RAISES:
            if exc.func.id == cls and part in text:
                return f"(Py.M.raise {ctor})" if self.uses_rng else f"(Py.raise {ctor})"
        raise Untranslatable(f"unknown exception {exc.func.id}({text!r})")

    def block(self, stmts, env, k):
        """code (in this function's mode) of `stmts` followed by the continuation `k(env)`; `k` is None after `return`/`raise`"""
        if not stmts:
            if k is None:
                raise Untranslatable("a path that neither returns nor raises")
            return k(env)
        s, rest = stmts[0], stmts[1:]
        env = dict(env)
        if isinstance(s, ast.Expr) and isinstance(s.value, ast.Constant) and isinstance(s.value.value, str):
            return self.block(rest, env, k)
        if isinstance(s, ast.Return):
            if s.value is None:
                raise Untranslatable("bare return")
            binds = []
            v = self.expr(s.value, env, binds)
            if v.ty != "ds":
                raise Untranslatable(f"returns a value of type {v.ty}")
            # `return f(...)`: the callee's outcome is the outcome
            if binds and binds[-1][0] == v.code:
                name, last = binds.pop()
                return self.wrap(binds, self.lift(last))
            return self.wrap(binds, self.ret(v.code))
        if isinstance(s, ast.Raise):
            return self.raise_code(s)
        if isinstance(s, ast.Expr):
            binds = []
            v = self.expr(s.value, env, binds)
            if v.ty != "unit":
                raise Untranslatable(f"expression statement {ast.unparse(s)!r}")
            if binds and binds[-1][0] == v.code:
                name, last = binds.pop()
                return self.wrap(binds, self.bind(self.lift(last), f"_ => {self.block(rest, env, k)}"))
            return self.wrap(binds, self.block(rest, env, k))
        if isinstance(s, ast.Assign):
            if len(s.targets) != 1:
                raise Untranslatable("chained assignment")
            t = s.targets[0]
            binds = []
            if isinstance(t, ast.Name):
                v = self.expr(s.value, env, binds)
                extra = v.extra
                # the axes of the request keep their identity through `model_axis = coordinates[model_dimension]`
                if self.name == "simulate" and t.id in ("model_axis", "global_axis") and v.ty == "vec":
                    extra = ("axis", t.id)
                env[t.id] = V(t.id, v.ty, extra=extra)
                if binds and binds[-1][0] == v.code:
                    name, last = binds.pop()
                    return self.wrap(binds, self.bind(self.lift(last), f"{t.id} => {self.block(rest, env, k)}"))
                return self.wrap(binds, f"(let {t.id} := {v.code}; {self.block(rest, env, k)})")
            name = self.target_name(t)
            if name not in env or env[name].ty != "ds":
                raise Untranslatable(f"assignment to {ast.unparse(t)!r}")
            cur = env[name].code
            if isinstance(t.value, ast.Attribute) and t.value.attr == "data" and isinstance(t.slice, ast.Tuple) and len(t.slice.elts) == 2 \
                    and isinstance(t.slice.elts[0], ast.Slice) and ast.unparse(t.slice.elts[0]) == ":":
                # result.data[:, i] = v
                i = self.need(self.expr(t.slice.elts[1], env, binds), "nat", "column index")
                v = self.need(self.expr(s.value, env, binds), "vec", "column value")
                new = f"(Py.setColumn {cur} {i.code} {v.code})"
            elif isinstance(t.value, ast.Name) and isinstance(t.slice, ast.Constant) and t.slice.value == "data" \
                    and isinstance(s.value, ast.Tuple) and len(s.value.elts) == 2 and ast.unparse(s.value.elts[0]) == f"{name}.data.dims":
                # result["data"] = (result.data.dims, values)
                v = self.need(self.expr(s.value.elts[1], env, binds), "mat", "data values")
                new = f"(Py.setData {cur} {v.code})"
            else:
                raise Untranslatable(f"assignment to {ast.unparse(t)!r}")
            env[name] = V(name, "ds")
            return self.wrap(binds, f"(let {name} := {new}; {self.block(rest, env, k)})")
        if isinstance(s, ast.If):
            return self.if_stmt(s, rest, env, k)
        if isinstance(s, ast.For):
            return self.for_stmt(s, rest, env, k)
        raise Untranslatable(f"statement {type(s).__name__}")

    def terminates(self, stmts):
        """every path through `stmts` ends in return / raise"""
        if not stmts:
            return False
        s = stmts[-1]
        if isinstance(s, (ast.Return, ast.Raise)):
            return True
        if isinstance(s, ast.If):
            return self.terminates(s.body) and self.terminates(s.orelse)
        return False

    def if_stmt(self, s, rest, env, k):
        names = [n for n in self.assigned([s])]
        # variables that a non-terminating branch leaves unassigned must exist already
        carried = []
        for n in names:
            carried.append(n)

        def after(branch_env):
            for n in carried:
                if n not in branch_env:
                    raise Untranslatable(f"{n} may be unassigned after the if statement")
            return self.ret(self.tuple_of([branch_env[n].code for n in carried]))

        types = {}

        def branch(stmts, benv):
            if self.terminates(stmts):
                return self.block(stmts, benv, None)

            def kk(e2):
                for n in carried:
                    if n in e2:
                        if types.setdefault(n, e2[n].ty) != e2[n].ty:
                            raise Untranslatable(f"{n} has different types in the branches")
                return after(e2)
            return self.block(stmts, benv, kk)

        # `x is None` / `x is not None` on an optional value: a match that unwraps it
        t = s.test
        binds = []
        if isinstance(t, ast.Compare) and len(t.ops) == 1 and isinstance(t.ops[0], (ast.Is, ast.IsNot)) \
                and isinstance(t.comparators[0], ast.Constant) and t.comparators[0].value is None and isinstance(t.left, ast.Name):
            x = t.left.id
            if x not in env or env[x].ty not in ("optda", "optnat"):
                raise Untranslatable(f"`{x} is None` on a value that is not optional")
            inner = dict(env)
            inner[x] = V(x, {"optda": "da", "optnat": "nat"}[env[x].ty])
            none_b, some_b = (s.body, s.orelse) if isinstance(t.ops[0], ast.Is) else (s.orelse, s.body)
            cond = f"(match {env[x].code} with | none => {branch(none_b, env)} | some {x} => {branch(some_b, inner)})"
        else:
            c = self.need(self.expr(t, env, binds), "bool", "if condition")
            cond = f"(if {c.code} then {branch(s.body, env)} else {branch(s.orelse, env)})"
        if self.terminates([s]):
            return self.wrap(binds, cond)
        env2 = dict(env)
        for n in carried:
            ty = types.get(n) or (env[n].ty if n in env else None)
            if ty is None:
                raise Untranslatable(f"{n} may be unassigned after the if statement")
            env2[n] = V(n, ty)
        pat = self.tuple_of(carried) if carried else "_"
        return self.wrap(binds, self.bind(cond, f"{pat} => {self.block(rest, env2, k)}"))

    def for_stmt(self, s, rest, env, k):
        if self.uses_rng:
            raise Untranslatable("loop in a function that uses the random generator")
        if s.orelse or not isinstance(s.target, ast.Name):
            raise Untranslatable("for loop form")
        binds = []
        it = self.need(self.expr(s.iter, env, binds), "natlist", "loop iterable")
        carried = [n for n in self.assigned(s.body) if n in env]
        if len(carried) != 1:
            raise Untranslatable(f"loop updates {carried}: exactly one variable expected")
        c = carried[0]
        inner = dict(env)
        inner[s.target.id] = V(s.target.id, "nat")
        ty = env[c].ty

        def kk(e2):
            if e2[c].ty != ty:
                raise Untranslatable(f"{c} changes its type in the loop")
            return self.ret(e2[c].code)
        body = self.block(s.body, inner, kk)
        loop = f"(Py.forEach {it.code} {env[c].code} (fun {s.target.id} {c} => {body}))"
        env2 = dict(env)
        env2[c] = V(c, ty)
        return self.wrap(binds, self.bind(loop, f"{c} => {self.block(rest, env2, k)}"))

    # ---------------------------------------------------------------------------------------- whole function
    def lean_params(self):
        out, env = [], {}
        if self.uses_rng:
            out.append("{σ : Type} (rng : Rng σ)")
        opaque = [n for n, t in self.params if t.startswith("opaque") or (self.name == "simulate" and n == "dataset")]
        if opaque:
            if self.name != "simulate" or sorted(opaque) != ["dataset", "model", "parameters"]:
                raise Untranslatable(f"parameters {opaque}")
            out.append("(filled_dataset_model : Py.DatasetModel)")
            env["filled_dataset_model"] = V("filled_dataset_model", "dm")
        for n, t in self.params:
            if n in opaque:
                env[n] = V(n, "opaque")
                continue
            out.append(f"({n} : {LEAN_TYPE[t]})")
            extra = ("axis", n) if n in ("global_axis", "model_axis") and t == "vec" else None
            env[n] = V(n, t, extra=extra)
        return " ".join(out), env

    def translate(self):
        params, env = self.lean_params()
        body = pretty(self.block(self.node.body, env, None))
        rty = "Py.M σ SimResult" if self.uses_rng else "Except SimError SimResult"
        return f"def {self.name} {params} : {rty} :=\n  {body}\n"


def pretty(code):
    """line breaks before every step (the term is fully parenthesised, so layout carries no meaning)"""
    out, depth, i, in_str, match_at = [], 0, 0, False, None
    openers = ("(Py.andThen ", "(Py.M.andThen ", "(let ", "(if ", "(match ", "(Py.forEach ")
    while i < len(code):
        ch = code[i]
        if ch == '"' and (i == 0 or code[i - 1] != "\\"):
            in_str = not in_str
        if not in_str:
            if ch == "(":
                # no breaks inside a `match` (its alternatives are layout sensitive)
                if i > 0 and match_at is None and code.startswith(openers, i):
                    out.append("\n" + "  " * (min(depth, 12) + 2))
                if match_at is None and code.startswith("(match ", i):
                    match_at = depth
                depth += 1
            elif ch == ")":
                depth -= 1
                if match_at is not None and depth == match_at:
                    match_at = None
        out.append(ch)
        i += 1
    return "".join(out).replace(" \n", "\n")


def uses_random(node, funcs, seen=()):
    for n in ast.walk(node):
        if isinstance(n, ast.Attribute) and ast.unparse(n).startswith("np.random"):
            return True
        if isinstance(n, ast.Call) and isinstance(n.func, ast.Name) and n.func.id in funcs and n.func.id not in seen and n.func.id != node.name:
            if uses_random(funcs[n.func.id], funcs, seen + (node.name,)):
                return True
    return False


def translate(repo):
    """-> (text of Generated/C14Fns.lean, {function: 'ok' | reason})"""
    report = {}
    header = (
        "/- GENERATED by harness/props/_c14_translate.py from the source text of " + SOURCE + " of VERIF_REPO — do not edit.\n"
        "   One definition per function; every statement is a step in the vocabulary of GlotaranModel/C14Py.lean.\n"
        "   `Py.untranslatable` marks source the translator could not translate. -/\n"
        "import GlotaranModel.C14Py\nnamespace Glotaran.C14.Generated\nopen Glotaran.LinAlg Glotaran.C02 Glotaran.C14\n\n"
    )
    defs = []
    funcs = {}
    try:
        tree = ast.parse((Path(repo) / SOURCE).read_text())
        funcs = {n.name: n for n in tree.body if isinstance(n, ast.FunctionDef)}
    except Exception as e:  # noqa: BLE001 - unreadable source: every function is untranslatable
        for f in FUNCTIONS:
            report[f] = f"source not parsable: {e!r}"[:200]
    signatures = {}
    for f in FUNCTIONS:
        if f in report:
            defs.append(f"def {f} : Py.Untranslatable := Py.untranslatable {lean_str(report[f])}\n")
            continue
        try:
            if f not in funcs:
                raise Untranslatable(f"function {f} not found in {SOURCE}")
            rng = uses_random(funcs[f], funcs)
            fn = Function(funcs[f], signatures, rng)
            text = fn.translate()
            defs.append(f"/-- `{f}` -/\n" + text)
            signatures[f] = ([t for _, t in fn.params], "ds", rng)
            report[f] = "ok"
        except Untranslatable as e:
            report[f] = str(e)[:300]
            defs.append(f"def {f} : Py.Untranslatable := Py.untranslatable {lean_str(report[f])}\n")
        except Exception as e:  # noqa: BLE001 - a translator bug must not crash the check either
            report[f] = f"translator error: {e!r}"[:300]
            defs.append(f"def {f} : Py.Untranslatable := Py.untranslatable {lean_str(report[f])}\n")
    return header + "\n".join(defs) + "\nend Glotaran.C14.Generated\n", report


def all_untranslatable(reason):
    """the file with every function marked untranslatable (used when Lean rejects the generated definitions)"""
    header = (
        "/- GENERATED by harness/props/_c14_translate.py from the source text of " + SOURCE + " of VERIF_REPO — do not edit.\n"
        "   Lean rejected the translated definitions; every function is marked untranslatable. -/\n"
        "import GlotaranModel.C14Py\nnamespace Glotaran.C14.Generated\nopen Glotaran.LinAlg Glotaran.C02 Glotaran.C14\n\n"
    )
    defs = [f"def {f} : Py.Untranslatable := Py.untranslatable {lean_str(reason[:300])}\n" for f in FUNCTIONS]
    return header + "\n".join(defs) + "\nend Glotaran.C14.Generated\n"


def write_if_changed(path: Path, text: str):
    if not path.exists() or path.read_text() != text:
        path.parent.mkdir(parents=True, exist_ok=True)
        path.write_text(text)
        return True
    return False


def sha1(text):
    return hashlib.sha1(text.encode()).hexdigest()
